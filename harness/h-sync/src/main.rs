//! h-sync: observes the real `deadpool_sync::SyncWrapper` on a multi-threaded tokio runtime (C14).
//!
//! A script of controller operations (interact calls with closures that return or panic, gated
//! or not; cancellations; awaits; probes of the poison flag; the drop of the wrapper) is run by
//! an async task on a worker thread.  Closures and the wrapped value's destructor write into a
//! global event log, stamped with whether they ran on a thread of the blocking pool (`b`) or on
//! an async thread (`a`: a runtime worker or the main thread).  The log — one line per event, in
//! the order things really happened — is the trace: the Lean model must accept every line as an
//! enabled step, and independent monitors check the property on it.
//!
//! `gen --seed S --traces N --profile P --out FILE`, `replay --in FILE --out FILE`.

use std::{
    cell::Cell,
    collections::BTreeMap,
    future::Future,
    io::Write,
    pin::Pin,
    sync::{
        Arc, Condvar, Mutex,
    },
    task::{Context, Poll, RawWaker, RawWakerVTable, Waker},
    time::{Duration, Instant},
};

use deadpool_runtime::Runtime;
use deadpool_sync::{InteractError, SyncWrapper};

thread_local! {
    /// async thread: a runtime worker or the main thread
    static ASYNC_THREAD: Cell<bool> = const { Cell::new(false) };
}

fn thr() -> &'static str {
    if ASYNC_THREAD.with(|c| c.get()) {
        "a"
    } else {
        "b"
    }
}

struct Rng(u64);
impl Rng {
    fn next(&mut self) -> u64 {
        self.0 = self.0.wrapping_add(0x9E3779B97F4A7C15);
        let mut z = self.0;
        z = (z ^ (z >> 30)).wrapping_mul(0xBF58476D1CE4E5B9);
        z = (z ^ (z >> 27)).wrapping_mul(0x94D049BB133111EB);
        z ^ (z >> 31)
    }
    fn below(&mut self, n: usize) -> usize {
        (self.next() % n.max(1) as u64) as usize
    }
    fn chance(&mut self, p: usize) -> bool {
        self.below(100) < p
    }
}

#[derive(Default)]
struct LogInner {
    lines: Vec<String>,
    /// number of events that touched the value (create, begin, finish, destroy)
    events: usize,
    destroyed: usize,
}

#[derive(Default)]
struct Log(Mutex<LogInner>);

impl Log {
    fn value_event(&self, line: String) {
        let mut l = self.0.lock().unwrap_or_else(|e| e.into_inner());
        l.events += 1;
        if line.starts_with("destroy") {
            l.destroyed += 1;
        }
        let n = l.events;
        l.lines.push(line);
        l.lines.push(format!("obs events={n} poisoned=?"));
    }
    fn action(&self, line: String) {
        let mut l = self.0.lock().unwrap_or_else(|e| e.into_inner());
        let n = l.events;
        l.lines.push(line);
        l.lines.push(format!("obs events={n} poisoned=?"));
    }
    fn error(&self, msg: &str) {
        let mut l = self.0.lock().unwrap_or_else(|e| e.into_inner());
        l.lines.push(format!("error {msg}"));
    }
}

struct Probe {
    log: Arc<Log>,
    touched: usize,
}

impl Drop for Probe {
    fn drop(&mut self) {
        self.log.value_event(format!("destroy {}", thr()));
    }
}

#[derive(Default)]
struct Gate {
    open: Mutex<bool>,
    cv: Condvar,
}
impl Gate {
    fn wait(&self) {
        let mut g = self.open.lock().unwrap();
        while !*g {
            g = self.cv.wait(g).unwrap();
        }
    }
    fn release(&self) {
        *self.open.lock().unwrap() = true;
        self.cv.notify_all();
    }
}

#[derive(Clone, Debug)]
enum Op {
    Call { panic: bool, gated: bool },
    Release(usize),
    Cancel(usize),
    Await(usize),
    Pause(u64),
    Probe,
    DropW,
}

fn op_tok(o: &Op) -> String {
    match o {
        Op::Call { panic, gated } => format!("c:{}:{}", if *panic { "panic" } else { "ok" }, if *gated { "g" } else { "f" }),
        Op::Release(i) => format!("r:{i}"),
        Op::Cancel(i) => format!("x:{i}"),
        Op::Await(i) => format!("a:{i}"),
        Op::Pause(us) => format!("p:{us}"),
        Op::Probe => "o".into(),
        Op::DropW => "d".into(),
    }
}

fn parse_op(t: &str) -> Option<Op> {
    let p: Vec<&str> = t.split(':').collect();
    Some(match p.as_slice() {
        ["c", b, g] => Op::Call { panic: *b == "panic", gated: *g == "g" },
        ["r", i] => Op::Release(i.parse().ok()?),
        ["x", i] => Op::Cancel(i.parse().ok()?),
        ["a", i] => Op::Await(i.parse().ok()?),
        ["p", us] => Op::Pause(us.parse().ok()?),
        ["o"] => Op::Probe,
        ["d"] => Op::DropW,
        _ => return None,
    })
}

fn noop_waker() -> Waker {
    fn clone(_: *const ()) -> RawWaker {
        RawWaker::new(std::ptr::null(), &VTABLE)
    }
    fn noop(_: *const ()) {}
    static VTABLE: RawWakerVTable = RawWakerVTable::new(clone, noop, noop, noop);
    // SAFETY: the vtable functions do nothing and the data pointer is never dereferenced
    unsafe { Waker::from_raw(RawWaker::new(std::ptr::null(), &VTABLE)) }
}

type Fut = Pin<Box<dyn Future<Output = Result<(), InteractError>> + Send>>;

fn poll_once(f: &mut Fut) -> Poll<Result<(), InteractError>> {
    let waker = noop_waker();
    let mut cx = Context::from_waker(&waker);
    f.as_mut().poll(&mut cx)
}

type Gates = Arc<Mutex<Vec<Arc<Gate>>>>;

async fn controller(script: Vec<Op>, log: Arc<Log>, all_gates: Gates) {
    let create_log = log.clone();
    let wrapper = SyncWrapper::new(Runtime::Tokio1, move || {
        create_log.value_event(format!("create {}", thr()));
        Ok::<_, ()>(Probe { log: create_log.clone(), touched: 0 })
    })
    .await;
    let Ok(wrapper) = wrapper else {
        log.error("SyncWrapper::new failed");
        return;
    };
    let mut w: Option<Arc<SyncWrapper<Probe>>> = Some(Arc::new(wrapper));
    let mut futs: BTreeMap<usize, Fut> = BTreeMap::new();
    let mut gates: Vec<Arc<Gate>> = Vec::new();
    let mut script = script;
    // every other script drops the wrapper from a panicking holder (a function of the script, so
    // that replays agree)
    let unwinding_drop = script.len() % 2 == 1;
    // whatever the script says, the wrapper is dropped in the end
    script.push(Op::DropW);
    for op in script {
        match op {
            Op::Call { panic, gated } => {
                let Some(wr) = w.clone() else { continue };
                let i = gates.len();
                let gate = Arc::new(Gate::default());
                if !gated {
                    gate.release();
                }
                gates.push(gate.clone());
                all_gates.lock().unwrap().push(gate.clone());
                let l = log.clone();
                // whatever thread awaits is an async thread by definition
                ASYNC_THREAD.with(|c| c.set(true));
                log.action(format!("call {}", if panic { "panic" } else { "ok" }));
                let mut fut: Fut = Box::pin(async move {
                    wr.interact(move |p: &mut Probe| {
                        l.value_event(format!("begin {i} {}", thr()));
                        gate.wait();
                        p.touched += 1;
                        l.value_event(format!("finish {i} {}", panic as u8));
                        if panic {
                            std::panic::panic_any("scripted panic");
                        }
                    })
                    .await
                });
                // first poll: this is where `spawn_blocking` happens
                match poll_once(&mut fut) {
                    Poll::Ready(r) => {
                        log.action(format!("result {i} {}", res_tok(&r)));
                    }
                    Poll::Pending => {
                        let _ = futs.insert(i, fut);
                    }
                }
            }
            Op::Release(i) => {
                if let Some(g) = gates.get(i) {
                    g.release();
                }
            }
            Op::Cancel(i) => {
                if let Some(f) = futs.remove(&i) {
                    log.action(format!("cancel {i}"));
                    drop(f);
                }
            }
            Op::Await(i) => {
                let Some(mut f) = futs.remove(&i) else { continue };
                for g in &gates {
                    g.release();
                }
                let start = Instant::now();
                loop {
                    if let Poll::Ready(r) = poll_once(&mut f) {
                        log.action(format!("result {i} {}", res_tok(&r)));
                        break;
                    }
                    if start.elapsed() > Duration::from_secs(10) {
                        log.error(&format!("interact {i} did not complete within 10s"));
                        break;
                    }
                    tokio::time::sleep(Duration::from_micros(200)).await;
                }
            }
            Op::Pause(us) => tokio::time::sleep(Duration::from_micros(us)).await,
            Op::Probe => {
                let Some(wr) = &w else { continue };
                // under the log lock, so that no event can slip in between the observation and
                // its line; only when the mutex is free (no closure is between its `finish`
                // line and the moment its panic poisons the mutex)
                let mut l = log.0.lock().unwrap_or_else(|e| e.into_inner());
                let free = match wr.try_lock() {
                    Ok(g) => {
                        drop(g);
                        true
                    }
                    Err(std::sync::TryLockError::Poisoned(_)) => true,
                    Err(std::sync::TryLockError::WouldBlock) => false,
                };
                // `is_mutex_poisoned()` is asked on a helper thread with a deadline: a read-only
                // accessor must never wait for the mutex (on correct code it answers at once, so
                // the deadline is never near; a harness deadlock is avoided if it does wait)
                let ask = |wr: &Arc<SyncWrapper<Probe>>| -> Option<bool> {
                    let w2 = wr.clone();
                    let (tx, rx) = std::sync::mpsc::channel();
                    let h = std::thread::spawn(move || {
                        let p = w2.is_mutex_poisoned();
                        let _ = tx.send(p);
                    });
                    match rx.recv_timeout(Duration::from_secs(3)) {
                        Ok(p) => {
                            let _ = h.join();
                            Some(p)
                        }
                        Err(_) => None,
                    }
                };
                if free {
                    let n = l.events;
                    match ask(wr) {
                        Some(p) => {
                            l.lines.push("probe".into());
                            l.lines.push(format!("obs events={n} poisoned={}", p as u8));
                        }
                        None => l.lines.push("error the async thread would block: is_mutex_poisoned() did not answer within 3 s (it waits for the wrapper's mutex)".into()),
                    }
                } else {
                    // a closure is running right now: the accessor must still answer at once
                    drop(l);
                    if ask(wr).is_none() {
                        let mut l = log.0.lock().unwrap_or_else(|e| e.into_inner());
                        l.lines.push("error the async thread would block: is_mutex_poisoned() did not answer within 3 s while a closure was running (it waits for the wrapper's mutex)".into());
                    }
                }
            }
            Op::DropW => {
                let Some(wr) = w.take() else { continue };
                ASYNC_THREAD.with(|c| c.set(true));
                for (i, f) in std::mem::take(&mut futs) {
                    log.action(format!("cancel {i}"));
                    drop(f);
                }
                if Arc::strong_count(&wr) != 1 {
                    log.error("wrapper still shared at drop");
                }
                log.action("dropw".into());
                if unwinding_drop {
                    // the holder panics: the wrapper is dropped while its thread is unwinding
                    let _ = std::panic::catch_unwind(std::panic::AssertUnwindSafe(move || {
                        let _holder = wr;
                        std::panic::panic_any("holder of the wrapper panics");
                    }));
                } else {
                    drop(wr);
                }
            }
        }
    }
    // let everything run to the end: the destructor has to show up
    for g in &gates {
        g.release();
    }
    let start = Instant::now();
    loop {
        if log.0.lock().unwrap_or_else(|e| e.into_inner()).destroyed > 0 {
            break;
        }
        if start.elapsed() > Duration::from_secs(10) {
            log.error("the destructor did not run within 10s of the drop");
            return;
        }
        tokio::time::sleep(Duration::from_micros(200)).await;
    }
    // a little longer, to catch anything that happens after the destructor
    tokio::time::sleep(Duration::from_millis(2)).await;
}

fn res_tok(r: &Result<(), InteractError>) -> &'static str {
    match r {
        Ok(()) => "ok",
        Err(InteractError::Panic(_)) => "panic",
        Err(InteractError::Aborted) => "aborted",
    }
}

fn run_script(script: &[Op], blocking: usize) -> Vec<String> {
    const WORKERS: usize = 2;
    let rt = tokio::runtime::Builder::new_multi_thread()
        .worker_threads(WORKERS)
        .max_blocking_threads(blocking)
        .enable_time()
        .build()
        .unwrap();
    // A thread is an async thread when it runs async tasks.  Find the workers by running marker
    // tasks that hold their worker for a moment (so that the next marker has to go to another
    // worker) until all of them have been seen.
    let seen = Arc::new(Mutex::new(std::collections::HashSet::new()));
    let t0 = Instant::now();
    while seen.lock().unwrap().len() < WORKERS && t0.elapsed() < Duration::from_secs(5) {
        let hs: Vec<_> = (0..2 * WORKERS)
            .map(|_| {
                let seen = seen.clone();
                rt.spawn(async move {
                    ASYNC_THREAD.with(|c| c.set(true));
                    let _ = seen.lock().unwrap().insert(std::thread::current().id());
                    std::thread::sleep(Duration::from_micros(300));
                })
            })
            .collect();
        for h in hs {
            let _ = rt.block_on(h);
        }
    }
    let log = Arc::new(Log::default());
    if seen.lock().unwrap().len() < WORKERS {
        log.error("could not identify the runtime's worker threads");
    }
    let l2 = log.clone();
    let script = script.to_vec();
    let gates: Gates = Arc::default();
    // watchdog: nothing the controller does may block its (async) thread for long.  A plain
    // channel: with a worker blocked the runtime's own timers may never fire.
    let (tx, rx) = std::sync::mpsc::channel();
    let g2 = gates.clone();
    let _h = rt.spawn(async move {
        controller(script, l2, g2).await;
        let _ = tx.send(());
    });
    let done = rx.recv_timeout(Duration::from_secs(8)).is_ok();
    if !done {
        log.error("the async thread driving the wrapper was blocked for 8s (an operation of the wrapper blocked it)");
        for g in gates.lock().unwrap().iter() {
            g.release();
        }
        std::thread::sleep(Duration::from_millis(50));
        rt.shutdown_background();
    } else {
        rt.shutdown_timeout(Duration::from_secs(2));
    }
    let l = log.0.lock().unwrap_or_else(|e| e.into_inner());
    l.lines.clone()
}

fn gen_script(rng: &mut Rng, profile: &str) -> Vec<Op> {
    let n = 2 + rng.below(if profile == "long" { 30 } else { 12 });
    let mut ops = Vec::new();
    let mut calls = 0usize;
    let mut dropped = false;
    for _ in 0..n {
        let k = rng.below(100);
        let op = if dropped || calls == 0 || k < 35 {
            if dropped {
                Op::Pause(rng.below(300) as u64)
            } else {
                calls += 1;
                Op::Call { panic: rng.chance(if profile == "panic" { 45 } else { 20 }), gated: rng.chance(55) }
            }
        } else if k < 50 {
            Op::Release(rng.below(calls))
        } else if k < 65 {
            Op::Cancel(rng.below(calls))
        } else if k < 78 {
            Op::Await(rng.below(calls))
        } else if k < 88 {
            Op::Pause(rng.below(400) as u64)
        } else if k < 96 {
            Op::Probe
        } else {
            dropped = true;
            Op::DropW
        };
        ops.push(op);
    }
    ops
}

fn write_trace(out: &mut impl Write, header: &str, script: &[Op], blocking: usize, lines: &[String]) {
    let toks: Vec<String> = script.iter().map(op_tok).collect();
    writeln!(out, "trace sync {header} blocking={blocking} script={}", toks.join(",")).unwrap();
    // the construction is the first event; the model starts after it
    let create = lines.iter().find(|l| l.starts_with("create ")).cloned().unwrap_or("create ?".into());
    writeln!(out, "cfg sync blocking={blocking} {}", create.replace(' ', "=")).unwrap();
    let mut skip_obs = false;
    for l in lines {
        if l.starts_with("create ") {
            skip_obs = true;
            continue;
        }
        if skip_obs && l.starts_with("obs ") {
            skip_obs = false;
            continue;
        }
        skip_obs = false;
        writeln!(out, "{l}").unwrap();
    }
    writeln!(out, "end").unwrap();
}

fn main() {
    ASYNC_THREAD.with(|c| c.set(true));
    let args: Vec<String> = std::env::args().collect();
    let get = |k: &str| -> Option<String> { args.iter().position(|a| a == k).and_then(|i| args.get(i + 1)).cloned() };
    let mode = args.get(1).map(|s| s.as_str()).unwrap_or("");
    // scripted panics are part of the experiment
    std::panic::set_hook(Box::new(|i| {
        if std::env::var("HSYNC_DEBUG").is_ok() {
            eprintln!("panic: {i}");
        }
    }));
    match mode {
        "gen" => {
            let seed: u64 = get("--seed").and_then(|v| v.parse().ok()).unwrap_or(1);
            let n: usize = get("--traces").and_then(|v| v.parse().ok()).unwrap_or(10);
            let profile = get("--profile").unwrap_or("sync".into());
            let path = get("--out").expect("--out");
            let mut out = std::io::BufWriter::new(std::fs::File::create(path).unwrap());
            let mut rng = Rng(seed.wrapping_mul(0x2545F4914F6CDD1D) ^ 0xC14);
            for k in 0..n {
                let script = gen_script(&mut rng, &profile);
                let blocking = 1 + rng.below(3);
                if std::env::var("HSYNC_DEBUG").is_ok() {
                    eprintln!("running blocking={blocking} {}", script.iter().map(op_tok).collect::<Vec<_>>().join(","));
                }
                let lines = run_script(&script, blocking);
                write_trace(&mut out, &format!("seed={seed} n={k}"), &script, blocking, &lines);
                out.flush().unwrap();
                if lines.iter().any(|l| l.starts_with("error the async thread")) {
                    // one is enough; every further one would cost the watchdog's patience again
                    break;
                }
            }
        }
        "asyncstd-check" => {
            // the second runtime flavour of `deadpool_runtime::Runtime`: creation, interaction
            // and destruction must run on threads of async-std's
            // blocking pool (`blocking-N`), never on the thread that awaits / drops or on an
            // executor thread (`async-std/runtime`)
            let path = get("--out").expect("--out");
            let seen: Arc<Mutex<Vec<(String, String)>>> = Arc::default();
            struct P(Arc<Mutex<Vec<(String, String)>>>);
            impl Drop for P {
                fn drop(&mut self) {
                    self.0.lock().unwrap().push(("destroy".into(), tname()));
                }
            }
            fn tname() -> String {
                std::thread::current().name().unwrap_or("?").to_string()
            }
            let s2 = seen.clone();
            let caller = async_std::task::block_on(async_std::task::spawn(async move {
                let me = tname();
                let s3 = s2.clone();
                let w = SyncWrapper::new(Runtime::AsyncStd1, move || {
                    s3.lock().unwrap().push(("create".into(), tname()));
                    Ok::<_, ()>(P(s3.clone()))
                })
                .await
                .map_err(|_| ())
                .expect("create");
                let s3 = s2.clone();
                let _ = w.interact(move |_| s3.lock().unwrap().push(("interact".into(), tname()))).await;
                // (a panicking closure is not part of this scenario: async-std hands the panic on
                // to the awaiting task instead of reporting it, whatever deadpool does)
                drop(w);
                for _ in 0..5000 {
                    if s2.lock().unwrap().iter().any(|e| e.0 == "destroy") {
                        break;
                    }
                    async_std::task::sleep(Duration::from_millis(1)).await;
                }
                me
            }));
            let ev = seen.lock().unwrap().clone();
            let ok = ["create", "interact", "destroy"]
                .iter()
                .all(|k| ev.iter().any(|e| e.0 == *k && e.1.starts_with("blocking-") && e.1 != caller));
            let shown: Vec<String> = ev.iter().map(|e| format!("{}@{}", e.0, e.1)).collect();
            std::fs::write(path, format!("asyncstd caller={} events=[{}] ok={}\n", caller, shown.join(","), ok as u8)).unwrap();
        }
        "foreign-check" => {
            // a wrapper created on a multi-threaded tokio runtime, then awaited on a plain OS
            // thread by a hand-rolled executor (no runtime context there): whatever the call ends
            // in - tokio refuses to spawn from such a thread -, the creation and interaction
            // closures must not be run by the thread that awaits
            let path = get("--out").expect("--out");
            let rt = tokio::runtime::Builder::new_multi_thread().worker_threads(2).enable_all().build().unwrap();
            let ran_on: Arc<Mutex<Vec<(String, std::thread::ThreadId)>>> = Arc::default();
            let w = rt
                .block_on(SyncWrapper::new(Runtime::Tokio1, || Ok::<_, ()>(0u32)))
                .map_err(|_| ())
                .expect("create");
            let r2 = ran_on.clone();
            let outcome = std::thread::spawn(move || {
                let me = std::thread::current().id();
                fn drive<F: Future>(f: F) -> Result<F::Output, ()> {
                    let mut f = Box::pin(f);
                    let waker = noop_waker();
                    let mut cx = Context::from_waker(&waker);
                    std::panic::catch_unwind(std::panic::AssertUnwindSafe(|| {
                        for _ in 0..2000 {
                            if let Poll::Ready(v) = f.as_mut().poll(&mut cx) {
                                return Some(v);
                            }
                            std::thread::sleep(Duration::from_millis(1));
                        }
                        None
                    }))
                    .map_err(|_| ())
                    .and_then(|o| o.ok_or(()))
                }
                let r3 = r2.clone();
                let a = drive(w.interact(move |v| {
                    r3.lock().unwrap().push(("interact".into(), std::thread::current().id()));
                    *v += 1;
                }))
                .is_ok();
                let r3 = r2.clone();
                let b = drive(SyncWrapper::new(Runtime::Tokio1, move || {
                    r3.lock().unwrap().push(("create".into(), std::thread::current().id()));
                    Ok::<_, ()>(1u32)
                }))
                .is_ok();
                (me, a, b, w)
            })
            .join();
            let line = match outcome {
                Err(_) => "foreign thread=panicked ok=0".to_string(),
                Ok((me, a, b, w)) => {
                    let on_awaiter: Vec<String> = ran_on.lock().unwrap().iter().filter(|e| e.1 == me).map(|e| e.0.clone()).collect();
                    // the wrapper goes away inside the runtime again
                    rt.block_on(async move { drop(w) });
                    format!(
                        "foreign interact_returned={} create_returned={} closures_run_by_the_awaiting_thread=[{}] ok={}",
                        a as u8,
                        b as u8,
                        on_awaiter.join(","),
                        on_awaiter.is_empty() as u8
                    )
                }
            };
            std::fs::write(path, line + "\n").unwrap();
        }
        "droprace-check" => {
            // real-thread race between the end of a cancelled interaction's closure and the drop
            // of the wrapper: the closure is released just before the wrapper goes away, with a
            // swept delay in between; wherever the closure's end falls, the wrapped value's
            // destructor must run on a thread of the blocking pool, never on the dropping thread
            let path = get("--out").expect("--out");
            let trials: usize = get("--trials").and_then(|v| v.parse().ok()).unwrap_or(30000);
            struct Rec(Arc<Mutex<Option<std::thread::ThreadId>>>);
            impl Drop for Rec {
                fn drop(&mut self) {
                    *self.0.lock().unwrap() = Some(std::thread::current().id());
                }
            }
            let rt = tokio::runtime::Builder::new_multi_thread().worker_threads(2).enable_all().build().unwrap();
            let (mut on_dropper, mut never, mut first) = (0usize, 0usize, None);
            // watchdog (a plain thread: a blocked async thread cannot be trusted to run timers): no
            // step of a trial may hold the awaiting thread; a trial that makes no progress for 10 s
            // ends the scenario with ok=0 instead of waiting for the check's time limit
            let progress = Arc::new(std::sync::atomic::AtomicUsize::new(0));
            {
                let (progress, path) = (progress.clone(), path.clone());
                std::thread::spawn(move || {
                    let mut last = (usize::MAX, Instant::now());
                    loop {
                        std::thread::sleep(Duration::from_millis(250));
                        let now = progress.load(std::sync::atomic::Ordering::SeqCst);
                        if now != last.0 {
                            last = (now, Instant::now());
                        } else if last.1.elapsed() > Duration::from_secs(10) {
                            let _ = std::fs::write(
                                &path,
                                format!("droprace trials={} the awaiting thread was held for 10s inside trial {} (creating, polling, cancelling or dropping blocked it) ok=0\n", now, now),
                            );
                            std::process::exit(0);
                        }
                    }
                });
            }
            let mut done = 0usize;
            rt.block_on(async {
                use std::sync::atomic::{AtomicBool, Ordering::SeqCst};
                let me = std::thread::current().id();
                for t in 0..trials {
                    progress.store(t, SeqCst);
                    if on_dropper + never >= 3 {
                        // settled: every further failing trial may cost its 5 s of patience again
                        break;
                    }
                    done = t + 1;
                    let slot: Arc<Mutex<Option<std::thread::ThreadId>>> = Arc::default();
                    let s2 = slot.clone();
                    let w = match SyncWrapper::new(Runtime::Tokio1, move || Ok::<_, ()>(Rec(s2))).await {
                        Ok(w) => w,
                        Err(_) => {
                            never += 1;
                            continue;
                        }
                    };
                    let (started, release) = (Arc::new(AtomicBool::new(false)), Arc::new(AtomicBool::new(false)));
                    let (st, re) = (started.clone(), release.clone());
                    let mut fut = Box::pin(w.interact(move |_| {
                        st.store(true, SeqCst);
                        while !re.load(SeqCst) {
                            std::hint::spin_loop();
                        }
                    }));
                    std::future::poll_fn(|cx| {
                        let _ = fut.as_mut().poll(cx);
                        Poll::Ready(())
                    })
                    .await;
                    let t0 = Instant::now();
                    while !started.load(SeqCst) && t0.elapsed() < Duration::from_secs(5) {
                        std::thread::yield_now();
                    }
                    drop(fut); // cancelled while its closure runs
                    release.store(true, SeqCst);
                    for _ in 0..(t % 64) * 4 {
                        std::hint::spin_loop();
                    }
                    drop(w);
                    let t0 = Instant::now();
                    let ran_on = loop {
                        if let Some(id) = *slot.lock().unwrap() {
                            break Some(id);
                        }
                        if t0.elapsed() > Duration::from_secs(5) {
                            break None;
                        }
                        std::thread::yield_now();
                    };
                    match ran_on {
                        None => never += 1,
                        Some(id) if id == me => {
                            on_dropper += 1;
                            first.get_or_insert(t);
                        }
                        Some(_) => {}
                    }
                }
            });
            std::fs::write(
                path,
                format!(
                    "droprace trials={} destructor_on_dropping_thread={} never_destroyed={} first={} ok={}\n",
                    done,
                    on_dropper,
                    never,
                    first.map(|t| t.to_string()).unwrap_or("-".into()),
                    (on_dropper == 0 && never == 0) as u8
                ),
            )
            .unwrap();
        }
        "replay" => {
            let inp = std::fs::read_to_string(get("--in").expect("--in")).unwrap();
            let mut out = std::io::BufWriter::new(std::fs::File::create(get("--out").expect("--out")).unwrap());
            for line in inp.lines().filter(|l| l.starts_with("trace sync")) {
                let kv = |k: &str| line.split(' ').find_map(|w| w.strip_prefix(&format!("{k}=")).map(|s| s.to_string()));
                let blocking: usize = kv("blocking").and_then(|v| v.parse().ok()).unwrap_or(2);
                let script: Vec<Op> = kv("script").unwrap_or_default().split(',').filter_map(parse_op).collect();
                let lines = run_script(&script, blocking);
                write_trace(&mut out, "replay", &script, blocking, &lines);
            }
        }
        _ => {
            eprintln!("usage: h-sync gen --seed S --traces N --profile sync|panic|long --out FILE | replay --in FILE --out FILE");
            std::process::exit(2);
        }
    }
}
