//! h-redis: differential harness for the configuration layer of deadpool-redis (C19).
//!
//! `diff --seed S --cases N` prints, per case, the input in the line protocol of the Lean model
//! (`rdin …`) followed by what the real code did (`rdout …`) and optional implementation-only
//! oracle lines (`rdx …`).  Three families of cases:
//!
//! * `cfg`   — `Config::builder()` / `create_pool()` of the standalone, cluster and sentinel
//!             flavours; which servers the built pool talks to is observed on real local TCP
//!             listeners (accept, note the port, hang up).
//! * `conv`  — the `From` impls between deadpool-redis' connection descriptions and the redis
//!             crate's, in both directions.
//! * `serde` — `PoolConfig` / `Timeouts` / `QueueMode` through serde_json (typed source) and
//!             through the `config` crate's environment source (string-typed source).

use std::{
    collections::{BTreeSet, HashMap},
    panic::{catch_unwind, AssertUnwindSafe},
    path::PathBuf,
    sync::{Arc, Mutex},
    time::Duration,
};

use deadpool_redis::redis;
use deadpool_redis::{
    cluster, sentinel, ConnectionAddr, ConnectionInfo, PoolConfig, ProtocolVersion,
    RedisConnectionInfo, Runtime, Timeouts,
};
use deadpool::managed::QueueMode;

struct Rng(u64);
impl Rng {
    fn next(&mut self) -> u64 {
        self.0 = self.0.wrapping_add(0x9E3779B97F4A7C15);
        let mut z = self.0;
        z = (z ^ (z >> 30)).wrapping_mul(0xBF58476D1CE4E5B9);
        z = (z ^ (z >> 27)).wrapping_mul(0x94D049BB133111EB);
        z ^ (z >> 31)
    }
    fn below(&mut self, n: usize) -> usize {
        (self.next() % n.max(1) as u64) as usize
    }
    fn chance(&mut self, p: usize) -> bool {
        self.below(100) < p
    }
    fn pick<'a, T>(&mut self, v: &'a [T]) -> &'a T {
        &v[self.below(v.len())]
    }
}

fn hex(s: &[u8]) -> String {
    if s.is_empty() {
        return "e".into();
    }
    s.iter().map(|b| format!("{:02x}", b)).collect()
}

fn opt_hex(s: Option<&str>) -> String {
    match s {
        None => "-".into(),
        Some(b) => hex(b.as_bytes()),
    }
}

const STRINGS: &[&str] = &[
    "", "a", "user", "p@ss:w/rd", "127.0.0.1", "redis.example.com", "::1", "ünï", "with space",
    "/run/redis.sock", "x\"y", "0",
];

fn gen_string(rng: &mut Rng) -> String {
    if rng.chance(80) {
        (*rng.pick(STRINGS)).to_string()
    } else {
        let n = rng.below(12);
        (0..n).map(|_| (b'a' + rng.below(26) as u8) as char).collect()
    }
}

// ---------------------------------------------------------------------------------------------
// cfg
// ---------------------------------------------------------------------------------------------

const MALFORMED: &[&str] = &[
    "", "http://127.0.0.1", "redis://", "redis://127.0.0.1:notaport", "redis://[::1", "://",
    "redis:/", "unix:", "redis+unix:", "127.0.0.1:6379", "redis://127.0.0.1/notadb",
    "redis://127.0.0.1:99999", "\u{0}", "redis://%zz@127.0.0.1", "rediss//x", "redis://127.0.0.1/0/1",
    "redis://:@:/", "redis://user@", "redis://127.0.0.1:6379/-1x",
];

struct Net {
    rt: tokio::runtime::Runtime,
    ports: Vec<u16>,
    /// 127.0.0.1:6379 could be bound (so that the default server is observable)
    default_ok: bool,
    seen: Arc<Mutex<Vec<u16>>>,
}

impl Net {
    fn new(n: usize) -> Net {
        let rt = tokio::runtime::Builder::new_current_thread().enable_all().build().unwrap();
        let seen = Arc::new(Mutex::new(Vec::new()));
        let mut ports = Vec::new();
        let mut default_ok = false;
        rt.block_on(async {
            for i in 0..=n {
                let addr = if i == n { "127.0.0.1:6379" } else { "127.0.0.1:0" };
                let l = match tokio::net::TcpListener::bind(addr).await {
                    Ok(l) => l,
                    Err(_) if i == n => continue,
                    Err(e) => panic!("cannot bind a local listener: {e}"),
                };
                let port = l.local_addr().unwrap().port();
                if i == n {
                    default_ok = true;
                } else {
                    ports.push(port);
                }
                let seen = seen.clone();
                tokio::spawn(async move {
                    loop {
                        if let Ok((s, _)) = l.accept().await {
                            seen.lock().unwrap().push(port);
                            drop(s);
                        }
                    }
                });
            }
        });
        Net { rt, ports, default_ok, seen }
    }
    /// server id in the protocol: index of the listener, `D` for the default server
    fn id(&self, port: u16) -> String {
        if port == 6379 {
            return "D".into();
        }
        match self.ports.iter().position(|p| *p == port) {
            Some(i) => i.to_string(),
            None => format!("?{port}"),
        }
    }
}

#[derive(Clone)]
enum Url {
    Good { idx: usize, text: String },
    Bad(String),
}

fn gen_url(rng: &mut Rng, net: &Net, same_auth: bool) -> Url {
    if rng.chance(12) {
        use redis::IntoConnectionInfo;
        let text = (*rng.pick(MALFORMED)).to_string();
        // keep it if the redis crate rejects it, or reads it as the (observable) default server
        match text.as_str().into_connection_info() {
            Err(_) => return Url::Bad(text),
            Ok(i) => {
                if let redis::ConnectionAddr::Tcp(h, 6379) = &i.addr {
                    if h == "127.0.0.1" && net.default_ok {
                        return Url::Bad(text);
                    }
                }
            }
        }
    }
    let idx = rng.below(net.ports.len());
    let mut s = String::from("redis://");
    if !same_auth && rng.chance(25) {
        s.push_str(*rng.pick(&["user:pw@", ":pw@", "u@"]));
    }
    s.push_str(&format!("127.0.0.1:{}", net.ports[idx]));
    if rng.chance(30) {
        s.push_str(&format!("/{}", rng.below(16)));
    }
    if rng.chance(15) {
        s.push_str("?protocol=resp3");
    }
    Url::Good { idx, text: s }
}

fn gen_conn(rng: &mut Rng, net: &Net) -> (usize, ConnectionInfo) {
    let idx = rng.below(net.ports.len());
    let info = ConnectionInfo {
        addr: ConnectionAddr::Tcp("127.0.0.1".into(), net.ports[idx]),
        redis: RedisConnectionInfo {
            db: if rng.chance(30) { rng.below(16) as i64 } else { 0 },
            username: None,
            password: None,
            protocol: if rng.chance(20) { ProtocolVersion::RESP3 } else { ProtocolVersion::RESP2 },
        },
    };
    (idx, info)
}

fn url_text(u: &Url) -> &str {
    match u {
        Url::Good { text, .. } => text,
        Url::Bad(t) => t,
    }
}

/// what the url means is the redis crate's business (a parameter of the model): `bad` when it
/// does not parse, else the server it names
fn url_tok(u: &Url, net: &Net) -> String {
    use redis::IntoConnectionInfo;
    match url_text(u).into_connection_info() {
        Err(_) => "bad".into(),
        Ok(info) => match info.addr {
            redis::ConnectionAddr::Tcp(h, p) if h == "127.0.0.1" => {
                let id = net.id(p);
                if let Url::Good { idx, .. } = u {
                    assert_eq!(id, idx.to_string(), "generator and redis crate disagree on a well-formed url");
                }
                id
            }
            _ => "bad".into(),
        },
    }
}

fn list_tok(v: Option<Vec<String>>) -> String {
    match v {
        None => "-".into(),
        Some(v) => format!("[{}]", v.join(",")),
    }
}

enum Built {
    Pool(Box<dyn FnOnce(&Net, bool) -> (String, bool)>),
    ErrBoth,
    ErrRedis,
}

/// after a pool was built: `get()` once and report (max_size, get succeeded)
macro_rules! probe {
    ($pool:expr) => {{
        let p = $pool;
        let d = format!("{:?}", p);
        probe!(p, d)
    }};
    ($pool:expr, $dbg:expr) => {{
        let pool = $pool;
        let dbg: String = $dbg;
        Box::new(move |net: &Net, connect: bool| {
            // what reached the built pool: max_size and the wait timeout have getters, the queue
            // mode shows in the Debug output
            let qm = if dbg.contains("queue_mode: Lifo") { "lifo" } else if dbg.contains("queue_mode: Fifo") { "fifo" } else { "unobserved" };
            let wait = pool.timeouts().wait.map(|d| d.as_millis().to_string()).unwrap_or("-".into());
            let max = format!("max={} qm={qm} wait={wait}", pool.status().max_size);
            let ok = connect && net.rt.block_on(async {
                let r = tokio::time::timeout(Duration::from_secs(5), pool.get()).await;
                // let the listeners note what is still in flight
                tokio::time::sleep(Duration::from_millis(2)).await;
                matches!(r, Ok(Ok(_)))
            });
            (max, ok)
        }) as Box<dyn FnOnce(&Net, bool) -> (String, bool)>
    }};
}

fn cfg_case(rng: &mut Rng, net: &Net) {
    let case_no = rng.below(2);
    let flavour = *rng.pick(&["redis", "cluster", "sentinel"]);
    let multi = flavour != "redis";
    let shape = rng.below(10);
    // (urls?, conns?)
    let (has_u, has_c) = match shape {
        0..=3 => (true, false),
        4..=6 => (false, true),
        7 => (false, false),
        _ => (true, true),
    };
    let count = |rng: &mut Rng| if multi { if rng.chance(6) { 0 } else { 1 + rng.below(3) } } else { 1 };
    let urls: Option<Vec<Url>> = has_u.then(|| {
        let n = count(rng);
        (0..n).map(|_| gen_url(rng, net, flavour == "cluster")).collect()
    });
    let conns: Option<Vec<(usize, ConnectionInfo)>> = has_c.then(|| {
        let n = count(rng);
        (0..n).map(|_| gen_conn(rng, net)).collect()
    });
    let pool_cfg = rng.chance(50).then(|| PoolConfig {
        max_size: 1 + rng.below(40),
        timeouts: Timeouts { wait: rng.chance(40).then(|| Duration::from_millis(1000 + rng.below(9000) as u64)), create: None, recycle: None },
        queue_mode: if rng.chance(50) { QueueMode::Lifo } else { QueueMode::Fifo },
    });
    let dflt = PoolConfig::default().max_size;
    let url_strings: Option<Vec<String>> = urls.as_ref().map(|v| v.iter().map(|u| url_text(u).to_string()).collect());
    let conn_infos: Option<Vec<ConnectionInfo>> = conns.as_ref().map(|v| v.iter().map(|c| c.1.clone()).collect());

    // what the redis crate itself says about each candidate list (a parameter of the model)
    let accept = |list: Vec<redis::RedisResult<redis::ConnectionInfo>>| -> bool {
        let infos: Result<Vec<_>, _> = list.into_iter().collect();
        let Ok(infos) = infos else { return false };
        match flavour {
            "redis" => infos.len() == 1 && redis::Client::open(infos[0].clone()).is_ok(),
            "cluster" => redis::cluster::ClusterClientBuilder::new(infos).build().is_ok(),
            _ => redis::sentinel::SentinelClient::build(
                infos,
                "mymaster".into(),
                None,
                redis::sentinel::SentinelServerType::Master,
            )
            .is_ok(),
        }
    };
    use redis::IntoConnectionInfo;
    let au = url_strings
        .as_ref()
        .map(|v| accept(v.iter().map(|u| u.as_str().into_connection_info()).collect()))
        .unwrap_or(true);
    let ac = conn_infos
        .as_ref()
        .map(|v| accept(v.iter().map(|c| c.clone().into_connection_info()).collect()))
        .unwrap_or(true);

    println!(
        "rdin cfg {flavour} u={} c={} au={} ac={} obs={} pool={} qm={} qmobs={} wait={} dflt={dflt}",
        list_tok(urls.as_ref().map(|v| v.iter().map(|u| url_tok(u, net)).collect())),
        list_tok(conns.as_ref().map(|v| v.iter().map(|c| c.0.to_string()).collect())),
        au as u8,
        ac as u8,
        net.default_ok as u8,
        pool_cfg.map(|p| p.max_size.to_string()).unwrap_or("-".into()),
        pool_cfg.map(|p| mode_tok(p.queue_mode)).unwrap_or("-"),
        (flavour != "cluster") as u8,
        pool_cfg.and_then(|p| p.timeouts.wait).map(|d| d.as_millis().to_string()).unwrap_or("-".into()),
    );

    let built = catch_unwind(AssertUnwindSafe(|| -> Built {
        match flavour {
            "redis" => {
                // the convenience constructors are other routes to the same configuration
                let via_ctor = case_no % 2 == 0;
                let cfg = match (&url_strings, &conn_infos) {
                    (Some(u), None) if via_ctor => {
                        let mut c = deadpool_redis::Config::from_url(u[0].clone());
                        c.pool = pool_cfg;
                        c
                    }
                    (None, Some(ci)) if via_ctor => {
                        let mut c = deadpool_redis::Config::from_connection_info(ci[0].clone());
                        c.pool = pool_cfg;
                        c
                    }
                    _ => deadpool_redis::Config {
                        url: url_strings.as_ref().map(|v| v[0].clone()),
                        connection: conn_infos.as_ref().map(|v| v[0].clone()),
                        pool: pool_cfg,
                    },
                };
                match cfg.create_pool(Some(Runtime::Tokio1)) {
                    Ok(p) => Built::Pool(probe!(p)),
                    Err(deadpool_redis::CreatePoolError::Config(
                        deadpool_redis::ConfigError::UrlAndConnectionSpecified,
                    )) => Built::ErrBoth,
                    Err(_) => Built::ErrRedis,
                }
            }
            "cluster" => {
                let cfg = match (&url_strings, &conn_infos) {
                    (Some(u), None) if case_no % 2 == 0 => {
                        let mut c = cluster::Config::from_urls(u.clone());
                        c.pool = pool_cfg;
                        c
                    }
                    _ => cluster::Config {
                        urls: url_strings.clone(),
                        connections: conn_infos.clone(),
                        pool: pool_cfg,
                        read_from_replicas: false,
                    },
                };
                match cfg.create_pool(Some(Runtime::Tokio1)) {
                    // the cluster pool has no Debug impl (its connection type has none)
                    Ok(p) => Built::Pool(probe!(p, String::new())),
                    Err(cluster::CreatePoolError::Config(cluster::ConfigError::UrlAndConnectionSpecified)) => {
                        Built::ErrBoth
                    }
                    Err(_) => Built::ErrRedis,
                }
            }
            _ => {
                let cfg = match (&url_strings, &conn_infos) {
                    (Some(u), None) if case_no % 2 == 0 => {
                        let mut c = sentinel::Config::from_urls(
                            u.clone(),
                            "mymaster".to_string(),
                            sentinel::SentinelServerType::Master,
                        );
                        c.pool = pool_cfg;
                        c
                    }
                    _ => sentinel::Config {
                        urls: url_strings.clone(),
                        connections: conn_infos.clone(),
                        server_type: sentinel::SentinelServerType::Master,
                        master_name: "mymaster".into(),
                        pool: pool_cfg,
                        node_connection_info: None,
                    },
                };
                match cfg.create_pool(Some(Runtime::Tokio1)) {
                    Ok(p) => Built::Pool(probe!(p)),
                    Err(sentinel::CreatePoolError::Config(sentinel::ConfigError::UrlAndConnectionSpecified)) => {
                        Built::ErrBoth
                    }
                    Err(_) => Built::ErrRedis,
                }
            }
        }
    }));
    match built {
        Err(_) => println!("rdout panic"),
        Ok(Built::ErrBoth) => println!("rdout err both"),
        Ok(Built::ErrRedis) => println!("rdout err redis"),
        Ok(Built::Pool(probe)) => {
            net.seen.lock().unwrap().clear();
            // when 127.0.0.1:6379 belongs to someone else (another harness process or a real
            // server) do not talk to it
            let (max, got) = probe(net, net.default_ok || has_u || has_c);
            let seen: BTreeSet<String> = net.seen.lock().unwrap().iter().map(|p| net.id(*p)).collect();
            let servers = if !net.default_ok && !has_u && !has_c {
                "unobserved".to_string()
            } else {
                format!("[{}]", seen.into_iter().collect::<Vec<_>>().join(","))
            };
            println!("rdout ok servers={servers} {max}");
            if got {
                println!("rdx get-succeeded");
            }
        }
    }
}

// ---------------------------------------------------------------------------------------------
// node: a sentinel Config's `node_connection_info` must reach the connections to the monitored
// server on every route of `builder()` (a fake sentinel and a fake master record what they get)
// ---------------------------------------------------------------------------------------------

pub mod fake_sentinel {
    use std::{
        io::{Read, Write},
        net::{TcpListener, TcpStream},
        sync::{Arc, Mutex, OnceLock},
        thread,
    };

    pub type Log = Arc<Mutex<Vec<Vec<String>>>>;

    fn parse_command(buf: &[u8]) -> Option<(Vec<String>, usize)> {
        fn line(buf: &[u8], pos: usize) -> Option<(&[u8], usize)> {
            let rest = &buf[pos..];
            let end = rest.windows(2).position(|w| w == b"\r\n")?;
            Some((&rest[..end], pos + end + 2))
        }
        let (head, mut pos) = line(buf, 0)?;
        if head.first() != Some(&b'*') {
            return None;
        }
        let n: usize = std::str::from_utf8(&head[1..]).ok()?.parse().ok()?;
        let mut args = Vec::with_capacity(n);
        for _ in 0..n {
            let (len_line, p) = line(buf, pos)?;
            let len: usize = std::str::from_utf8(len_line.get(1..)?).ok()?.parse().ok()?;
            if buf.len() < p + len + 2 {
                return None;
            }
            args.push(String::from_utf8_lossy(&buf[p..p + len]).into_owned());
            pos = p + len + 2;
        }
        Some((args, pos))
    }

    fn bulk(s: &str) -> String {
        format!("${}\r\n{}\r\n", s.len(), s)
    }

    fn reply(cmd: &[String], master_port: u16) -> String {
        let upper: Vec<String> = cmd.iter().map(|s| s.to_ascii_uppercase()).collect();
        match upper.iter().map(String::as_str).collect::<Vec<_>>().as_slice() {
            ["SENTINEL", "MASTERS"] => {
                let port = master_port.to_string();
                let fields = ["name", "mymaster", "ip", "127.0.0.1", "port", &port, "flags", "master"];
                let mut out = format!("*1\r\n*{}\r\n", fields.len());
                for f in fields {
                    out.push_str(&bulk(f));
                }
                out
            }
            ["ROLE"] => format!("*3\r\n{}:0\r\n*0\r\n", bulk("master")),
            ["PING", _] => bulk(&cmd[1]),
            ["PING"] => "+PONG\r\n".to_string(),
            _ => "+OK\r\n".to_string(),
        }
    }

    fn serve(mut stream: TcpStream, log: Log, master_port: u16) {
        let mut buf = Vec::new();
        let mut chunk = [0u8; 4096];
        loop {
            while let Some((cmd, used)) = parse_command(&buf) {
                buf.drain(..used);
                let out = reply(&cmd, master_port);
                log.lock().unwrap().push(cmd);
                if stream.write_all(out.as_bytes()).is_err() {
                    return;
                }
            }
            match stream.read(&mut chunk) {
                Ok(0) | Err(_) => return,
                Ok(n) => buf.extend_from_slice(&chunk[..n]),
            }
        }
    }

    fn fake_server(master_port: Option<u16>) -> (u16, Log) {
        let listener = TcpListener::bind("127.0.0.1:0").unwrap();
        let port = listener.local_addr().unwrap().port();
        let log: Log = Arc::default();
        let log2 = log.clone();
        thread::spawn(move || {
            for stream in listener.incoming().flatten() {
                let log = log2.clone();
                thread::spawn(move || serve(stream, log, master_port.unwrap_or(port)));
            }
        });
        (port, log)
    }

    pub struct Pair {
        pub sentinel_port: u16,
        pub sentinel_log: Log,
        pub master_log: Log,
    }

    /// one fake sentinel and one fake master per process
    pub fn pair() -> &'static Pair {
        static P: OnceLock<Pair> = OnceLock::new();
        P.get_or_init(|| {
            let (master_port, master_log) = fake_server(None);
            let (sentinel_port, sentinel_log) = fake_server(Some(master_port));
            Pair { sentinel_port, sentinel_log, master_log }
        })
    }
}

fn node_case(rng: &mut Rng, net: &Net) {
    let pair = fake_sentinel::pair();
    // u: `from_urls(..).with_node_connection_info(..)`, s: struct literal naming urls,
    // c: struct literal naming connection structures
    let arm = *rng.pick(&["u", "s", "c"]);
    let present = rng.chance(85);
    let db = if rng.chance(30) { 0 } else { 1 + rng.below(9) as i64 };
    let pass = rng.chance(70).then(|| (*rng.pick(&["p1", "s3cret", "x"])).to_string());
    let user = (pass.is_some() && rng.chance(60)).then(|| (*rng.pick(&["u1", "node-user"])).to_string());
    let with_info = rng.chance(90);
    let node = present.then(|| sentinel::SentinelNodeConnectionInfo {
        tls_mode: None,
        redis_connection_info: with_info.then(|| RedisConnectionInfo {
            db,
            username: user.clone(),
            password: pass.clone(),
            protocol: ProtocolVersion::RESP2,
        }),
    });
    let eff = present && with_info;
    println!(
        "rdin node {arm} {} {} {} {}",
        eff as u8,
        if eff { db } else { 0 },
        if eff { user.clone().unwrap_or("-".into()) } else { "-".into() },
        if eff { pass.clone().unwrap_or("-".into()) } else { "-".into() },
    );
    let url = format!("redis://127.0.0.1:{}", pair.sentinel_port);
    let cfg = match arm {
        "u" => sentinel::Config::from_urls(vec![url], "mymaster".to_string(), sentinel::SentinelServerType::Master)
            .with_node_connection_info(node),
        "s" => sentinel::Config {
            urls: Some(vec![url]),
            connections: None,
            server_type: sentinel::SentinelServerType::Master,
            master_name: "mymaster".into(),
            pool: None,
            node_connection_info: node,
        },
        _ => sentinel::Config {
            urls: None,
            connections: Some(vec![ConnectionInfo {
                addr: ConnectionAddr::Tcp("127.0.0.1".into(), pair.sentinel_port),
                redis: RedisConnectionInfo::default(),
            }]),
            server_type: sentinel::SentinelServerType::Master,
            master_name: "mymaster".into(),
            pool: None,
            node_connection_info: node,
        },
    };
    pair.sentinel_log.lock().unwrap().clear();
    pair.master_log.lock().unwrap().clear();
    let got = catch_unwind(AssertUnwindSafe(|| match cfg.create_pool(Some(Runtime::Tokio1)) {
        Err(_) => "create-error",
        Ok(pool) => net.rt.block_on(async {
            match tokio::time::timeout(Duration::from_secs(10), pool.get()).await {
                Ok(Ok(_)) => "ok",
                Ok(Err(_)) => "get-error",
                Err(_) => "get-hang",
            }
        }),
    }));
    let master = pair.master_log.lock().unwrap().clone();
    let sentinel_seen = pair.sentinel_log.lock().unwrap().clone();
    let auth = master
        .iter()
        .find(|c| c[0].eq_ignore_ascii_case("AUTH"))
        .map(|c| match c.len() {
            2 => format!("-:{}", c[1]),
            3 => format!("{}:{}", c[1], c[2]),
            _ => "?".into(),
        })
        .unwrap_or("-".into());
    let sel = master.iter().find(|c| c[0].eq_ignore_ascii_case("SELECT")).and_then(|c| c.get(1).cloned()).unwrap_or("0".into());
    let dirty = sentinel_seen.iter().any(|c| c[0].eq_ignore_ascii_case("AUTH") || c[0].eq_ignore_ascii_case("SELECT"));
    let asked = sentinel_seen.iter().any(|c| c[0].eq_ignore_ascii_case("SENTINEL"));
    match got {
        Err(_) => println!("rdout panic"),
        Ok("ok") => println!(
            "rdout node auth={auth} db={sel} sentinel={}",
            if dirty { "got-node-credentials" } else if asked { "asked" } else { "not-asked" }
        ),
        Ok(e) => println!("rdout node {e}"),
    }
}

// ---------------------------------------------------------------------------------------------
// conv
// ---------------------------------------------------------------------------------------------

fn gen_addr(rng: &mut Rng) -> ConnectionAddr {
    let port = match rng.below(5) {
        0 => 0,
        1 => 65535,
        2 => 6379,
        _ => rng.below(65536) as u16,
    };
    match rng.below(3) {
        0 => ConnectionAddr::Tcp(gen_string(rng), port),
        1 => ConnectionAddr::TcpTls { host: gen_string(rng), port, insecure: rng.chance(50) },
        _ => ConnectionAddr::Unix(PathBuf::from(gen_string(rng))),
    }
}

fn gen_rinfo(rng: &mut Rng) -> RedisConnectionInfo {
    RedisConnectionInfo {
        db: match rng.below(6) {
            0 => 0,
            1 => i64::MAX,
            2 => i64::MIN,
            3 => -1,
            _ => rng.below(32) as i64,
        },
        username: rng.chance(50).then(|| gen_string(rng)),
        password: rng.chance(50).then(|| gen_string(rng)),
        protocol: if rng.chance(50) { ProtocolVersion::RESP3 } else { ProtocolVersion::RESP2 },
    }
}

fn addr_tok(a: &ConnectionAddr) -> String {
    match a {
        ConnectionAddr::Tcp(h, p) => format!("tcp:{}:{p}", hex(h.as_bytes())),
        ConnectionAddr::TcpTls { host, port, insecure } => {
            format!("tls:{}:{port}:{}", hex(host.as_bytes()), *insecure as u8)
        }
        ConnectionAddr::Unix(p) => format!("unix:{}", hex(p.to_string_lossy().as_bytes())),
    }
}

fn raddr_tok(a: &redis::ConnectionAddr) -> String {
    match a {
        redis::ConnectionAddr::Tcp(h, p) => format!("tcp:{}:{p}", hex(h.as_bytes())),
        redis::ConnectionAddr::TcpTls { host, port, insecure, tls_params } => {
            format!("tls:{}:{port}:{}:{}", hex(host.as_bytes()), *insecure as u8, tls_params.is_some() as u8)
        }
        redis::ConnectionAddr::Unix(p) => format!("unix:{}", hex(p.to_string_lossy().as_bytes())),
    }
}

fn rinfo_tok(r: &RedisConnectionInfo) -> String {
    format!(
        "{}:{}:{}:{}",
        r.db,
        opt_hex(r.username.as_deref()),
        opt_hex(r.password.as_deref()),
        match r.protocol {
            ProtocolVersion::RESP2 => "resp2",
            ProtocolVersion::RESP3 => "resp3",
        }
    )
}

fn rrinfo_tok(r: &redis::RedisConnectionInfo) -> String {
    format!(
        "{}:{}:{}:{}",
        r.db,
        opt_hex(r.username.as_deref()),
        opt_hex(r.password.as_deref()),
        match r.protocol {
            redis::ProtocolVersion::RESP2 => "resp2",
            redis::ProtocolVersion::RESP3 => "resp3",
        }
    )
}

fn tls_tok(t: Option<sentinel::TlsMode>) -> &'static str {
    match t {
        None => "-",
        Some(sentinel::TlsMode::Secure) => "secure",
        Some(sentinel::TlsMode::Insecure) => "insecure",
    }
}
fn rtls_tok(t: Option<redis::TlsMode>) -> &'static str {
    match t {
        None => "-",
        Some(redis::TlsMode::Secure) => "secure",
        Some(redis::TlsMode::Insecure) => "insecure",
    }
}

fn conv_case(rng: &mut Rng) {
    match rng.below(10) {
        0..=3 => {
            // ours -> redis -> ours
            let info = ConnectionInfo { addr: gen_addr(rng), redis: gen_rinfo(rng) };
            println!("rdin conv info {} {}", addr_tok(&info.addr), rinfo_tok(&info.redis));
            let r = catch_unwind(AssertUnwindSafe(|| {
                let there: redis::ConnectionInfo = info.clone().into();
                let back: ConnectionInfo = there.clone().into();
                format!(
                    "rdout conv there={} {} back={} {}",
                    raddr_tok(&there.addr),
                    rrinfo_tok(&there.redis),
                    addr_tok(&back.addr),
                    rinfo_tok(&back.redis)
                )
            }));
            println!("{}", r.unwrap_or("rdout panic".into()));
            // IntoConnectionInfo must agree with From
            use redis::IntoConnectionInfo;
            let via = info.clone().into_connection_info().map(|i| format!("{} {}", raddr_tok(&i.addr), rrinfo_tok(&i.redis)));
            let direct: redis::ConnectionInfo = info.into();
            let same = via.as_ref().ok() == Some(&format!("{} {}", raddr_tok(&direct.addr), rrinfo_tok(&direct.redis)));
            println!("rdx into_connection_info {}", if same { "same" } else { "DIFFERS" });
        }
        4..=6 => {
            // redis -> ours -> redis  (tls_params cannot be Some without the redis crate's TLS feature)
            let ours = ConnectionInfo { addr: gen_addr(rng), redis: gen_rinfo(rng) };
            let start: redis::ConnectionInfo = redis::ConnectionInfo {
                addr: match &ours.addr {
                    ConnectionAddr::Tcp(h, p) => redis::ConnectionAddr::Tcp(h.clone(), *p),
                    ConnectionAddr::TcpTls { host, port, insecure } => redis::ConnectionAddr::TcpTls {
                        host: host.clone(),
                        port: *port,
                        insecure: *insecure,
                        tls_params: None,
                    },
                    ConnectionAddr::Unix(p) => redis::ConnectionAddr::Unix(p.clone()),
                },
                redis: redis::RedisConnectionInfo {
                    db: ours.redis.db,
                    username: ours.redis.username.clone(),
                    password: ours.redis.password.clone(),
                    protocol: match ours.redis.protocol {
                        ProtocolVersion::RESP2 => redis::ProtocolVersion::RESP2,
                        ProtocolVersion::RESP3 => redis::ProtocolVersion::RESP3,
                    },
                },
            };
            println!("rdin conv rinfo {} {}", raddr_tok(&start.addr), rrinfo_tok(&start.redis));
            let r = catch_unwind(AssertUnwindSafe(|| {
                let there: ConnectionInfo = start.clone().into();
                let back: redis::ConnectionInfo = there.clone().into();
                format!(
                    "rdout conv there={} {} back={} {}",
                    addr_tok(&there.addr),
                    rinfo_tok(&there.redis),
                    raddr_tok(&back.addr),
                    rrinfo_tok(&back.redis)
                )
            }));
            println!("{}", r.unwrap_or("rdout panic".into()));
        }
        7..=8 => {
            let node = sentinel::SentinelNodeConnectionInfo {
                tls_mode: match rng.below(3) {
                    0 => None,
                    1 => Some(sentinel::TlsMode::Secure),
                    _ => Some(sentinel::TlsMode::Insecure),
                },
                redis_connection_info: rng.chance(60).then(|| gen_rinfo(rng)),
            };
            println!(
                "rdin conv node {} {}",
                tls_tok(node.tls_mode),
                node.redis_connection_info.as_ref().map(rinfo_tok).unwrap_or("-".into())
            );
            let r = catch_unwind(AssertUnwindSafe(|| {
                let there: redis::sentinel::SentinelNodeConnectionInfo = node.clone().into();
                let t = format!(
                    "{} {}",
                    rtls_tok(there.tls_mode),
                    there.redis_connection_info.as_ref().map(rrinfo_tok).unwrap_or("-".into())
                );
                let back: sentinel::SentinelNodeConnectionInfo = there.into();
                format!(
                    "rdout conv there={t} back={} {}",
                    tls_tok(back.tls_mode),
                    back.redis_connection_info.as_ref().map(rinfo_tok).unwrap_or("-".into())
                )
            }));
            println!("{}", r.unwrap_or("rdout panic".into()));
        }
        _ => {
            let st = if rng.chance(50) { sentinel::SentinelServerType::Master } else { sentinel::SentinelServerType::Replica };
            let tok = |s: sentinel::SentinelServerType| match s {
                sentinel::SentinelServerType::Master => "master",
                sentinel::SentinelServerType::Replica => "replica",
            };
            println!("rdin conv stype {}", tok(st));
            let there: redis::sentinel::SentinelServerType = st.into();
            let t = match there {
                redis::sentinel::SentinelServerType::Master => "master",
                redis::sentinel::SentinelServerType::Replica => "replica",
            };
            let back: sentinel::SentinelServerType = there.into();
            println!("rdout conv there={t} back={}", tok(back));
        }
    }
}

// ---------------------------------------------------------------------------------------------
// serde
// ---------------------------------------------------------------------------------------------

fn gen_dur(rng: &mut Rng) -> Option<Duration> {
    if rng.chance(40) {
        return None;
    }
    let secs = match rng.below(6) {
        0 => 0,
        1 => u64::MAX,
        2 => u32::MAX as u64 + 1,
        _ => rng.next() % 100_000,
    };
    let nanos = match rng.below(5) {
        0 => 0,
        1 => 999_999_999,
        _ => (rng.next() % 1_000_000_000) as u32,
    };
    Some(Duration::new(secs, nanos))
}

fn dur_tok(d: Option<Duration>) -> String {
    match d {
        None => "-".into(),
        Some(d) => format!("{}.{}", d.as_secs(), d.subsec_nanos()),
    }
}

fn mode_tok(m: QueueMode) -> &'static str {
    match m {
        QueueMode::Fifo => "fifo",
        QueueMode::Lifo => "lifo",
    }
}

fn pc_tok(p: &PoolConfig) -> String {
    format!(
        "{} {} {} {} {}",
        p.max_size,
        dur_tok(p.timeouts.wait),
        dur_tok(p.timeouts.create),
        dur_tok(p.timeouts.recycle),
        mode_tok(p.queue_mode)
    )
}

fn gen_pc(rng: &mut Rng) -> PoolConfig {
    PoolConfig {
        max_size: match rng.below(5) {
            0 => 0,
            1 => usize::MAX,
            _ => rng.below(1000),
        },
        timeouts: Timeouts { wait: gen_dur(rng), create: gen_dur(rng), recycle: gen_dur(rng) },
        queue_mode: if rng.chance(50) { QueueMode::Lifo } else { QueueMode::Fifo },
    }
}

/// a document tree in the protocol's prefix syntax: `N` null, `n<digits>`, `s<hex>`, `{ k v … }`
#[derive(Clone)]
enum Doc {
    Null,
    Num(u64),
    Str(String),
    Obj(Vec<(String, Doc)>),
}

impl Doc {
    fn tok(&self) -> String {
        match self {
            Doc::Null => "N".into(),
            Doc::Num(n) => format!("n{n}"),
            Doc::Str(s) => format!("s{}", hex(s.as_bytes())),
            Doc::Obj(f) => {
                let mut s = String::from("{");
                for (k, v) in f {
                    s.push_str(&format!(" {k} {}", v.tok()));
                }
                s.push_str(" }");
                s
            }
        }
    }
    fn json(&self) -> serde_json::Value {
        match self {
            Doc::Null => serde_json::Value::Null,
            Doc::Num(n) => serde_json::Value::from(*n),
            Doc::Str(s) => serde_json::Value::from(s.clone()),
            Doc::Obj(f) => serde_json::Value::Object(f.iter().map(|(k, v)| (k.clone(), v.json())).collect()),
        }
    }
    /// an environment cannot express an empty section: drop them (bottom-up)
    fn prune(self) -> Doc {
        match self {
            Doc::Obj(f) => Doc::Obj(
                f.into_iter()
                    .map(|(k, v)| (k, v.prune()))
                    .filter(|(_, v)| !matches!(v, Doc::Obj(g) if g.is_empty()))
                    .collect(),
            ),
            d => d,
        }
    }
    /// flatten into environment-style `A__B__C=value` pairs (string-typed source)
    fn env(&self, prefix: &str, out: &mut HashMap<String, String>) {
        match self {
            Doc::Null => {}
            Doc::Num(n) => {
                out.insert(prefix.to_string(), n.to_string());
            }
            Doc::Str(s) => {
                out.insert(prefix.to_string(), s.clone());
            }
            Doc::Obj(f) => {
                for (k, v) in f {
                    let p = if prefix.is_empty() { k.to_uppercase() } else { format!("{prefix}__{}", k.to_uppercase()) };
                    v.env(&p, out);
                }
            }
        }
    }
}

fn gen_doc_dur(rng: &mut Rng, stringly: bool) -> Doc {
    let num = |rng: &mut Rng, n: u64| if stringly { Doc::Str(n.to_string()) } else { let _ = rng; Doc::Num(n) };
    let secs = match rng.below(4) {
        0 => 0,
        1 => u64::MAX,
        _ => rng.next() % 100_000,
    };
    let nanos = match rng.below(4) {
        0 => 0,
        1 => 999_999_999,
        _ => rng.next() % 1_000_000_000,
    };
    let mut f = Vec::new();
    if !rng.chance(7) {
        f.push(("secs".to_string(), num(rng, secs)));
    }
    if !rng.chance(7) {
        f.push(("nanos".to_string(), num(rng, nanos)));
    }
    Doc::Obj(f)
}

fn gen_doc(rng: &mut Rng, stringly: bool) -> Doc {
    let mut f = Vec::new();
    if !rng.chance(8) {
        let n = match rng.below(5) {
            0 => 0,
            1 => usize::MAX as u64,
            _ => rng.below(1000) as u64,
        };
        f.push((
            "max_size".to_string(),
            if stringly {
                Doc::Str(n.to_string())
            } else if rng.chance(5) {
                Doc::Str("notanumber".into())
            } else {
                Doc::Num(n)
            },
        ));
    }
    if rng.chance(60) {
        let mut t = Vec::new();
        for k in ["wait", "create", "recycle"] {
            match rng.below(4) {
                0 => {}
                1 if !stringly => t.push((k.to_string(), Doc::Null)),
                _ => t.push((k.to_string(), gen_doc_dur(rng, stringly))),
            }
        }
        // an empty section cannot be expressed in an environment
        if !(stringly && t.is_empty()) {
            f.push(("timeouts".to_string(), Doc::Obj(t)));
        }
    }
    if rng.chance(50) {
        f.push((
            "queue_mode".to_string(),
            Doc::Str((*rng.pick(&["Fifo", "Lifo", "Fifo", "Lifo", "Random"])).to_string()),
        ));
    }
    if rng.chance(10) {
        f.push(("unknown_key".to_string(), Doc::Str("x".into())));
    }
    Doc::Obj(f)
}

/// a whole `Config` of one of the three flavours read from a JSON document that carries only
/// some of its keys: nothing may be conjured (an absent `url(s)` / `connection(s)` / `pool` stays
/// absent - `builder()` then decides on what the document named), every other omitted key takes
/// its documented default
fn partial_case(rng: &mut Rng) {
    let fl = *rng.pick(&["redis", "cluster", "sentinel"]);
    let u = rng.chance(45);
    let c = rng.chance(30);
    let pool = rng.chance(40).then(|| 1 + rng.below(30));
    let flag = (fl != "redis" && rng.chance(40)).then(|| rng.chance(50));
    let name = (fl == "sentinel" && rng.chance(40)).then(|| (*rng.pick(&["other", "mymaster", "m2"])).to_string());
    println!(
        "rdin serde partial {fl} {} {} {} {} {}",
        u as u8,
        c as u8,
        pool.map(|p| p.to_string()).unwrap_or("-".into()),
        flag.map(|b| (b as u8).to_string()).unwrap_or("-".into()),
        name.clone().unwrap_or("-".into()),
    );
    let r = catch_unwind(AssertUnwindSafe(|| -> String {
        let mut doc = serde_json::Map::new();
        let url = "redis://127.0.0.1:7000".to_string();
        let info = ConnectionInfo { addr: ConnectionAddr::Tcp("127.0.0.1".into(), 7001), redis: RedisConnectionInfo::default() };
        let single = fl == "redis";
        if u {
            doc.insert(if single { "url" } else { "urls" }.into(), if single { serde_json::json!(url) } else { serde_json::json!([url]) });
        }
        if c {
            let v = serde_json::to_value(&info).unwrap();
            doc.insert(if single { "connection" } else { "connections" }.into(), if single { v } else { serde_json::Value::Array(vec![v]) });
        }
        if let Some(p) = pool {
            doc.insert("pool".into(), serde_json::json!({ "max_size": p }));
        }
        if let Some(b) = flag {
            if fl == "cluster" {
                doc.insert("read_from_replicas".into(), serde_json::json!(b));
            } else {
                let st = if b { sentinel::SentinelServerType::Replica } else { sentinel::SentinelServerType::Master };
                doc.insert("server_type".into(), serde_json::to_value(st).unwrap());
            }
        }
        if let Some(n) = &name {
            doc.insert("master_name".into(), serde_json::json!(n));
        }
        let doc = serde_json::Value::Object(doc);
        let b = |x: bool| if x { "1" } else { "0" };
        let show = |hu: bool, hc: bool, pl: Option<usize>, x1: String, x2: String, built: Result<(), bool>| {
            let build = match built {
                Err(true) => "both",
                Err(false) => "err",
                Ok(()) => match (hu, hc) {
                    (true, false) => "urls",
                    (false, true) => "conns",
                    (false, false) => "default",
                    (true, true) => "ok-with-both",
                },
            };
            format!(
                "rdout serde partial u={} c={} pool={} flag={x1} name={x2} build={build}",
                b(hu),
                b(hc),
                pl.map(|p| p.to_string()).unwrap_or("-".into())
            )
        };
        match fl {
            "redis" => match serde_json::from_value::<deadpool_redis::Config>(doc) {
                Err(_) => "rdout serde partial error".into(),
                Ok(cfg) => {
                    let built = match cfg.builder() {
                        Ok(_) => Ok(()),
                        Err(deadpool_redis::ConfigError::UrlAndConnectionSpecified) => Err(true),
                        Err(_) => Err(false),
                    };
                    show(cfg.url.is_some(), cfg.connection.is_some(), cfg.pool.map(|p| p.max_size), "-".into(), "-".into(), built)
                }
            },
            "cluster" => match serde_json::from_value::<cluster::Config>(doc) {
                Err(_) => "rdout serde partial error".into(),
                Ok(cfg) => {
                    let built = match cfg.builder() {
                        Ok(_) => Ok(()),
                        Err(cluster::ConfigError::UrlAndConnectionSpecified) => Err(true),
                        Err(_) => Err(false),
                    };
                    show(cfg.urls.is_some(), cfg.connections.is_some(), cfg.pool.map(|p| p.max_size), b(cfg.read_from_replicas).into(), "-".into(), built)
                }
            },
            _ => match serde_json::from_value::<sentinel::Config>(doc) {
                Err(_) => "rdout serde partial error".into(),
                Ok(cfg) => {
                    let built = match cfg.builder() {
                        Ok(_) => Ok(()),
                        Err(sentinel::ConfigError::UrlAndConnectionSpecified) => Err(true),
                        Err(_) => Err(false),
                    };
                    let replica = matches!(cfg.server_type, sentinel::SentinelServerType::Replica);
                    show(cfg.urls.is_some(), cfg.connections.is_some(), cfg.pool.map(|p| p.max_size), b(replica).into(), cfg.master_name.clone(), built)
                }
            },
        }
    }));
    println!("{}", r.unwrap_or("rdout panic".into()));
}

fn serde_case(rng: &mut Rng) {
    if rng.chance(12) {
        return partial_case(rng);
    }
    match rng.below(10) {
        0..=3 => {
            let pc = gen_pc(rng);
            println!("rdin serde pc {}", pc_tok(&pc));
            let r = catch_unwind(AssertUnwindSafe(|| {
                let json = serde_json::to_string(&pc).map_err(|e| e.to_string());
                match json {
                    Err(_) => "rdout serde encode-error".to_string(),
                    Ok(j) => match serde_json::from_str::<PoolConfig>(&j) {
                        Ok(b) => format!("rdout serde json={} back={}", hex(j.as_bytes()), pc_tok(&b)),
                        Err(_) => format!("rdout serde json={} back=error", hex(j.as_bytes())),
                    },
                }
            }));
            println!("{}", r.unwrap_or("rdout panic".into()));
            // Timeouts and QueueMode on their own
            let t2: Result<Timeouts, _> = serde_json::from_str(&serde_json::to_string(&pc.timeouts).unwrap());
            let q2: Result<QueueMode, _> = serde_json::from_str(&serde_json::to_string(&pc.queue_mode).unwrap());
            let same = matches!((&t2, &q2), (Ok(t), Ok(q)) if t.wait == pc.timeouts.wait && t.create == pc.timeouts.create
                && t.recycle == pc.timeouts.recycle && mode_tok(*q) == mode_tok(pc.queue_mode));
            println!("rdx parts {}", if same { "same" } else { "DIFFER" });
        }
        4..=6 => {
            let doc = gen_doc(rng, false);
            println!("rdin serde doc 0 {}", doc.tok());
            let r = catch_unwind(AssertUnwindSafe(|| match serde_json::from_value::<PoolConfig>(doc.json()) {
                Ok(b) => format!("rdout serde back={}", pc_tok(&b)),
                Err(_) => "rdout serde back=error".to_string(),
            }));
            println!("{}", r.unwrap_or("rdout panic".into()));
        }
        7..=8 => {
            let doc = gen_doc(rng, true).prune();
            println!("rdin serde doc 1 {}", doc.tok());
            let mut env = HashMap::new();
            doc.env("", &mut env);
            let r = catch_unwind(AssertUnwindSafe(|| {
                let c = config::Config::builder()
                    .add_source(config::Environment::default().separator("__").source(Some(env.clone())))
                    .build();
                match c.and_then(|c| c.try_deserialize::<PoolConfig>()) {
                    Ok(b) => format!("rdout serde back={}", pc_tok(&b)),
                    Err(_) => "rdout serde back=error".to_string(),
                }
            }));
            println!("{}", r.unwrap_or("rdout panic".into()));
        }
        _ => {
            // whole Config values of the three flavours: implementation-only round trip oracle
            let info = ConnectionInfo { addr: gen_addr(rng), redis: gen_rinfo(rng) };
            let pc = rng.chance(60).then(|| gen_pc(rng));
            let url = rng.chance(50).then(|| gen_string(rng));
            let flavour = rng.below(3);
            println!("rdin serde whole {flavour}");
            let show_info = |i: &ConnectionInfo| format!("{} {}", addr_tok(&i.addr), rinfo_tok(&i.redis));
            let show_pool = |p: &Option<PoolConfig>| p.as_ref().map(pc_tok).unwrap_or("-".into());
            let (before, after) = match flavour {
                0 => {
                    let c = deadpool_redis::Config { url: url.clone(), connection: rng.chance(60).then(|| info.clone()), pool: pc };
                    let show = |c: &deadpool_redis::Config| {
                        format!("{:?} {} {}", c.url, c.connection.as_ref().map(show_info).unwrap_or("-".into()), show_pool(&c.pool))
                    };
                    let j = serde_json::to_string(&c).unwrap();
                    (show(&c), serde_json::from_str::<deadpool_redis::Config>(&j).map(|c| show(&c)).unwrap_or("error".into()))
                }
                1 => {
                    let c = cluster::Config {
                        urls: url.clone().map(|u| vec![u, "second".into()]),
                        connections: rng.chance(60).then(|| vec![info.clone(), ConnectionInfo::default()]),
                        pool: pc,
                        read_from_replicas: rng.chance(50),
                    };
                    let show = |c: &cluster::Config| {
                        format!(
                            "{:?} {:?} {} {}",
                            c.urls,
                            c.connections.as_ref().map(|v| v.iter().map(show_info).collect::<Vec<_>>()),
                            show_pool(&c.pool),
                            c.read_from_replicas
                        )
                    };
                    let j = serde_json::to_string(&c).unwrap();
                    (show(&c), serde_json::from_str::<cluster::Config>(&j).map(|c| show(&c)).unwrap_or("error".into()))
                }
                _ => {
                    let c = sentinel::Config {
                        urls: url.clone().map(|u| vec![u]),
                        connections: rng.chance(60).then(|| vec![info.clone()]),
                        server_type: if rng.chance(50) { sentinel::SentinelServerType::Replica } else { sentinel::SentinelServerType::Master },
                        master_name: gen_string(rng),
                        pool: pc,
                        node_connection_info: rng.chance(50).then(|| sentinel::SentinelNodeConnectionInfo {
                            tls_mode: rng.chance(50).then_some(sentinel::TlsMode::Insecure),
                            redis_connection_info: rng.chance(50).then(|| gen_rinfo(rng)),
                        }),
                    };
                    let show = |c: &sentinel::Config| {
                        format!(
                            "{:?} {:?} {:?} {:?} {} {:?}",
                            c.urls,
                            c.connections.as_ref().map(|v| v.iter().map(show_info).collect::<Vec<_>>()),
                            c.server_type,
                            c.master_name,
                            show_pool(&c.pool),
                            c.node_connection_info.as_ref().map(|n| (tls_tok(n.tls_mode), n.redis_connection_info.as_ref().map(rinfo_tok)))
                        )
                    };
                    let j = serde_json::to_string(&c).unwrap();
                    (show(&c), serde_json::from_str::<sentinel::Config>(&j).map(|c| show(&c)).unwrap_or("error".into()))
                }
            };
            println!("rdout serde whole");
            if before == after {
                println!("rdx whole same");
            } else {
                println!("rdx whole DIFFERS before={} after={}", hex(before.as_bytes()), hex(after.as_bytes()));
            }
        }
    }
}

async fn recycle_history(rng: &mut Rng, srv: &resp::Server) -> usize {
    use deadpool_redis::redis::cmd;
    // one server per process (listening sockets and ports are scarce): this history's
    // connections are the ones accepted from now on
    let base = {
        let mut st = srv.state.lock().unwrap();
        st.replies.clear();
        st.last_ping = None;
        st.log.len()
    };
    let max = 1 + rng.below(3);
    let len = 4 + rng.below(14);
    // two routes: `Config::builder()` with the pool's recycle timeout ending a reply that never
    // comes, or a hand-made `Manager::from_config` whose connection configuration carries a
    // response timeout that has to do that (the pool's recycle timeout is then far away)
    let via_manager = rng.chance(50);
    let url = format!("redis://127.0.0.1:{}", srv.port);
    let tmo = deadpool_redis::Timeouts {
        wait: Some(Duration::ZERO),
        create: None,
        recycle: Some(if via_manager { Duration::from_secs(8) } else { Duration::from_millis(400) }),
    };
    // the same timeouts either travel with every call (`timeout_get`) or are configured on the
    // pool through the builder's per-field setters and used by plain `get()`
    let pool_level = rng.chance(50);
    let pool = {
        let b = if via_manager {
            let cc = deadpool_redis::redis::AsyncConnectionConfig::new().set_response_timeout(Duration::from_millis(400));
            let mgr = deadpool_redis::Manager::from_config(url.as_str(), cc).unwrap();
            deadpool_redis::Pool::builder(mgr)
        } else {
            deadpool_redis::Config::from_url(url).builder().unwrap()
        };
        // every other pool with room for more than one connection is built small and grown
        let grown = max > 1 && rng.chance(40);
        let b = b.max_size(if grown { 1 } else { max }).runtime(Runtime::Tokio1);
        let b = if pool_level { b.wait_timeout(tmo.wait).recycle_timeout(tmo.recycle) } else { b };
        let p = b.build().unwrap();
        if grown {
            p.resize(max);
        }
        p
    };
    println!("rp cfg max={max}");
    println!("rpobs cfg ok");
    let mut held: Vec<(deadpool_redis::Connection, usize)> = Vec::new();
    let mut taken: Vec<(deadpool_redis::redis::aio::MultiplexedConnection, usize)> = Vec::new();
    let mut hist: Vec<String> = Vec::new();
    let show = |head: String| {
        let st = pool.status();
        println!("rpobs {head} size={} avail={} max={}", st.size, st.available, st.max_size);
    };
    for _ in 0..len {
        let k = rng.below(100);
        if held.is_empty() || (k < 45 && (held.len() < max || rng.chance(15))) {
            // how many idle connections may be examined: script that many answers (mostly bad
            // ones first, so that several connections are rejected in one get)
            let avail = pool.status().available;
            let mut toks: Vec<&str> = Vec::new();
            for _ in 0..avail {
                let t = match rng.below(100) {
                    0..=44 => "right",
                    45..=56 => "stale",
                    57..=66 => "wrong",
                    67..=76 => "error",
                    77..=84 => "unwatcherr",
                    85..=97 => "drop",
                    _ => "silent",
                };
                toks.push(t);
                if t == "right" {
                    break;
                }
            }
            println!("rp get {}", toks.join(" "));
            let (before, pings_before): (Vec<usize>, usize) = {
                let mut st = srv.state.lock().unwrap();
                st.replies.clear();
                for t in &toks {
                    st.replies.push_back(match *t {
                        "right" => resp::Reply::Echo(None),
                        "stale" => resp::Reply::Echo(Some("<stale>".into())),
                        // "any other value": garbage, the reply of an argument-less PING, a
                        // number that is not the one sent, the empty string
                        "wrong" => match rng.below(7) {
                            0 => resp::Reply::Echo(Some("zzz".into())),
                            1 => resp::Reply::Pong,
                            2 => resp::Reply::Echo(Some("PONG".into())),
                            3 => resp::Reply::Echo(Some("<next>".into())),
                            // the right number, written differently
                            4 => resp::Reply::Echo(Some("<padded>".into())),
                            5 => resp::Reply::Echo(Some("<plus>".into())),
                            _ => resp::Reply::Echo(Some("".into())),
                        },
                        // "an error": an error reply or a nil reply
                        "error" => match rng.below(3) {
                            0 => resp::Reply::Nil,
                            1 => resp::Reply::Busy,
                            _ => resp::Reply::Error,
                        },
                        "unwatcherr" => resp::Reply::UnwatchError,
                        "drop" => resp::Reply::Drop,
                        _ => resp::Reply::Silent,
                    });
                }
                (st.log.iter().map(|l| l.len()).collect(), 0)
            };
            let _ = pings_before;
            let t0 = std::time::Instant::now();
            // watchdog: every wait in this get() is bounded (wait 0, the recycle timeout of the
            // call, the connection's response timeout); a get() that is still not back long
            // after all of them could have fired has lost its timeout. Reported as the answer
            // `hang` (the model never gives it) and the process stops: the pool is wedged
            let r = match tokio::time::timeout(Duration::from_secs(40), async {
                if pool_level { pool.get().await } else { pool.timeout_get(&tmo).await }
            }).await {
                Ok(r) => r,
                Err(_) => {
                    hist.push(format!("get=hang[{}]", toks.join(",")));
                    show("res=hang pings=[] watched=-".into());
                    println!("rpx get() did not return within 40 s although wait = 0 and a recycle timeout of {:?} was {}", tmo.recycle, if pool_level { "configured on the pool (PoolBuilder::wait_timeout / recycle_timeout)" } else { "given with the call" });
                    println!("rpx history {}", hist.join("; "));
                    use std::io::Write;
                    let _ = std::io::stdout().flush();
                    std::process::exit(0);
                }
            };
            // (generous: 5 s on top of what the silent replies may legitimately cost; without the
            // response timeout each of them costs the pool's 8 s)
            let n_silent = toks.iter().filter(|t| **t == "silent").count() as u64;
            let slow = via_manager && n_silent > 0 && t0.elapsed() > Duration::from_millis(5000 + 400 * n_silent);
            // what the server saw during this get
            let (pings, order_ok) = {
                let st = srv.state.lock().unwrap();
                let mut pings: Vec<(usize, String, usize)> = Vec::new();
                let mut order_ok = true;
                for (idx, l) in st.log.iter().enumerate().skip(base) {
                    let from = before.get(idx).copied().unwrap_or(0);
                    for (j, c) in l.iter().enumerate().skip(from) {
                        if c[0].eq_ignore_ascii_case("PING") {
                            pings.push((idx - base, c.get(1).cloned().unwrap_or_default(), j));
                            if j == 0 || !l[j - 1][0].eq_ignore_ascii_case("UNWATCH") {
                                order_ok = false;
                            }
                        }
                    }
                }
                // in the order the pings were numbered
                pings.sort_by_key(|p| p.1.parse::<u64>().unwrap_or(u64::MAX));
                (pings, order_ok)
            };
            let shown: Vec<String> = pings.iter().map(|(i, a, _)| format!("{i}:{a}")).collect();
            // for the history: each ping with the answer that was scripted for it
            let told: Vec<String> = pings
                .iter()
                .enumerate()
                .map(|(k, (i, a, _))| format!("{i}:{a}:{}", toks.get(k).copied().unwrap_or("right")))
                .collect();
            if !order_ok {
                println!("rpx order BAD: a PING was not directly preceded by UNWATCH on its connection");
            }
            if slow {
                // a reply that never comes is a failed recycle as soon as the connection's own
                // response timeout (400 ms here) says so
                println!("rpx a missing reply was not ended by the response timeout of the manager's connection configuration: get() took {} ms", t0.elapsed().as_millis());
            }
            match r {
                Ok(mut c) => {
                    let raw: i64 = cmd("WHOAMI").query_async(&mut c).await.unwrap_or(-1);
                    let watched = srv.state.lock().unwrap().watched.get(raw as usize).copied().unwrap_or(false);
                    let who = if raw >= 0 { raw - base as i64 } else { raw };
                    hist.push(format!("get=ok:{who}[{}]", told.join(",")));
                    show(format!("res=ok:{who} pings=[{}] watched={}", shown.join(","), watched as u8));
                    held.push((c.into(), who as usize));
                }
                Err(e) => {
                    let e = match e {
                        deadpool_redis::PoolError::Timeout(deadpool::managed::TimeoutType::Wait) => "timeout_wait",
                        deadpool_redis::PoolError::Timeout(deadpool::managed::TimeoutType::Create) => "timeout_create",
                        deadpool_redis::PoolError::Timeout(deadpool::managed::TimeoutType::Recycle) => "timeout_recycle",
                        deadpool_redis::PoolError::Backend(_) => "backend",
                        deadpool_redis::PoolError::Closed => "closed",
                        deadpool_redis::PoolError::NoRuntimeSpecified => "no_runtime",
                        deadpool_redis::PoolError::PostCreateHook(_) => "post_create_hook",
                    };
                    hist.push(format!("get={e}[{}]", told.join(",")));
                    show(format!("res={e} pings=[{}] watched=-", shown.join(",")));
                }
            }
        } else if k < 65 {
            let (c, who) = held.swap_remove(rng.below(held.len()));
            println!("rp ret {who}");
            hist.push(format!("ret {who}"));
            drop(c);
            show("done".into());
        } else if k < 85 {
            let idx = rng.below(held.len());
            let who = held[idx].1;
            println!("rp watch {who}");
            hist.push(format!("watch {who}"));
            let r: Result<(), _> = cmd("WATCH").arg("k").query_async(&mut held[idx].0).await;
            if r.is_err() {
                println!("rpx watch failed on a handed-out connection");
            }
            show("done".into());
        } else {
            let (c, who) = held.swap_remove(rng.below(held.len()));
            println!("rp take {who}");
            hist.push(format!("take {who}"));
            let mut raw = deadpool_redis::Connection::take(c);
            show("done".into());
            // the taken connection stays usable and is the same connection
            let again: i64 = cmd("WHOAMI").query_async(&mut raw).await.unwrap_or(-1) - base as i64;
            if again != who as i64 {
                println!("rpx taken connection is {again}, expected {who}");
            }
            taken.push((raw, who));
        }
        println!("rpx history {}", hist.join("; "));
    }
    len + 1
}

fn main() {
    let args: Vec<String> = std::env::args().collect();
    let get = |k: &str, d: u64| -> u64 {
        args.iter().position(|a| a == k).and_then(|i| args.get(i + 1)).and_then(|v| v.parse().ok()).unwrap_or(d)
    };
    let mode = args.get(1).map(|s| s.as_str()).unwrap_or("diff");
    let seed = get("--seed", 1);
    let cases = get("--cases", 100);
    // panics are caught per case; keep their messages out of the protocol stream
    std::panic::set_hook(Box::new(|i| { if std::env::var("HVERIF_DEBUG").is_ok() { eprintln!("panic: {i}"); } }));
    let mut rng = Rng(seed.wrapping_mul(0x2545F4914F6CDD1D) ^ 0xC19);
    match mode {
        "diff" => {
            let net = Net::new(4);
            for i in 0..cases {
                match i % 10 {
                    // connection attempts cost milliseconds: one case in ten
                    0 if i % 30 == 20 => node_case(&mut rng, &net),
                    0 => cfg_case(&mut rng, &net),
                    1..=4 => conv_case(&mut rng),
                    _ => serde_case(&mut rng),
                }
            }
        }
        "cfg" => {
            let net = Net::new(4);
            for i in 0..cases {
                if i % 4 == 3 {
                    node_case(&mut rng, &net);
                } else {
                    cfg_case(&mut rng, &net);
                }
            }
        }
        "recycle" => {
            let rt = tokio::runtime::Builder::new_current_thread().enable_all().build().unwrap();
            let srv = resp::Server::start();
            let mut done = 0usize;
            while (done as u64) < cases {
                done += rt.block_on(recycle_history(&mut rng, &srv));
            }
        }
        "probe" => {
            // exploratory: what does the client send, what does the pool do with each reply
            let srv = resp::Server::start();
            let rt = tokio::runtime::Builder::new_current_thread().enable_all().build().unwrap();
            rt.block_on(async {
                let cfg = deadpool_redis::Config::from_url(format!("redis://127.0.0.1:{}", srv.port));
                let pool = cfg.builder().unwrap().max_size(2).runtime(Runtime::Tokio1)
                    .recycle_timeout(Some(Duration::from_millis(100))).build().unwrap();
                for r in [resp::Reply::Echo(None), resp::Reply::Echo(Some("zzz".into())), resp::Reply::Error,
                          resp::Reply::UnwatchError, resp::Reply::Drop, resp::Reply::Silent, resp::Reply::Echo(None)] {
                    srv.state.lock().unwrap().replies.push_back(r.clone());
                    let c = pool.get().await;
                    println!("reply {:?} -> get ok={} status={:?}", r, c.is_ok(), pool.status());
                    drop(c);
                }
                let st = srv.state.lock().unwrap();
                for (i, l) in st.log.iter().enumerate() {
                    println!("conn {i}: {:?}", l);
                }
            });
        }
        _ => {
            eprintln!("usage: h-redis diff|cfg --seed S --cases N");
            std::process::exit(2);
        }
    }
}

// ---------------------------------------------------------------------------------------------
// recycle (C17): the standalone pool against a scripted RESP server
// ---------------------------------------------------------------------------------------------

pub mod resp {
    use std::{
        collections::VecDeque,
        io::{Read, Write},
        net::{TcpListener, TcpStream},
        sync::{Arc, Mutex},
    };

    /// what the server answers to the next `PING <n>` it sees
    #[derive(Clone, Debug, PartialEq)]
    pub enum Reply {
        /// echo this value (`None`: the value that was sent)
        Echo(Option<String>),
        Error,
        /// `UNWATCH` is answered with an error, the `PING` correctly
        UnwatchError,
        /// hang up instead of answering
        Drop,
        /// never answer
        Silent,
        /// `-BUSY …`: an error reply that the client library does not class as "reconnect"
        Busy,
        /// a nil bulk reply
        Nil,
        /// `+PONG`: what an argument-less `PING` is answered with
        Pong,
    }

    #[derive(Default)]
    pub struct ServerState {
        /// argument of the last `PING` seen on any connection
        pub last_ping: Option<String>,
        /// per connection (accept order): commands received, as words
        pub log: Vec<Vec<Vec<String>>>,
        pub watched: Vec<bool>,
        pub replies: VecDeque<Reply>,
    }

    pub struct Server {
        pub port: u16,
        pub state: Arc<Mutex<ServerState>>,
        stop: Arc<std::sync::atomic::AtomicBool>,
    }

    impl Drop for Server {
        fn drop(&mut self) {
            // let the accept thread go (and with it the listening socket)
            self.stop.store(true, std::sync::atomic::Ordering::SeqCst);
            let _ = TcpStream::connect(("127.0.0.1", self.port));
        }
    }

    fn read_line(s: &mut TcpStream) -> Option<String> {
        let mut out = Vec::new();
        let mut b = [0u8; 1];
        loop {
            match s.read(&mut b) {
                Ok(1) => {
                    out.push(b[0]);
                    if out.ends_with(b"\r\n") {
                        out.truncate(out.len() - 2);
                        return String::from_utf8(out).ok();
                    }
                }
                _ => return None,
            }
        }
    }

    fn read_command(s: &mut TcpStream) -> Option<Vec<String>> {
        let head = read_line(s)?;
        let n: usize = head.strip_prefix('*')?.parse().ok()?;
        let mut words = Vec::new();
        for _ in 0..n {
            let len: usize = read_line(s)?.strip_prefix('$')?.parse().ok()?;
            let mut buf = vec![0u8; len + 2];
            s.read_exact(&mut buf).ok()?;
            buf.truncate(len);
            words.push(String::from_utf8_lossy(&buf).to_string());
        }
        Some(words)
    }

    fn serve(mut s: TcpStream, idx: usize, state: Arc<Mutex<ServerState>>) {
        while let Some(cmd) = read_command(&mut s) {
            let name = cmd[0].to_uppercase();
            let mut st = state.lock().unwrap();
            st.log[idx].push(cmd.clone());
            let reply: Option<String> = match name.as_str() {
                "WATCH" => {
                    st.watched[idx] = true;
                    Some("+OK\r\n".into())
                }
                "UNWATCH" => {
                    st.watched[idx] = false;
                    // answered at once (a client need not pipeline the PING behind it); whether
                    // it fails is decided by the answer scripted for the recycle it belongs to
                    if st.replies.front() == Some(&Reply::UnwatchError) {
                        Some("-ERR scripted unwatch failure\r\n".into())
                    } else {
                        Some("+OK\r\n".into())
                    }
                }
                "PING" => {
                    let arg = cmd.get(1).cloned().unwrap_or_default();
                    let r = st.replies.pop_front().unwrap_or(Reply::Echo(None));
                    // `stale`: the value of the previous ping on this pool
                    let r = match r {
                        Reply::Echo(Some(v)) if v == "<stale>" => Reply::Echo(Some(st.last_ping.clone().unwrap_or("x".into()))),
                        // `next`: the number after the one that was sent
                        Reply::Echo(Some(v)) if v == "<next>" => {
                            Reply::Echo(Some(arg.parse::<u64>().map(|n| (n + 1).to_string()).unwrap_or("y".into())))
                        }
                        Reply::Echo(Some(v)) if v == "<padded>" => Reply::Echo(Some(format!("0{arg}"))),
                        Reply::Echo(Some(v)) if v == "<plus>" => Reply::Echo(Some(format!("+{arg}"))),
                        r => r,
                    };
                    st.last_ping = Some(arg.clone());
                    match r {
                        Reply::Echo(v) => {
                            let v = v.unwrap_or(arg);
                            Some(format!("${}\r\n{v}\r\n", v.len()))
                        }
                        Reply::UnwatchError => Some(format!("${}\r\n{arg}\r\n", arg.len())),
                        Reply::Error => Some("-ERR scripted failure\r\n".to_string()),
                        Reply::Busy => Some("-BUSY scripted busy\r\n".to_string()),
                        Reply::Nil => Some("$-1\r\n".to_string()),
                        Reply::Pong => Some("+PONG\r\n".to_string()),
                        Reply::Drop => {
                            drop(st);
                            let _ = s.shutdown(std::net::Shutdown::Both);
                            return;
                        }
                        Reply::Silent => {
                            drop(st);
                            // keep the socket open, never answer anything again
                            let mut sink = [0u8; 256];
                            while let Ok(n) = s.read(&mut sink) {
                                if n == 0 {
                                    break;
                                }
                            }
                            return;
                        }
                    }
                }
                "WHOAMI" => Some(format!(":{idx}\r\n")),
                "GET" => Some("$-1\r\n".into()),
                _ => Some("+OK\r\n".into()),
            };
            drop(st);
            if let Some(r) = reply {
                if s.write_all(r.as_bytes()).is_err() {
                    return;
                }
            }
        }
    }

    impl Server {
        pub fn start() -> Server {
            let l = TcpListener::bind("127.0.0.1:0").unwrap();
            let port = l.local_addr().unwrap().port();
            let state: Arc<Mutex<ServerState>> = Arc::default();
            let st = state.clone();
            let stop: Arc<std::sync::atomic::AtomicBool> = Arc::default();
            let stop2 = stop.clone();
            let _ = std::thread::spawn(move || {
                for s in l.incoming().flatten() {
                    if stop2.load(std::sync::atomic::Ordering::SeqCst) {
                        break;
                    }
                    let idx = {
                        let mut g = st.lock().unwrap();
                        g.log.push(Vec::new());
                        g.watched.push(false);
                        g.log.len() - 1
                    };
                    let st2 = st.clone();
                    let _ = std::thread::spawn(move || serve(s, idx, st2));
                }
            });
            Server { port, state, stop }
        }
    }
}
