//! h-core: runs the real deadpool code under a controlled scheduler and writes
//! traces (actions + observations) for the model replay and the monitors.

mod gen;
mod managed;
mod rng;
mod sched;
mod unmanaged;

use std::io::{BufRead, Write};

fn arg<'a>(args: &'a [String], k: &str) -> Option<&'a str> {
    args.iter()
        .position(|a| a == k)
        .and_then(|i| args.get(i + 1))
        .map(|s| s.as_str())
}

fn main() {
    // scripted panics are part of the experiment: keep stderr quiet for them
    let default_hook = std::panic::take_hook();
    std::panic::set_hook(Box::new(move |info| {
        let msg = info
            .payload()
            .downcast_ref::<&str>()
            .map(|s| s.to_string())
            .or_else(|| info.payload().downcast_ref::<String>().cloned())
            .unwrap_or_default();
        if msg.contains("scripted panic") {
            return;
        }
        default_hook(info);
    }));

    let args: Vec<String> = std::env::args().collect();
    let mode = args.get(1).map(|s| s.as_str()).unwrap_or("");
    let out_path = arg(&args, "--out").unwrap_or("/dev/stdout").to_string();
    let mut out = std::io::BufWriter::new(std::fs::File::create(&out_path).expect("open out"));
    match mode {
        "gen" => {
            let seed: u64 = arg(&args, "--seed").and_then(|s| s.parse().ok()).unwrap_or(1);
            let n: u64 = arg(&args, "--traces").and_then(|s| s.parse().ok()).unwrap_or(10);
            let profile = gen::Profile::by_name(arg(&args, "--profile").unwrap_or("default"));
            let mut profile = profile;
            if let Some(a) = arg(&args, "--max-actions").and_then(|s| s.parse().ok()) {
                profile.max_actions = a;
            }
            let mut errors = 0;
            let pname = arg(&args, "--profile").unwrap_or("default").to_string();
            if pname.starts_with('u') {
                for k in 0..n {
                    let tseed = seed.wrapping_mul(1_000_003).wrapping_add(k);
                    let t = unmanaged::gen_trace(tseed, &pname);
                    writeln!(out, "trace {} seed={} profile={}", k, tseed, pname).unwrap();
                    for l in &t.lines {
                        writeln!(out, "{}", l).unwrap();
                    }
                    writeln!(out, "end").unwrap();
                    if t.error.is_some() {
                        errors += 1;
                        if t.error.as_deref().map(|e| e.starts_with("HANG")).unwrap_or(false) {
                            break;
                        }
                    }
                }
                out.flush().unwrap();
                std::process::exit(if errors > 0 { 3 } else { 0 });
            }
            for k in 0..n {
                let tseed = seed.wrapping_mul(1_000_003).wrapping_add(k);
                let t = gen::gen_trace(tseed, &profile);
                writeln!(out, "trace {} seed={} profile={}", k, tseed, profile.name).unwrap();
                for l in &t.lines {
                    writeln!(out, "{}", l).unwrap();
                }
                writeln!(out, "end").unwrap();
                if t.error.is_some() {
                    errors += 1;
                    // a hang leaves parked threads behind; stop this process
                    if t.error.as_deref().map(|e| e.starts_with("HANG")).unwrap_or(false) {
                        break;
                    }
                }
            }
            out.flush().unwrap();
            if errors > 0 {
                std::process::exit(3);
            }
        }
        "table" => {
            let mut errors = 0;
            for k in 0..gen::TABLE_SIZE {
                let t = gen::gen_table(k);
                writeln!(out, "trace {} table", k).unwrap();
                for l in &t.lines {
                    writeln!(out, "{}", l).unwrap();
                }
                writeln!(out, "end").unwrap();
                if t.error.is_some() {
                    errors += 1;
                }
            }
            out.flush().unwrap();
            if errors > 0 {
                std::process::exit(3);
            }
        }
        "build-table" => {
            // PoolBuilder::build() for every combination of configured timeouts / runtime
            let tm = [managed::Tmo::None, managed::Tmo::Zero, managed::Tmo::Finite];
            for w in tm {
                for c in tm {
                    for r in tm {
                        for rt in [false, true] {
                            let res = managed::try_build(w, c, r, rt);
                            writeln!(out, "build {} {} {} {} => {}", w.ch(), c.ch(), r.ch(), if rt { 1 } else { 0 }, res).unwrap();
                        }
                    }
                }
            }
            out.flush().unwrap();
        }
        "background-check" => {
            // C08: building a pool calls nothing and nothing happens in the background,
            // with a multi-threaded runtime alive the whole time
            let rt = tokio::runtime::Builder::new_multi_thread()
                .worker_threads(2)
                .enable_all()
                .build()
                .unwrap();
            let res = rt.block_on(async {
                let cfg = managed::Cfg {
                    max: 4,
                    lifo: false,
                    pre: vec![false, true],
                    postr: vec![true],
                    postc: vec![false],
                    rt: true,
                };
                let w = managed::World::new(cfg);
                tokio::time::sleep(std::time::Duration::from_millis(150)).await;
                let after_build = w.sched.drain_events();
                let o1 = w.pool.get().await.map_err(|_| "get failed")?;
                let o2 = w.pool.get().await.map_err(|_| "get failed")?;
                drop(o1);
                drop(o2);
                let used = w.sched.drain_events();
                tokio::time::sleep(std::time::Duration::from_millis(150)).await;
                let idle_period = w.sched.drain_events();
                let st = w.pool.status();
                Ok::<_, &'static str>((after_build, used, idle_period, st.size, st.available))
            });
            match res {
                Ok((a, u, i, size, avail)) => {
                    writeln!(out, "background after_build={} during_use={} idle_period={} size={} available={}", a.len(), u.len(), i.len(), size, avail).unwrap();
                    for e in a.iter().chain(i.iter()) {
                        writeln!(out, "unexpected {}", e).unwrap();
                    }
                }
                Err(e) => writeln!(out, "background error {}", e).unwrap(),
            }
            out.flush().unwrap();
        }
        "replay" => {
            let path = arg(&args, "--in").expect("--in FILE");
            let f = std::io::BufReader::new(std::fs::File::open(path).expect("open in"));
            let mut cur: Vec<String> = Vec::new();
            let mut traces: Vec<Vec<String>> = Vec::new();
            for l in f.lines() {
                let l = l.unwrap();
                if l.starts_with("cfg ") && !cur.is_empty() {
                    traces.push(std::mem::take(&mut cur));
                }
                cur.push(l);
            }
            if !cur.is_empty() {
                traces.push(cur);
            }
            let mut errors = 0;
            for (k, tr) in traces.iter().enumerate() {
                let unmanaged = tr.iter().any(|l| l.starts_with("cfg unmanaged"));
                let (lines, err) = if unmanaged {
                    let t = unmanaged::replay(tr);
                    (t.lines, t.error)
                } else {
                    let t = gen::replay(tr);
                    (t.lines, t.error)
                };
                writeln!(out, "trace {} replay", k).unwrap();
                for l in &lines {
                    writeln!(out, "{}", l).unwrap();
                }
                writeln!(out, "end").unwrap();
                if err.is_some() {
                    errors += 1;
                }
            }
            out.flush().unwrap();
            if errors > 0 {
                std::process::exit(3);
            }
        }
        _ => {
            eprintln!("usage: h-core gen --seed S --traces N --profile P --out FILE | replay --in FILE --out FILE");
            std::process::exit(2);
        }
    }
    // parked worker threads of failed traces must not keep the process alive
    std::process::exit(0);
}
