//! h-core: runs the real deadpool code under a controlled scheduler and writes
//! traces (actions + observations) for the model replay and the monitors.

mod gen;
mod managed;
mod rng;
mod sched;
mod unmanaged;

use std::io::{BufRead, Write};

fn arg<'a>(args: &'a [String], k: &str) -> Option<&'a str> {
    args.iter()
        .position(|a| a == k)
        .and_then(|i| args.get(i + 1))
        .map(|s| s.as_str())
}

fn main() {
    // scripted panics are part of the experiment: keep stderr quiet for them
    let default_hook = std::panic::take_hook();
    std::panic::set_hook(Box::new(move |info| {
        let msg = info
            .payload()
            .downcast_ref::<&str>()
            .map(|s| s.to_string())
            .or_else(|| info.payload().downcast_ref::<String>().cloned())
            .unwrap_or_default();
        if msg.contains("scripted panic") {
            return;
        }
        default_hook(info);
    }));

    let args: Vec<String> = std::env::args().collect();
    let mode = args.get(1).map(|s| s.as_str()).unwrap_or("");
    let out_path = arg(&args, "--out").unwrap_or("/dev/stdout").to_string();
    let mut out = std::io::BufWriter::new(std::fs::File::create(&out_path).expect("open out"));
    match mode {
        "gen" => {
            let seed: u64 = arg(&args, "--seed").and_then(|s| s.parse().ok()).unwrap_or(1);
            let n: u64 = arg(&args, "--traces").and_then(|s| s.parse().ok()).unwrap_or(10);
            let profile = gen::Profile::by_name(arg(&args, "--profile").unwrap_or("default"));
            let mut profile = profile;
            if let Some(a) = arg(&args, "--max-actions").and_then(|s| s.parse().ok()) {
                profile.max_actions = a;
            }
            let mut errors = 0;
            let pname = arg(&args, "--profile").unwrap_or("default").to_string();
            if let Some(b) = pname.strip_prefix("xm").or(pname.strip_prefix("xn")) {
                // xm: with resize / close in the menu; xn: without (and without the shrink epilogue)
                let resizes = pname.starts_with("xm");
                // systematic small scopes of the managed pool (see gen::exhaust)
                let budget: usize = b.parse().unwrap_or(1);
                let chunk = (seed % 1000) as usize;
                let mut k = 0u64;
                for (si, sc) in gen::scenarios(resizes).iter().enumerate() {
                    if si % 16 != chunk % 16 {
                        continue;
                    }
                    for variant in 0..4 {
                        let _ = gen::exhaust(sc, variant, budget, n as usize, resizes, |t, hdr| {
                            writeln!(out, "trace {} seed={} profile={} {}", k, seed, pname, hdr).unwrap();
                            for l in &t.lines {
                                writeln!(out, "{}", l).unwrap();
                            }
                            writeln!(out, "end").unwrap();
                            if t.error.is_some() {
                                errors += 1;
                            }
                            k += 1;
                        });
                    }
                }
                out.flush().unwrap();
                std::process::exit(if errors > 0 { 3 } else { 0 });
            }
            if let Some(b) = pname.strip_prefix("xu") {
                // systematic small scopes of the unmanaged pool: every schedule with at most
                // `b` preemptions of every scenario; the scenarios are dealt out over 16 chunks
                let budget: usize = b.parse().unwrap_or(1);
                let chunk = (seed % 1000) as usize;
                let mut k = 0u64;
                for (si, sc) in unmanaged::scenarios().iter().enumerate() {
                    if si % 16 != chunk % 16 {
                        continue;
                    }
                    let _ = unmanaged::exhaust(sc, budget, n as usize, |t, hdr| {
                        writeln!(out, "trace {} seed={} profile={} {}", k, seed, pname, hdr).unwrap();
                        for l in &t.lines {
                            writeln!(out, "{}", l).unwrap();
                        }
                        writeln!(out, "end").unwrap();
                        if t.error.is_some() {
                            errors += 1;
                        }
                        k += 1;
                    });
                }
                out.flush().unwrap();
                std::process::exit(if errors > 0 { 3 } else { 0 });
            }
            if pname.starts_with('u') {
                for k in 0..n {
                    let tseed = seed.wrapping_mul(1_000_003).wrapping_add(k);
                    let t = unmanaged::gen_trace(tseed, &pname);
                    writeln!(out, "trace {} seed={} profile={}", k, tseed, pname).unwrap();
                    for l in &t.lines {
                        writeln!(out, "{}", l).unwrap();
                    }
                    writeln!(out, "end").unwrap();
                    if t.error.is_some() {
                        errors += 1;
                        if t.error.as_deref().map(|e| e.starts_with("HANG") || e.starts_with("BLOCKED")).unwrap_or(false) {
                            break;
                        }
                    }
                }
                out.flush().unwrap();
                std::process::exit(if errors > 0 { 3 } else { 0 });
            }
            for k in 0..n {
                let tseed = seed.wrapping_mul(1_000_003).wrapping_add(k);
                let t = gen::gen_trace(tseed, &profile);
                writeln!(out, "trace {} seed={} profile={}", k, tseed, profile.name).unwrap();
                for l in &t.lines {
                    writeln!(out, "{}", l).unwrap();
                }
                writeln!(out, "end").unwrap();
                if t.error.is_some() {
                    errors += 1;
                    // a hang leaves parked threads behind; stop this process
                    if t.error.as_deref().map(|e| e.starts_with("HANG") || e.starts_with("BLOCKED")).unwrap_or(false) {
                        break;
                    }
                }
            }
            out.flush().unwrap();
            if errors > 0 {
                std::process::exit(3);
            }
        }
        "table" => {
            let mut errors = 0;
            for k in 0..gen::TABLE_SIZE {
                let t = gen::gen_table(k);
                writeln!(out, "trace {} table", k).unwrap();
                for l in &t.lines {
                    writeln!(out, "{}", l).unwrap();
                }
                writeln!(out, "end").unwrap();
                if t.error.is_some() {
                    errors += 1;
                }
            }
            out.flush().unwrap();
            if errors > 0 {
                std::process::exit(3);
            }
        }
        "build-table" => {
            // PoolBuilder::build() for every combination of configured timeouts / runtime
            let tm = [managed::Tmo::None, managed::Tmo::Zero, managed::Tmo::Finite];
            for w in tm {
                for c in tm {
                    for r in tm {
                        for rt in [false, true] {
                            let res = managed::try_build(w, c, r, rt);
                            writeln!(out, "build {} {} {} {} => {}", w.ch(), c.ch(), r.ch(), if rt { 1 } else { 0 }, res).unwrap();
                        }
                    }
                }
            }
            out.flush().unwrap();
        }
        "builder-table" => {
            // every sequence of up to three PoolBuilder configuration calls over a small alphabet
            let alphabet = [
                "m:1", "m:3", "T:-,-,-", "T:5000,6000,7000", "w:-", "w:1500", "c:-", "c:2500", "r:-", "r:3500", "q:f", "q:l",
                "C:9,1000,2000,3000,l", "C:4,-,-,-,f",
            ];
            let dflt = deadpool::managed::PoolConfig::default().max_size;
            let mut seqs: Vec<Vec<String>> = vec![vec![]];
            let mut frontier: Vec<Vec<String>> = vec![vec![]];
            for _ in 0..3 {
                let mut next = Vec::new();
                for s in &frontier {
                    for a in alphabet {
                        let mut t = s.clone();
                        t.push(a.to_string());
                        next.push(t);
                    }
                }
                seqs.extend(next.iter().cloned());
                frontier = next;
            }
            for s in seqs {
                let row = std::panic::catch_unwind(|| managed::builder_row(&s)).unwrap_or("builder panicked".into());
                writeln!(out, "builder d={} {} => {}", dflt, s.join(" "), row).unwrap();
            }
            out.flush().unwrap();
        }
        "background-check" => {
            // C08: building a pool calls nothing and nothing happens in the background,
            // with a multi-threaded runtime alive the whole time
            let rt = tokio::runtime::Builder::new_multi_thread()
                .worker_threads(2)
                .enable_all()
                .build()
                .unwrap();
            let res = rt.block_on(async {
                let cfg = managed::Cfg {
                    max: 4,
                    lifo: false,
                    pre: vec![false, true],
                    postr: vec![true],
                    postc: vec![false],
                    rt: true,
                    pt: [managed::Tmo::None; 3],
                };
                let w = managed::World::new(cfg);
                tokio::time::sleep(std::time::Duration::from_millis(150)).await;
                let after_build = w.sched.drain_events();
                let o1 = w.pool.get().await.map_err(|_| "get failed")?;
                let o2 = w.pool.get().await.map_err(|_| "get failed")?;
                drop(o1);
                drop(o2);
                let used = w.sched.drain_events();
                tokio::time::sleep(std::time::Duration::from_millis(150)).await;
                let idle_period = w.sched.drain_events();
                let st = w.pool.status();
                // dropping the last handle of a pool with idle objects destroys them, but the
                // manager and the hooks are not called: that is no pool operation
                let sched = w.sched.clone();
                drop(w);
                let at_drop: Vec<String> = sched.drain_events().into_iter().filter(|e| !e.starts_with("destroy(")).collect();
                Ok::<_, &'static str>((after_build, used, idle_period, st.size, st.available, at_drop))
            });
            match res {
                Ok((a, u, i, size, avail, d)) => {
                    writeln!(out, "background after_build={} during_use={} idle_period={} at_drop={} size={} available={}", a.len(), u.len(), i.len(), d.len(), size, avail).unwrap();
                    for e in a.iter().chain(i.iter()).chain(d.iter()) {
                        writeln!(out, "unexpected {}", e).unwrap();
                    }
                }
                Err(e) => writeln!(out, "background error {}", e).unwrap(),
            }
            out.flush().unwrap();
        }
        "wrapper-check" => {
            // C01 with a custom wrapper type `W: From<Object<M>>`: a conversion that panics must not
            // leave an extra permit behind (the object goes back to the pool during the unwinding)
            use std::sync::atomic::{AtomicBool, AtomicUsize, Ordering};
            use std::sync::Arc;
            struct M {
                created: Arc<AtomicUsize>,
                live: Arc<AtomicUsize>,
            }
            struct Obj(Arc<AtomicUsize>);
            impl Drop for Obj {
                fn drop(&mut self) {
                    let _ = self.0.fetch_sub(1, Ordering::SeqCst);
                }
            }
            impl deadpool::managed::Manager for M {
                type Type = Obj;
                type Error = ();
                async fn create(&self) -> Result<Obj, ()> {
                    let _ = self.created.fetch_add(1, Ordering::SeqCst);
                    let _ = self.live.fetch_add(1, Ordering::SeqCst);
                    Ok(Obj(self.live.clone()))
                }
                async fn recycle(&self, _: &mut Obj, _: &deadpool::managed::Metrics) -> deadpool::managed::RecycleResult<()> {
                    Ok(())
                }
            }
            static PANIC_NEXT: AtomicBool = AtomicBool::new(false);
            thread_local! { static REST: std::cell::Cell<(bool, usize, usize, usize)> = const { std::cell::Cell::new((false, 0, 0, 0)) }; }
            struct Wrap(#[allow(dead_code)] deadpool::managed::Object<M>);
            impl From<deadpool::managed::Object<M>> for Wrap {
                fn from(o: deadpool::managed::Object<M>) -> Self {
                    if PANIC_NEXT.swap(false, Ordering::SeqCst) {
                        panic!("scripted panic in From<Object>");
                    }
                    Wrap(o)
                }
            }
            let rt = tokio::runtime::Builder::new_current_thread().enable_all().build().unwrap();
            let mut lines = Vec::new();
            for max in [1usize, 2] {
                let created = Arc::new(AtomicUsize::new(0));
                let live = Arc::new(AtomicUsize::new(0));
                let pool: deadpool::managed::Pool<M, Wrap> =
                    deadpool::managed::Pool::builder(M { created: created.clone(), live: live.clone() }).max_size(max).build().unwrap();
                let zero = deadpool::managed::Timeouts { wait: Some(std::time::Duration::ZERO), create: None, recycle: None };
                let holders = rt.block_on(async {
                    // twice: a panicking conversion of a fresh and of a recycled object
                    for _ in 0..2 {
                        PANIC_NEXT.store(true, Ordering::SeqCst);
                        let p2 = pool.clone();
                        let z = zero;
                        let r = tokio::spawn(async move { p2.timeout_get(&z).await.map(|_| ()) }).await;
                        assert!(r.is_err(), "the conversion was scripted to panic");
                    }
                    // at rest after the two unwound calls: status() must be exact (C11)
                    let st = pool.status();
                    let live_now = live.load(Ordering::SeqCst);
                    let rest_ok = st.waiting == 0 && st.available == st.size && st.size == live_now && st.size <= max;
                    REST.with(|r| r.set((rest_ok, st.size, st.available, st.waiting)));
                    let mut held = Vec::new();
                    for _ in 0..max + 2 {
                        if let Ok(w) = pool.timeout_get(&zero).await {
                            held.push(w);
                        }
                    }
                    let n = held.len();
                    let l = live.load(Ordering::SeqCst);
                    drop(held);
                    (n, l)
                });
                let st = pool.status();
                let rest = REST.with(|r| r.get());
                let end_ok = st.waiting == 0 && st.available == st.size && st.size == live.load(Ordering::SeqCst) && st.size <= max;
                let ok = holders.0 <= max && holders.1 <= max && rest.0 && end_ok;
                lines.push(format!(
                    "wrapper max={} holders={} live={} creates={} size={} rest_after_panics=(size {}, available {}, waiting {}) rest_at_end=(size {}, available {}, waiting {}) ok={}",
                    max, holders.0, holders.1, created.load(Ordering::SeqCst), st.size, rest.1, rest.2, rest.3, st.size, st.available, st.waiting, ok as u8
                ));
            }
            for l in lines {
                writeln!(out, "{}", l).unwrap();
            }
            out.flush().unwrap();
        }
        "stress-check" => {
            // Real threads, no scheduler: every thread hammers one managed pool with non-blocking
            // gets, returns, takes, retains and status calls. Windows between two critical sections
            // that contain no `verif_point!` are invisible to the schedulers; here the OS finds
            // them. max_size is never changed and the pool is not closed, so at rest - after all
            // threads were joined - the theorems leave exactly one outcome: status() exact, the
            // full capacity available, every object that left the pool detached exactly once.
            use std::sync::{atomic::{AtomicUsize, Ordering}, Arc, Mutex};
            struct Obj {
                id: usize,
                live: Arc<Mutex<std::collections::BTreeSet<usize>>>,
            }
            impl Drop for Obj {
                fn drop(&mut self) {
                    self.live.lock().unwrap().remove(&self.id);
                }
            }
            struct Mgr {
                next: AtomicUsize,
                live: Arc<Mutex<std::collections::BTreeSet<usize>>>,
                detached: Arc<Mutex<Vec<usize>>>,
                max_live: Arc<AtomicUsize>,
            }
            impl deadpool::managed::Manager for Mgr {
                type Type = Obj;
                type Error = ();
                async fn create(&self) -> Result<Obj, ()> {
                    let id = self.next.fetch_add(1, Ordering::SeqCst);
                    let mut l = self.live.lock().unwrap();
                    l.insert(id);
                    let _ = self.max_live.fetch_max(l.len(), Ordering::SeqCst);
                    Ok(Obj { id, live: self.live.clone() })
                }
                async fn recycle(&self, o: &mut Obj, _: &deadpool::managed::Metrics) -> deadpool::managed::RecycleResult<()> {
                    // every seventh object is rejected once in a while
                    if o.id % 7 == 3 && self.next.load(Ordering::Relaxed) % 3 == 0 {
                        return Err(deadpool::managed::RecycleError::message("scripted reject"));
                    }
                    Ok(())
                }
                fn detach(&self, o: &mut Obj) {
                    // from here on the object is not the pool's any more (taken, removed by
                    // retain, or about to be destroyed)
                    self.live.lock().unwrap().remove(&o.id);
                    self.detached.lock().unwrap().push(o.id);
                }
            }
            let rounds: u64 = arg(&args, "--rounds").and_then(|s| s.parse().ok()).unwrap_or(30);
            std::panic::set_hook(Box::new(|_| {}));
            let mut bad = 0usize;
            let mut first = String::new();
            let mut total_ops = 0u64;
            for r in 0..rounds {
                let max = 1 + (r % 3) as usize;
                let live: Arc<Mutex<std::collections::BTreeSet<usize>>> = Arc::default();
                let detached: Arc<Mutex<Vec<usize>>> = Arc::default();
                let max_live = Arc::new(AtomicUsize::new(0));
                let pool = deadpool::managed::Pool::<Mgr>::builder(Mgr {
                    next: AtomicUsize::new(0),
                    live: live.clone(),
                    detached: detached.clone(),
                    max_live: max_live.clone(),
                })
                .max_size(max)
                .build()
                .unwrap();
                let taken = Arc::new(AtomicUsize::new(0));
                let zero = deadpool::managed::Timeouts { wait: Some(std::time::Duration::ZERO), create: None, recycle: None };
                let hs: Vec<_> = (0..4u64)
                    .map(|t| {
                        let pool = pool.clone();
                        let taken = taken.clone();
                        let live = live.clone();
                        std::thread::spawn(move || {
                            let rt = tokio::runtime::Builder::new_current_thread().build().unwrap();
                            let mut x = 0x9E3779B97F4A7C15u64.wrapping_mul(r * 4 + t + 1);
                            let mut held: Vec<deadpool::managed::Object<Mgr>> = Vec::new();
                            let mut ops = 0u64;
                            for _ in 0..1500 {
                                x ^= x << 13;
                                x ^= x >> 7;
                                x ^= x << 17;
                                ops += 1;
                                match x % 16 {
                                    0..=6 => {
                                        if let Ok(o) = rt.block_on(pool.timeout_get(&zero)) {
                                            held.push(o);
                                        }
                                    }
                                    7..=10 => {
                                        if !held.is_empty() {
                                            drop(held.swap_remove((x >> 8) as usize % held.len()));
                                        }
                                    }
                                    11 => {
                                        if !held.is_empty() {
                                            let o = held.swap_remove((x >> 8) as usize % held.len());
                                            // not the pool's any more from the moment take() is called
                                            // (its slot is free again before Manager::detach runs)
                                            live.lock().unwrap().remove(&o.id);
                                            let raw = deadpool::managed::Object::take(o);
                                            let _ = taken.fetch_add(1, Ordering::SeqCst);
                                            drop(raw);
                                        }
                                    }
                                    12 | 13 => {
                                        let _ = pool.retain(|_, _| true);
                                    }
                                    14 => {
                                        let k = x >> 9;
                                        let _ = pool.retain(|o, _| (o.id as u64 + k) % 3 != 0);
                                    }
                                    _ => {
                                        let _ = pool.status();
                                    }
                                }
                            }
                            drop(held);
                            ops
                        })
                    })
                    .collect();
                let mut panicked = 0usize;
                for h in hs {
                    match h.join() {
                        Ok(n) => total_ops += n,
                        Err(_) => panicked += 1,
                    }
                }
                // at rest
                let at_rest = std::panic::catch_unwind(std::panic::AssertUnwindSafe(|| {
                let mut problems: Vec<String> = Vec::new();
                let st = pool.status();
                let alive = live.lock().unwrap().len();
                if st.max_size != max || st.size != alive || st.available != alive || st.waiting != 0 || st.size > max {
                    problems.push(format!("at rest status() = {:?} but {} object(s) exist, all idle, max_size {}", st, alive, max));
                }
                if max_live.load(Ordering::SeqCst) > max {
                    problems.push(format!("{} objects existed at the same time, max_size {}", max_live.load(Ordering::SeqCst), max));
                }
                let rt = tokio::runtime::Builder::new_current_thread().build().unwrap();
                let mut held = Vec::new();
                let mut answers = Vec::new();
                for _ in 0..max + 1 {
                    match rt.block_on(pool.timeout_get(&zero)) {
                        Ok(o) => {
                            answers.push("ok");
                            held.push(o);
                        }
                        Err(_) => answers.push("refused"),
                    }
                }
                let want: Vec<&str> = (0..max).map(|_| "ok").chain(std::iter::once("refused")).collect();
                if answers != want {
                    problems.push(format!("capacity probe at rest: {:?}, expected {:?}", answers, want));
                }
                drop(held);
                let mut d = detached.lock().unwrap().clone();
                d.sort();
                let n = d.len();
                d.dedup();
                if d.len() != n {
                    problems.push("an object was detached twice".into());
                }
                problems
                }));
                let mut problems = match at_rest {
                    Ok(p) => p,
                    Err(_) => vec!["a pool call panicked while the pool was inspected at rest (slots mutex poisoned?)".to_string()],
                };
                if panicked > 0 {
                    problems.insert(0, format!("{panicked} of 4 threads ended in a panic raised inside a pool operation (no user code panics here)"));
                }
                if !problems.is_empty() {
                    bad += 1;
                    if first.is_empty() {
                        first = format!("round {r} (max_size {max}, 4 threads x 1500 operations): {}", problems.join(" | "));
                    }
                }
            }
            writeln!(out, "stress rounds={rounds} ops={total_ops} bad={bad} first={first}").unwrap();
            out.flush().unwrap();
        }
        "ustress-check" => {
            // the unmanaged pool under real threads (no scheduler, pool never closed): try_get /
            // return, try_add, try_remove, Object::take, status. At rest C05 leaves one outcome:
            // every tagged object is in the pool or was handed to a caller exactly once, status()
            // is exact, and exactly `max_size - size` further objects can be added.
            use std::sync::{atomic::{AtomicUsize, Ordering}, Arc};
            let rounds: u64 = arg(&args, "--rounds").and_then(|s| s.parse().ok()).unwrap_or(30);
            std::panic::set_hook(Box::new(|_| {}));
            let mut bad = 0usize;
            let mut first = String::new();
            let mut total_ops = 0u64;
            for r in 0..rounds {
                let max = 1 + (r % 4) as usize;
                let pool: deadpool::unmanaged::Pool<usize> = deadpool::unmanaged::Pool::new(max);
                let next = Arc::new(AtomicUsize::new(0));
                let removed = Arc::new(AtomicUsize::new(0));
                let added = Arc::new(AtomicUsize::new(0));
                let over = Arc::new(AtomicUsize::new(0));
                let hs: Vec<_> = (0..4u64)
                    .map(|t| {
                        let (pool, next, removed, added, over) = (pool.clone(), next.clone(), removed.clone(), added.clone(), over.clone());
                        std::thread::spawn(move || {
                            let mut x = 0xD1B54A32D192ED03u64.wrapping_mul(r * 4 + t + 1);
                            let mut held: Vec<deadpool::unmanaged::Object<usize>> = Vec::new();
                            let mut ops = 0u64;
                            for _ in 0..1500 {
                                x ^= x << 13;
                                x ^= x >> 7;
                                x ^= x << 17;
                                ops += 1;
                                match x % 16 {
                                    0..=4 => {
                                        if let Ok(o) = pool.try_get() {
                                            held.push(o);
                                        }
                                    }
                                    5..=8 => {
                                        if !held.is_empty() {
                                            drop(held.swap_remove((x >> 8) as usize % held.len()));
                                        }
                                    }
                                    9..=11 => {
                                        let id = next.fetch_add(1, Ordering::SeqCst);
                                        if pool.try_add(id).is_ok() {
                                            let _ = added.fetch_add(1, Ordering::SeqCst);
                                        }
                                    }
                                    12 => {
                                        if pool.try_remove().is_ok() {
                                            let _ = removed.fetch_add(1, Ordering::SeqCst);
                                        }
                                    }
                                    13 => {
                                        if !held.is_empty() {
                                            let o = held.swap_remove((x >> 8) as usize % held.len());
                                            let _ = deadpool::unmanaged::Object::take(o);
                                            let _ = removed.fetch_add(1, Ordering::SeqCst);
                                        }
                                    }
                                    _ => {
                                        let st = pool.status();
                                        if st.size > st.max_size {
                                            let _ = over.fetch_add(1, Ordering::SeqCst);
                                        }
                                    }
                                }
                            }
                            drop(held);
                            ops
                        })
                    })
                    .collect();
                let mut panicked = 0usize;
                for h in hs {
                    match h.join() {
                        Ok(n) => total_ops += n,
                        Err(_) => panicked += 1,
                    }
                }
                let at_rest = std::panic::catch_unwind(std::panic::AssertUnwindSafe(|| {
                    let mut problems: Vec<String> = Vec::new();
                    let inside = added.load(Ordering::SeqCst) - removed.load(Ordering::SeqCst).min(added.load(Ordering::SeqCst));
                    let st = pool.status();
                    if st.max_size != max || st.size != inside || st.available as i64 != inside as i64 || st.size > max {
                        problems.push(format!("at rest status() = {:?} but {} object(s) were added and not removed, max_size {}", st, inside, max));
                    }
                    if over.load(Ordering::SeqCst) > 0 {
                        problems.push(format!("status() reported size > max_size {} time(s) while running", over.load(Ordering::SeqCst)));
                    }
                    // exactly max - inside more fit
                    let mut fitted = 0usize;
                    for k in 0..max + 1 {
                        if pool.try_add(1_000_000 + k).is_ok() {
                            fitted += 1;
                        }
                    }
                    if fitted != max - inside.min(max) {
                        problems.push(format!("at rest {} more object(s) could be added, expected max_size {} - size {} = {}", fitted, max, inside, max - inside.min(max)));
                    }
                    // and every object can be taken out again, each once
                    let mut got = Vec::new();
                    while let Ok(v) = pool.try_remove() {
                        got.push(v);
                        if got.len() > max + 2 {
                            break;
                        }
                    }
                    let n = got.len();
                    got.sort();
                    got.dedup();
                    if got.len() != n || n != inside + fitted {
                        problems.push(format!("the pool gave back {} object(s) ({} distinct), expected {}", n, got.len(), inside + fitted));
                    }
                    problems
                }));
                let mut problems = match at_rest {
                    Ok(p) => p,
                    Err(_) => vec!["a pool call panicked while the pool was inspected at rest".to_string()],
                };
                if panicked > 0 {
                    problems.insert(0, format!("{panicked} of 4 threads ended in a panic raised inside a pool operation"));
                }
                if !problems.is_empty() {
                    bad += 1;
                    if first.is_empty() {
                        first = format!("round {r} (max_size {max}, 4 threads x 1500 operations): {}", problems.join(" | "));
                    }
                }
            }
            writeln!(out, "ustress rounds={rounds} ops={total_ops} bad={bad} first={first}").unwrap();
            out.flush().unwrap();
        }
        "close-race-check" => {
            // C06 on real threads: `close()` racing `resize()` and the return of an object, with
            // no scheduler in between. The windows exercised here lie *inside* what the model
            // treats as one critical section of close() (semaphore closed, max_size 0, idle
            // objects released - all under one lock), where the hooks offer no schedule point.
            // On code where close() is one critical section and resize() checks the closed flag
            // under the same lock the outcome is the same in every interleaving.
            use std::sync::{atomic::{AtomicUsize, Ordering}, Arc, Barrier, Mutex};
            struct Obj {
                id: usize,
                destroyed: Arc<Mutex<Vec<usize>>>,
            }
            impl Drop for Obj {
                fn drop(&mut self) {
                    self.destroyed.lock().unwrap().push(self.id);
                }
            }
            struct Mgr {
                next: AtomicUsize,
                destroyed: Arc<Mutex<Vec<usize>>>,
            }
            impl deadpool::managed::Manager for Mgr {
                type Type = Obj;
                type Error = ();
                async fn create(&self) -> Result<Obj, ()> {
                    Ok(Obj { id: self.next.fetch_add(1, Ordering::SeqCst), destroyed: self.destroyed.clone() })
                }
                async fn recycle(&self, _: &mut Obj, _: &deadpool::managed::Metrics) -> deadpool::managed::RecycleResult<()> {
                    Ok(())
                }
            }
            let trials: u64 = arg(&args, "--trials").and_then(|s| s.parse().ok()).unwrap_or(3000);
            let rt = tokio::runtime::Builder::new_current_thread().enable_all().build().unwrap();
            let mut bad = 0usize;
            let mut first = String::new();
            for t in 0..trials {
                let destroyed: Arc<Mutex<Vec<usize>>> = Arc::default();
                let pool = deadpool::managed::Pool::<Mgr>::builder(Mgr { next: AtomicUsize::new(0), destroyed: destroyed.clone() })
                    .max_size(2)
                    .build()
                    .unwrap();
                let (a, b) = rt.block_on(async { (pool.get().await.unwrap(), pool.get().await.unwrap()) });
                drop(b); // one idle, one checked out
                let bar = Arc::new(Barrier::new(3));
                let (p1, p2, b1, b2, b3) = (pool.clone(), pool.clone(), bar.clone(), bar.clone(), bar.clone());
                let spin = (t % 7) as u32 * 40;
                let h1 = std::thread::spawn(move || {
                    b1.wait();
                    for _ in 0..spin { std::hint::spin_loop(); }
                    p1.close();
                });
                let h2 = std::thread::spawn(move || {
                    b2.wait();
                    for _ in 0..6 {
                        p2.resize(3);
                    }
                });
                // the checked-out object comes back during the race in every other trial
                let early = t % 2 == 0;
                let h3 = std::thread::spawn(move || {
                    b3.wait();
                    if early {
                        drop(a);
                        None
                    } else {
                        Some(a)
                    }
                });
                h1.join().unwrap();
                h2.join().unwrap();
                let late = h3.join().unwrap();
                let mut problems: Vec<String> = Vec::new();
                let st = pool.status();
                if !pool.is_closed() {
                    problems.push("close() returned, is_closed() is false".into());
                }
                if st.max_size != 0 {
                    problems.push(format!("close() returned, status().max_size = {}", st.max_size));
                }
                drop(late);
                let st = pool.status();
                let mut d = destroyed.lock().unwrap().clone();
                d.sort();
                if d != [0, 1] {
                    problems.push(format!("after close() and the return of the checked-out object the destroyed objects are {:?}, expected [0, 1]", d));
                }
                if st.size != 0 || st.max_size != 0 {
                    problems.push(format!("the closed pool reports {:?} after the last object came back", st));
                }
                if rt.block_on(async { pool.get().await }).is_ok() {
                    problems.push("get() on the closed pool returned an object".into());
                }
                if !problems.is_empty() {
                    bad += 1;
                    if first.is_empty() {
                        first = format!("trial {t} (close() || 6 x resize(3) || {} of the checked-out object): {}",
                            if early { "return" } else { "later return" }, problems.join(" | "));
                    }
                }
            }
            writeln!(out, "closerace trials={trials} bad={bad} first={first}").unwrap();
            out.flush().unwrap();
        }
        "outlive-check" => {
            // C06, last clause: objects that outlive every pool handle can still be used and
            // dropped safely; what the pool still held goes away with it.
            use std::sync::{atomic::{AtomicUsize, Ordering}, Arc, Mutex};
            struct Obj {
                id: usize,
                val: u64,
                destroyed: Arc<Mutex<Vec<usize>>>,
            }
            impl Drop for Obj {
                fn drop(&mut self) {
                    self.destroyed.lock().unwrap().push(self.id);
                }
            }
            struct Mgr {
                next: AtomicUsize,
                destroyed: Arc<Mutex<Vec<usize>>>,
            }
            impl deadpool::managed::Manager for Mgr {
                type Type = Obj;
                type Error = ();
                async fn create(&self) -> Result<Obj, ()> {
                    Ok(Obj { id: self.next.fetch_add(1, Ordering::SeqCst), val: 0, destroyed: self.destroyed.clone() })
                }
                async fn recycle(&self, _: &mut Obj, _: &deadpool::managed::Metrics) -> deadpool::managed::RecycleResult<()> {
                    Ok(())
                }
            }
            for variant in ["drop", "close-then-drop", "drop-clone-last"] {
                let destroyed: Arc<Mutex<Vec<usize>>> = Arc::default();
                let d2 = destroyed.clone();
                let res = std::panic::catch_unwind(move || -> Vec<String> {
                    let rt = tokio::runtime::Builder::new_current_thread().enable_all().build().unwrap();
                    let mut problems: Vec<String> = Vec::new();
                    rt.block_on(async {
                        let pool = deadpool::managed::Pool::<Mgr>::builder(Mgr { next: AtomicUsize::new(0), destroyed: d2.clone() })
                            .max_size(3)
                            .build()
                            .unwrap();
                        let clone = pool.clone();
                        let mut a = pool.get().await.unwrap();
                        let b = pool.get().await.unwrap();
                        let c = pool.get().await.unwrap();
                        let (ida, idb, idc) = (a.id, b.id, c.id);
                        drop(c); // idle in the pool
                        if deadpool::managed::Object::pool(&a).is_none() {
                            problems.push("Object::pool() is None while the pool is alive".into());
                        }
                        if variant == "close-then-drop" {
                            pool.close();
                        }
                        if variant == "drop-clone-last" {
                            drop(pool);
                            if !d2.lock().unwrap().is_empty() {
                                problems.push("an object was destroyed while a pool handle was still alive".into());
                            }
                            drop(clone);
                        } else {
                            drop(clone);
                            drop(pool);
                        }
                        // the idle object went away with the pool (or with close())
                        if d2.lock().unwrap().as_slice() != [idc] {
                            problems.push(format!("after the last pool handle was dropped the destroyed objects are {:?}, expected [{}]", d2.lock().unwrap(), idc));
                        }
                        // the survivors are usable
                        a.val += 41;
                        a.val += 1;
                        if a.val != 42 {
                            problems.push("object not usable".into());
                        }
                        let _ = deadpool::managed::Object::metrics(&a).recycle_count;
                        if deadpool::managed::Object::pool(&a).is_some() {
                            problems.push("Object::pool() is Some after every pool handle was dropped".into());
                        }
                        let mut raw = deadpool::managed::Object::take(b);
                        raw.val += 7;
                        if d2.lock().unwrap().contains(&idb) {
                            problems.push("a taken object was destroyed".into());
                        }
                        drop(a);
                        if d2.lock().unwrap().iter().filter(|x| **x == ida).count() != 1 {
                            problems.push(format!("object {ida} dropped after the pool: destroyed {:?}", d2.lock().unwrap()));
                        }
                        drop(raw);
                        let mut all = d2.lock().unwrap().clone();
                        all.sort();
                        let mut dedup = all.clone();
                        dedup.dedup();
                        if dedup.len() != all.len() || all.len() != 3 {
                            problems.push(format!("every object must be destroyed exactly once, got {:?}", all));
                        }
                    });
                    problems
                });
                match res {
                    Ok(p) if p.is_empty() => writeln!(out, "outlive variant={variant} ok=1").unwrap(),
                    Ok(p) => writeln!(out, "outlive variant={variant} ok=0 problems={}", p.join(" | ")).unwrap(),
                    Err(_) => writeln!(out, "outlive variant={variant} ok=0 problems=panicked").unwrap(),
                }
            }
            out.flush().unwrap();
        }
        "replay" => {
            let path = arg(&args, "--in").expect("--in FILE");
            let f = std::io::BufReader::new(std::fs::File::open(path).expect("open in"));
            let mut cur: Vec<String> = Vec::new();
            let mut traces: Vec<Vec<String>> = Vec::new();
            for l in f.lines() {
                let l = l.unwrap();
                if l.starts_with("cfg ") && !cur.is_empty() {
                    traces.push(std::mem::take(&mut cur));
                }
                cur.push(l);
            }
            if !cur.is_empty() {
                traces.push(cur);
            }
            let mut errors = 0;
            for (k, tr) in traces.iter().enumerate() {
                let unmanaged = tr.iter().any(|l| l.starts_with("cfg unmanaged"));
                let (lines, err) = if unmanaged {
                    let t = unmanaged::replay(tr);
                    (t.lines, t.error)
                } else {
                    let t = gen::replay(tr);
                    (t.lines, t.error)
                };
                writeln!(out, "trace {} replay", k).unwrap();
                for l in &lines {
                    writeln!(out, "{}", l).unwrap();
                }
                writeln!(out, "end").unwrap();
                if err.is_some() {
                    errors += 1;
                }
            }
            out.flush().unwrap();
            if errors > 0 {
                std::process::exit(3);
            }
        }
        _ => {
            eprintln!("usage: h-core gen --seed S --traces N --profile P --out FILE | replay --in FILE --out FILE");
            std::process::exit(2);
        }
    }
    // parked worker threads of failed traces must not keep the process alive
    std::process::exit(0);
}
