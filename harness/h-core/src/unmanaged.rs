//! The real unmanaged pool under the controlled scheduler.

use std::{
    cell::Cell,
    collections::BTreeMap,
    future::Future,
    panic::{catch_unwind, AssertUnwindSafe},
    sync::{atomic::Ordering, Arc, Mutex},
    task::{Context, Poll},
    thread::JoinHandle,
    time::Duration,
};

use deadpool::unmanaged::{Object, Pool, PoolConfig, PoolError};
use deadpool::Runtime;

use crate::managed::{Tmo, FINITE};
use crate::rng::Rng;
use crate::sched::{self, flag_waker, Ctx, Outcome, Sched};

thread_local! {
    /// the current thread is dropping something on behalf of the caller (a cancelled add())
    static CALLER_DROP: Cell<bool> = const { Cell::new(false) };
}

pub struct UTracked {
    pub id: u64,
    sched: Arc<Sched>,
    dropped: Arc<Mutex<Vec<u64>>>,
    pub released: bool,
}

impl Drop for UTracked {
    fn drop(&mut self) {
        if !self.released && !CALLER_DROP.with(|c| c.get()) {
            self.dropped.lock().unwrap().push(self.id);
            let op = sched::ctx().map(|c| c.op).unwrap_or(usize::MAX);
            self.sched.event(format!("dropped({},{})", op, self.id));
        }
    }
}

#[derive(Clone, Debug)]
pub struct UCfg {
    pub max: usize,
    pub init: usize,
    pub rt: bool,
    pub tmo: Tmo,
    /// new | cfg | iter
    pub ctor: String,
}

impl UCfg {
    pub fn line(&self) -> String {
        format!(
            "cfg unmanaged max={} init={} rt={} tmo={} ctor={}",
            self.max,
            self.init,
            if self.rt { 1 } else { 0 },
            self.tmo.ch(),
            self.ctor
        )
    }
    pub fn parse(ws: &[&str]) -> Option<UCfg> {
        let mut c = UCfg {
            max: 0,
            init: 0,
            rt: false,
            tmo: Tmo::None,
            ctor: "new".into(),
        };
        for w in ws {
            let (k, v) = w.split_once('=')?;
            match k {
                "max" => c.max = v.parse().ok()?,
                "init" => c.init = v.parse().ok()?,
                "rt" => c.rt = v == "1",
                "tmo" => c.tmo = Tmo::parse(v)?,
                "ctor" => c.ctor = v.to_string(),
                _ => return None,
            }
        }
        Some(c)
    }
}

#[derive(Clone, Debug)]
pub enum USpec {
    Get(Option<Tmo>), // None = pool default
    TryGet,
    /// `None`: `Pool::remove()` (the pool's configured timeout); `Some(t)`: `timeout_remove(t)`
    Remove(Option<Tmo>),
    TryRemove,
    Add,
    TryAdd,
    Ret(u64),
    Take(u64),
    Close,
    Status,
}

impl USpec {
    pub fn line(&self) -> String {
        match self {
            USpec::Get(None) => "start uget d".into(),
            USpec::Get(Some(t)) => format!("start uget {}", t.ch()),
            USpec::TryGet => "start utryget".into(),
            USpec::Remove(None) => "start uremove d".into(),
            USpec::Remove(Some(t)) => format!("start uremove {}", t.ch()),
            USpec::TryRemove => "start utryremove".into(),
            USpec::Add => "start uadd".into(),
            USpec::TryAdd => "start utryadd".into(),
            USpec::Ret(id) => format!("start uret {}", id),
            USpec::Take(id) => format!("start utake {}", id),
            USpec::Close => "start uclose".into(),
            USpec::Status => "start ustatus".into(),
        }
    }
    pub fn parse(ws: &[&str]) -> Option<USpec> {
        Some(match ws {
            ["uget", "d"] => USpec::Get(None),
            ["uget", t] => USpec::Get(Some(Tmo::parse(t)?)),
            ["utryget"] => USpec::TryGet,
            ["uremove", "d"] => USpec::Remove(None),
            ["uremove", t] => USpec::Remove(Some(Tmo::parse(t)?)),
            ["utryremove"] => USpec::TryRemove,
            ["uadd"] => USpec::Add,
            ["utryadd"] => USpec::TryAdd,
            ["uret", id] => USpec::Ret(id.parse().ok()?),
            ["utake", id] => USpec::Take(id.parse().ok()?),
            ["uclose"] => USpec::Close,
            ["ustatus"] => USpec::Status,
            _ => return None,
        })
    }
}

#[derive(Clone, Debug)]
pub enum UAction {
    Start(USpec),
    Step(usize, Outcome),
}

impl UAction {
    pub fn line(&self) -> String {
        match self {
            UAction::Start(s) => s.line(),
            UAction::Step(i, o) => format!("step {} {}", i, o.name()),
        }
    }
    pub fn parse(line: &str) -> Option<UAction> {
        let ws: Vec<&str> = line.split_whitespace().collect();
        match ws.as_slice() {
            ["start", rest @ ..] => Some(UAction::Start(USpec::parse(rest)?)),
            ["step", i, o] => Some(UAction::Step(i.parse().ok()?, Outcome::parse(o)?)),
            _ => None,
        }
    }
}

type Hands = Arc<Mutex<BTreeMap<u64, Object<UTracked>>>>;

pub struct UWorld {
    pub cfg: UCfg,
    pub sched: Arc<Sched>,
    pub pool: Pool<UTracked>,
    pub hands: Hands,
    pub returned: Arc<Mutex<Vec<u64>>>,
    graveyard: Arc<Mutex<Vec<UTracked>>>,
    pub dropped: Arc<Mutex<Vec<u64>>>,
    pub specs: Vec<USpec>,
    pub wakers: Vec<Arc<sched::FlagWaker>>,
    threads: Vec<JoinHandle<()>>,
    next_id: u64,
}

fn err_name(e: &PoolError) -> &'static str {
    match e {
        PoolError::Timeout => "timeout",
        PoolError::Closed => "closed",
        PoolError::NoRuntimeSpecified => "no_runtime",
    }
}

impl UWorld {
    pub fn new(cfg: UCfg) -> UWorld {
        let sched = Sched::new();
        let dropped = Arc::new(Mutex::new(Vec::new()));
        let mk = |id: u64| UTracked {
            id,
            sched: sched.clone(),
            dropped: dropped.clone(),
            released: false,
        };
        let pool = match cfg.ctor.as_str() {
            "iter" => Pool::from((0..cfg.init as u64).map(mk).collect::<Vec<_>>()),
            "cfg" => Pool::from_config(&PoolConfig {
                max_size: cfg.max,
                timeout: cfg.tmo.dur(),
                runtime: if cfg.rt { Some(Runtime::Tokio1) } else { None },
            }),
            _ => Pool::new(cfg.max),
        };
        let next_id = cfg.init as u64;
        UWorld {
            cfg,
            sched,
            pool,
            hands: Arc::new(Mutex::new(BTreeMap::new())),
            returned: Arc::new(Mutex::new(Vec::new())),
            graveyard: Arc::new(Mutex::new(Vec::new())),
            dropped,
            specs: Vec::new(),
            wakers: Vec::new(),
            threads: Vec::new(),
            next_id,
        }
    }

    pub fn hand_ids(&self) -> Vec<u64> {
        self.hands.lock().unwrap().keys().copied().collect()
    }

    pub fn enabled(&self, i: usize) -> Vec<Outcome> {
        let op = self.sched.op(i);
        if op.done {
            return vec![];
        }
        if op.susp {
            let mut v = vec![Outcome::Run, Outcome::Cancel];
            let t = match &self.specs[i] {
                USpec::Get(None) | USpec::Remove(None) => Some(self.cfg.tmo),
                USpec::Get(Some(t)) | USpec::Remove(Some(t)) => Some(*t),
                _ => None,
            };
            if t == Some(Tmo::Finite) && self.cfg.rt {
                v.push(Outcome::Deadline);
            }
            return v;
        }
        vec![Outcome::Run]
    }

    pub fn start(&mut self, spec: &USpec) -> Result<usize, String> {
        let sched = self.sched.clone();
        let pool = self.pool.clone();
        let hands = self.hands.clone();
        let returned = self.returned.clone();
        let graveyard = self.graveyard.clone();
        let dropped = self.dropped.clone();
        let label = match spec {
            USpec::Get(_) | USpec::TryGet | USpec::Remove(_) | USpec::TryRemove => "uget.start",
            USpec::Add | USpec::TryAdd => "uadd.start",
            USpec::Ret(_) => "uret.push",
            USpec::Take(_) => "utake.size",
            USpec::Close => "uclose.sem",
            USpec::Status => "ustatus",
        };
        let obj = match spec {
            USpec::Ret(id) | USpec::Take(id) => Some(
                self.hands
                    .lock()
                    .unwrap()
                    .remove(id)
                    .ok_or_else(|| format!("object {} is not in anybody's hands", id))?,
            ),
            _ => None,
        };
        let new_obj = match spec {
            USpec::Add | USpec::TryAdd => {
                let id = self.next_id;
                self.next_id += 1;
                Some(UTracked {
                    id,
                    sched: sched.clone(),
                    dropped: dropped.clone(),
                    released: false,
                })
            }
            _ => None,
        };
        let i = sched.add_op(label);
        self.specs.push(spec.clone());
        let (flag, waker) = flag_waker();
        self.wakers.push(flag.clone());
        let spec = spec.clone();
        let cfg_tmo = self.cfg.tmo;
        let h = std::thread::Builder::new()
            .name(format!("uop{}", i))
            .spawn(move || {
                sched::set_ctx(Some(Ctx {
                    sched: sched.clone(),
                    op: i,
                }));
                {
                    let sched = sched.clone();
                    deadpool::verif::set_thread_hook(Some(Box::new(move |label| {
                        let c = sched.yield_at(i, label, false, false);
                        assert_eq!(c, Outcome::Run);
                    })));
                }
                let first = sched.wait_first(i);
                assert_eq!(first, Outcome::Run);
                let give_back = |mut t: UTracked| {
                    t.released = true;
                    returned.lock().unwrap().push(t.id);
                    graveyard.lock().unwrap().push(t);
                };
                // drives a future by hand; Ok(output) or Err("cancelled"/"panicked")
                macro_rules! drive {
                    ($fut:expr) => {{
                        let rt = tokio::runtime::Builder::new_current_thread()
                            .enable_time()
                            .start_paused(true)
                            .build()
                            .unwrap();
                        rt.block_on(async {
                            // off the millisecond grid of the timer wheel: a zero timeout that is
                            // sent through the runtime's timer instead of being decided at once then
                            // shows as a `Pending` on the first poll
                            tokio::time::advance(Duration::from_micros(300)).await;
                            let mut fut = Box::pin($fut);
                            let mut cx = Context::from_waker(&waker);
                            loop {
                                flag.0.store(false, Ordering::SeqCst);
                                let r = catch_unwind(AssertUnwindSafe(|| fut.as_mut().poll(&mut cx)));
                                match r {
                                    Err(_) => break Err("panicked"),
                                    Ok(Poll::Ready(v)) => break Ok(v),
                                    Ok(Poll::Pending) => match sched.yield_at(i, "", true, false) {
                                        Outcome::Cancel => {
                                            CALLER_DROP.with(|c| c.set(true));
                                            let r = catch_unwind(AssertUnwindSafe(|| drop(fut)));
                                            CALLER_DROP.with(|c| c.set(false));
                                            break Err(if r.is_ok() { "cancelled" } else { "panicked" });
                                        }
                                        Outcome::Deadline => {
                                            tokio::time::advance(FINITE + Duration::from_millis(1)).await;
                                        }
                                        _ => {}
                                    },
                                }
                            }
                        })
                    }};
                }
                let r = catch_unwind(AssertUnwindSafe(|| match spec {
                    USpec::Get(t) => {
                        let res = match t {
                            None => {
                                let _ = cfg_tmo;
                                drive!(pool.get())
                            }
                            Some(t) => drive!(pool.timeout_get(t.dur())),
                        };
                        match res {
                            Ok(Ok(o)) => {
                                sched.event(format!("result({},ok:{})", i, o.id));
                                hands.lock().unwrap().insert(o.id, o);
                            }
                            Ok(Err(e)) => sched.event(format!("result({},{}:-)", i, err_name(&e)).replace("no_runtime:-", "no_runtime")),
                            Err(e) => sched.event(format!("result({},{})", i, e)),
                        }
                    }
                    USpec::TryGet => match pool.try_get() {
                        Ok(o) => {
                            sched.event(format!("result({},ok:{})", i, o.id));
                            hands.lock().unwrap().insert(o.id, o);
                        }
                        Err(e) => sched.event(format!("result({},{}:-)", i, err_name(&e)).replace("no_runtime:-", "no_runtime")),
                    },
                    USpec::Remove(t) => match (match t {
                        None => drive!(pool.remove()),
                        Some(t) => drive!(pool.timeout_remove(t.dur())),
                    }) {
                        Ok(Ok(v)) => {
                            sched.event(format!("result({},ok:{})", i, v.id));
                            give_back(v);
                        }
                        Ok(Err(e)) => sched.event(format!("result({},{}:-)", i, err_name(&e)).replace("no_runtime:-", "no_runtime")),
                        Err(e) => sched.event(format!("result({},{})", i, e)),
                    },
                    USpec::TryRemove => match pool.try_remove() {
                        Ok(v) => {
                            sched.event(format!("result({},ok:{})", i, v.id));
                            give_back(v);
                        }
                        Err(e) => sched.event(format!("result({},{}:-)", i, err_name(&e)).replace("no_runtime:-", "no_runtime")),
                    },
                    USpec::Add => {
                        let o = new_obj.unwrap();
                        let id = o.id;
                        match drive!(pool.add(o)) {
                            Ok(Ok(())) => sched.event(format!("result({},added)", i)),
                            Ok(Err((o, e))) => {
                                sched.event(format!("result({},{}:{})", i, err_name(&e), o.id));
                                give_back(o);
                            }
                            Err(e) => {
                                // the future owned the object and was dropped by the caller
                                returned.lock().unwrap().push(id);
                                sched.event(format!("result({},{})", i, e));
                            }
                        }
                    }
                    USpec::TryAdd => match pool.try_add(new_obj.unwrap()) {
                        Ok(()) => sched.event(format!("result({},added)", i)),
                        Err((o, e)) => {
                            sched.event(format!("result({},{}:{})", i, err_name(&e), o.id));
                            give_back(o);
                        }
                    },
                    USpec::Ret(_) => drop(obj.unwrap()),
                    USpec::Take(_) => {
                        let v = Object::take(obj.unwrap());
                        give_back(v);
                    }
                    USpec::Close => pool.close(),
                    USpec::Status => {
                        let s = pool.status();
                        sched.event(format!(
                            "status({},{},{},{},{})",
                            i, s.max_size, s.size, s.available, s.waiting
                        ));
                    }
                }));
                if r.is_err() {
                    sched.event(format!("oppanic({})", i));
                }
                deadpool::verif::set_thread_hook(None);
                sched::set_ctx(None);
                drop(pool);
                sched.finish(i);
            })
            .unwrap();
        self.threads.push(h);
        Ok(i)
    }

    pub fn exec(&mut self, a: &UAction) -> Result<String, String> {
        self.sched.stamp();
        let i = match a {
            UAction::Start(spec) => self.start(spec)?,
            UAction::Step(i, oc) => {
                if *i >= self.sched.n_ops() {
                    return Err(format!("no op {}", i));
                }
                if !self.enabled(*i).contains(oc) {
                    return Err(format!("action not enabled in the harness: {}", a.line()));
                }
                if !self.sched.resume(*i, *oc) {
                    return Err(format!("HANG: op {} did not come back after `{}`", i, a.line()));
                }
                *i
            }
        };
        Ok(self.obs(i))
    }

    pub fn woken(&self, j: usize) -> bool {
        self.wakers[j].0.load(Ordering::SeqCst)
    }

    pub fn obs(&self, i: usize) -> String {
        let op = self.sched.op(i);
        let mut q: Vec<String> = Vec::new();
        let snap = self.pool.verif_snapshot(|t| q.push(t.id.to_string()));
        let list = |v: &mut Vec<u64>| {
            v.sort();
            v.iter().map(|x| x.to_string()).collect::<Vec<_>>().join(",")
        };
        let mut woken: Vec<String> = Vec::new();
        for j in 0..self.sched.n_ops() {
            let o = self.sched.op(j);
            if !o.done && o.susp && self.woken(j) {
                woken.push(j.to_string());
            }
        }
        let evs = self.sched.drain_events();
        format!(
            "obs op={} lbl={} susp={} permits={} spermits={} closed={} sclosed={} size={} avail={} queue=[{}] hands=[{}] returned=[{}] dropped=[{}] woken=[{}] fault=0 ev={}",
            i,
            op.label,
            if op.susp { 1 } else { 0 },
            snap.permits,
            snap.size_permits,
            if snap.closed { 1 } else { 0 },
            if snap.size_closed { 1 } else { 0 },
            snap.size,
            snap.available,
            q.join(","),
            list(&mut self.hand_ids()),
            list(&mut self.returned.lock().unwrap().clone()),
            list(&mut self.dropped.lock().unwrap().clone()),
            woken.join(","),
            evs.join(";")
        )
    }

    pub fn unfinished(&self) -> Vec<usize> {
        (0..self.sched.n_ops())
            .filter(|i| !self.sched.op(*i).done)
            .collect()
    }

    pub fn finish(self) {
        for h in self.threads {
            let _ = h.join();
        }
        CALLER_DROP.with(|c| c.set(true));
        let hands = std::mem::take(&mut *self.hands.lock().unwrap());
        drop(hands);
        drop(self.pool);
        CALLER_DROP.with(|c| c.set(false));
    }
}

// ---------------------------------------------------------------- generation

pub struct UTrace {
    pub lines: Vec<String>,
    pub error: Option<String>,
}

fn act(w: &mut UWorld, a: &UAction, t: &mut UTrace) -> bool {
    t.lines.push(a.line());
    match w.exec(a) {
        Ok(o) => {
            t.lines.push(o);
            true
        }
        Err(e) => {
            t.lines.push(format!("error {}", e));
            t.error = Some(e);
            false
        }
    }
}

pub fn drain(w: &mut UWorld, t: &mut UTrace) -> bool {
    for _ in 0..3000 {
        let un = w.unfinished();
        if un.is_empty() {
            return true;
        }
        let mut acted = false;
        for i in &un {
            let op = w.sched.op(*i);
            if op.susp && !w.woken(*i) {
                continue;
            }
            if !act(w, &UAction::Step(*i, Outcome::Run), t) {
                return false;
            }
            acted = true;
            break;
        }
        if acted {
            continue;
        }
        // only blocked, un-woken waiters are left
        if !act(w, &UAction::Step(un[0], Outcome::Cancel), t) {
            return false;
        }
    }
    t.error = Some("drain did not terminate".into());
    false
}

fn run_alone(w: &mut UWorld, s: USpec, t: &mut UTrace) -> bool {
    if !act(w, &UAction::Start(s), t) {
        return false;
    }
    let i = w.sched.n_ops() - 1;
    for _ in 0..50 {
        let op = w.sched.op(i);
        if op.done {
            return true;
        }
        let oc = if op.susp && !w.woken(i) {
            Outcome::Cancel
        } else {
            Outcome::Run
        };
        if !act(w, &UAction::Step(i, oc), t) {
            return false;
        }
    }
    true
}

pub fn gen_cfg(rng: &mut Rng) -> UCfg {
    match rng.below(10) {
        0..=1 => {
            let k = rng.below(4);
            UCfg {
                max: k,
                init: k,
                rt: false,
                tmo: Tmo::None,
                ctor: "iter".into(),
            }
        }
        2..=5 => UCfg {
            max: rng.below(4),
            init: 0,
            rt: rng.chance(60),
            tmo: *rng.pick(&[Tmo::None, Tmo::Zero, Tmo::Finite, Tmo::Finite, Tmo::Huge]),
            ctor: "cfg".into(),
        },
        _ => UCfg {
            max: if rng.chance(10) { 0 } else { 1 + rng.below(3) },
            init: 0,
            rt: false,
            tmo: Tmo::None,
            ctor: "new".into(),
        },
    }
}

pub fn gen_trace(seed: u64, profile: &str) -> UTrace {
    let mut rng = Rng::new(seed);
    let cfg = gen_cfg(&mut rng);
    let mut t = UTrace {
        lines: vec![cfg.line()],
        error: None,
    };
    let mut w = UWorld::new(cfg);
    // weights: get tryget remove tryremove add tryadd ret take close status
    let wts: [usize; 10] = match profile {
        "uclose" => [16, 8, 5, 4, 16, 10, 14, 5, 12, 6],
        "ustatus" => [16, 8, 5, 4, 18, 10, 14, 5, 1, 16],
        _ => [18, 10, 6, 5, 20, 12, 16, 6, 1, 6],
    };
    let p_quiesce = if profile == "ustatus" { 8 } else { 2 };
    let n_act = 30 + rng.below(50);
    let mut started = 0;
    let tm = [Tmo::None, Tmo::None, Tmo::Zero, Tmo::Zero, Tmo::Finite, Tmo::Finite, Tmo::Huge];
    for _ in 0..n_act {
        if rng.chance(p_quiesce) {
            // quiescent point: run whatever can run, then status at rest
            for _ in 0..500 {
                let mut acted = false;
                for i in w.unfinished() {
                    let op = w.sched.op(i);
                    if op.susp && !w.woken(i) {
                        continue;
                    }
                    if !act(&mut w, &UAction::Step(i, Outcome::Run), &mut t) {
                        std::mem::forget(w);
                        return t;
                    }
                    acted = true;
                    break;
                }
                if !acted {
                    break;
                }
            }
            t.lines.push("# quiescent".into());
            if !run_alone(&mut w, USpec::Status, &mut t) {
                std::mem::forget(w);
                return t;
            }
            t.lines.push("# main".into());
            continue;
        }
        let un = w.unfinished();
        let do_start = started < 16 && (un.is_empty() || rng.chance(35));
        let a = if do_start {
            let hands = w.hand_ids();
            let mut wt = wts;
            if hands.is_empty() {
                wt[6] = 0;
                wt[7] = 0;
            }
            started += 1;
            UAction::Start(match rng.weighted(&wt) {
                0 => {
                    if rng.chance(30) {
                        USpec::Get(None)
                    } else {
                        USpec::Get(Some(*rng.pick(&tm)))
                    }
                }
                1 => USpec::TryGet,
                2 => {
                    if rng.chance(30) {
                        USpec::Remove(None)
                    } else {
                        USpec::Remove(Some(*rng.pick(&tm)))
                    }
                }
                3 => USpec::TryRemove,
                4 => USpec::Add,
                5 => USpec::TryAdd,
                6 => USpec::Ret(*rng.pick(&hands)),
                7 => USpec::Take(*rng.pick(&hands)),
                8 => USpec::Close,
                _ => USpec::Status,
            })
        } else if !un.is_empty() {
            let i = *rng.pick(&un);
            let en = w.enabled(i);
            let oc = if en.len() == 1 {
                en[0]
            } else {
                match rng.below(10) {
                    0..=5 => Outcome::Run,
                    6..=7 => Outcome::Cancel,
                    _ => {
                        if en.contains(&Outcome::Deadline) {
                            Outcome::Deadline
                        } else {
                            Outcome::Run
                        }
                    }
                }
            };
            UAction::Step(i, oc)
        } else {
            break;
        };
        if !act(&mut w, &a, &mut t) {
            std::mem::forget(w);
            return t;
        }
    }
    finish_trace(w, t)
}

/// drain, status at rest, and the epilogue (after close: later calls must fail with Closed and
/// hand objects back)
fn finish_trace(mut w: UWorld, mut t: UTrace) -> UTrace {
    t.lines.push("# drain".into());
    if !drain(&mut w, &mut t) {
        std::mem::forget(w);
        return t;
    }
    t.lines.push("# rest".into());
    if !run_alone(&mut w, USpec::Status, &mut t) {
        std::mem::forget(w);
        return t;
    }
    t.lines.push("# epilogue".into());
    for s in [USpec::TryGet, USpec::Get(Some(Tmo::None)), USpec::TryAdd, USpec::Add, USpec::TryRemove, USpec::Status] {
        if !run_alone(&mut w, s, &mut t) {
            std::mem::forget(w);
            return t;
        }
    }
    w.finish();
    t
}

// ---------------------------------------------------------------- systematic small scopes

/// an operation of a scenario; objects in the callers' hands are named by position
#[derive(Clone, Debug)]
pub enum ScOp {
    Plain(USpec),
    RetHand(usize),
    TakeHand(usize),
}

impl ScOp {
    fn name(&self) -> String {
        match self {
            ScOp::Plain(s) => s.line().replace("start ", "").replace(' ', "_"),
            ScOp::RetHand(k) => format!("ret_hand{k}"),
            ScOp::TakeHand(k) => format!("take_hand{k}"),
        }
    }
    fn resolve(&self, w: &UWorld) -> Option<USpec> {
        let hands = w.hand_ids();
        Some(match self {
            ScOp::Plain(s) => s.clone(),
            ScOp::RetHand(k) => USpec::Ret(*hands.get(*k)?),
            ScOp::TakeHand(k) => USpec::Take(*hands.get(*k)?),
        })
    }
}

/// the menu the scenarios are built from: a pool of max_size 2 holding one queued object and
/// one object in a caller's hands
pub fn scenario_menu() -> Vec<ScOp> {
    vec![
        ScOp::Plain(USpec::TryGet),
        ScOp::Plain(USpec::Get(Some(Tmo::None))),
        ScOp::RetHand(0),
        ScOp::TakeHand(0),
        ScOp::Plain(USpec::TryAdd),
        ScOp::Plain(USpec::Add),
        ScOp::Plain(USpec::Close),
        ScOp::Plain(USpec::TryRemove),
        ScOp::Plain(USpec::Status),
    ]
}

/// all 3-subsets of the menu, plus pairs of the same operation with a third one
pub fn scenarios() -> Vec<Vec<ScOp>> {
    let m = scenario_menu();
    let mut v = Vec::new();
    for a in 0..m.len() {
        for b in a + 1..m.len() {
            for c in b + 1..m.len() {
                v.push(vec![m[a].clone(), m[b].clone(), m[c].clone()]);
            }
        }
    }
    // two getters / two adders racing with a close or a return
    for x in [0usize, 1, 4, 5] {
        for y in [2usize, 6] {
            if !matches!(m[x], ScOp::RetHand(_) | ScOp::TakeHand(_)) {
                v.push(vec![m[x].clone(), m[x].clone(), m[y].clone()]);
            }
        }
    }
    v
}

/// one schedule of a scenario: follows `path` (choice index at every decision, 0 beyond its end);
/// returns the trace, the choices taken and the number of options at every decision
fn run_schedule(ops: &[ScOp], path: &[usize], budget: usize) -> (UTrace, Vec<usize>, Vec<usize>) {
    let cfg = UCfg { max: 2, init: 0, rt: true, tmo: Tmo::None, ctor: "new".into() };
    let mut t = UTrace { lines: vec![cfg.line()], error: None };
    let mut w = UWorld::new(cfg);
    let (mut taken, mut widths) = (Vec::new(), Vec::new());
    t.lines.push("# setup".into());
    for s in [USpec::TryAdd, USpec::TryAdd, USpec::TryGet] {
        if !run_alone(&mut w, s, &mut t) {
            std::mem::forget(w);
            return (t, taken, widths);
        }
    }
    t.lines.push("# main".into());
    // starting an operation is a scheduling decision like any other step: an operation may
    // begin after another one has run to its end
    let mut pending: Vec<ScOp> = ops.to_vec();
    let mut mine: Vec<usize> = Vec::new();
    let mut last: Option<usize> = None;
    let mut left = budget;
    #[derive(Clone, Copy, PartialEq)]
    enum Choice {
        Step(usize),
        Start(usize),
    }
    for _ in 0..400 {
        let enabled: Vec<usize> = mine
            .iter()
            .copied()
            .filter(|i| {
                let op = w.sched.op(*i);
                !op.done && !(op.susp && !w.woken(*i)) && w.enabled(*i).contains(&Outcome::Run)
            })
            .collect();
        let mut all: Vec<Choice> = enabled.iter().map(|i| Choice::Step(*i)).collect();
        for k in 0..pending.len() {
            if pending[k].resolve(&w).is_some() {
                all.push(Choice::Start(k));
            }
        }
        if all.is_empty() {
            break;
        }
        // with no preemption left the running operation goes on for as long as it can
        let options: Vec<Choice> = match last {
            Some(l) if left == 0 && enabled.contains(&l) => vec![Choice::Step(l)],
            _ => all.clone(),
        };
        let d = taken.len();
        let c = path.get(d).copied().unwrap_or(0).min(options.len() - 1);
        taken.push(c);
        widths.push(options.len());
        let choice = options[c];
        if let Some(l) = last {
            if choice != Choice::Step(l) && enabled.contains(&l) {
                left = left.saturating_sub(1);
            }
        }
        match choice {
            Choice::Step(i) => {
                last = Some(i);
                if !act(&mut w, &UAction::Step(i, Outcome::Run), &mut t) {
                    std::mem::forget(w);
                    return (t, taken, widths);
                }
            }
            Choice::Start(k) => {
                let spec = pending.remove(k).resolve(&w).unwrap();
                if !act(&mut w, &UAction::Start(spec), &mut t) {
                    std::mem::forget(w);
                    return (t, taken, widths);
                }
                let i = w.sched.n_ops() - 1;
                mine.push(i);
                last = Some(i);
            }
        }
    }
    (finish_trace(w, t), taken, widths)
}

/// every schedule of the scenario with at most `budget` preemptions (depth-first), at most `limit`
pub fn exhaust(ops: &[ScOp], budget: usize, limit: usize, mut emit: impl FnMut(&UTrace, &str)) -> usize {
    let name: Vec<String> = ops.iter().map(|o| o.name()).collect();
    let mut path: Vec<usize> = Vec::new();
    let mut n = 0usize;
    loop {
        let (t, taken, widths) = run_schedule(ops, &path, budget);
        n += 1;
        emit(&t, &format!("scenario={} budget={} schedule={}", name.join("+"), budget, n));
        if t.error.as_deref().map(|e| e.starts_with("HANG")).unwrap_or(false) || n >= limit {
            return n;
        }
        // next schedule: flip the deepest decision that has an untried option
        let mut d = taken.len();
        loop {
            if d == 0 {
                return n;
            }
            d -= 1;
            if taken[d] + 1 < widths[d] {
                path = taken[..d].to_vec();
                path.push(taken[d] + 1);
                break;
            }
        }
    }
}

pub fn replay(lines: &[String]) -> UTrace {
    let mut t = UTrace {
        lines: vec![],
        error: None,
    };
    let mut w: Option<UWorld> = None;
    for l in lines {
        let l = l.trim();
        if l.is_empty() || l.starts_with("obs") || l.starts_with("error") || l.starts_with("trace") || l == "end" {
            continue;
        }
        if l.starts_with('#') {
            t.lines.push(l.to_string());
            continue;
        }
        let ws: Vec<&str> = l.split_whitespace().collect();
        if ws[0] == "cfg" {
            match UCfg::parse(&ws[2..]) {
                Some(c) => {
                    t.lines.push(c.line());
                    w = Some(UWorld::new(c));
                }
                None => {
                    t.error = Some("bad cfg".into());
                    return t;
                }
            }
            continue;
        }
        let Some(a) = UAction::parse(l) else {
            t.error = Some(format!("bad action line: {}", l));
            return t;
        };
        let Some(wr) = w.as_mut() else {
            t.error = Some("action before cfg".into());
            return t;
        };
        if !act(wr, &a, &mut t) {
            if let Some(w) = w.take() {
                std::mem::forget(w);
            }
            return t;
        }
    }
    if let Some(mut wr) = w.take() {
        if !wr.unfinished().is_empty() {
            t.lines.push("# drain".into());
            if !drain(&mut wr, &mut t) {
                std::mem::forget(wr);
                return t;
            }
        }
        wr.finish();
    }
    t
}
