//! The real managed pool under the controlled scheduler.

use std::{
    collections::{BTreeMap, BTreeSet},
    future::Future,
    panic::{catch_unwind, AssertUnwindSafe},
    pin::Pin,
    sync::{atomic::Ordering, Arc, Mutex},
    task::{Context, Poll},
    thread::JoinHandle,
    time::Duration,
};

use deadpool::managed::{
    Hook, HookError, Manager, Metrics, Object, Pool, PoolConfig, PoolError, QueueMode,
    RecycleError, RecycleResult, TimeoutType, Timeouts,
};
use deadpool::Runtime;

use crate::sched::{self, flag_waker, Ctx, Outcome, Sched};

pub const FINITE: Duration = Duration::from_secs(10);

#[derive(Clone, Copy, Debug, PartialEq, Eq)]
pub enum Tmo {
    None,
    Zero,
    Finite,
    /// the longest duration there is (`Duration::MAX`): a finite timeout whose deadline is never
    /// reached - deadline arithmetic must not overflow
    Huge,
}

impl Tmo {
    pub fn ch(self) -> char {
        match self {
            Tmo::None => 'n',
            Tmo::Zero => 'z',
            Tmo::Finite => 'f',
            Tmo::Huge => 'h',
        }
    }
    pub fn parse(s: &str) -> Option<Tmo> {
        Some(match s {
            "n" => Tmo::None,
            "z" => Tmo::Zero,
            "f" => Tmo::Finite,
            "h" => Tmo::Huge,
            _ => return None,
        })
    }
    pub fn dur(self) -> Option<Duration> {
        match self {
            Tmo::None => None,
            Tmo::Zero => Some(Duration::ZERO),
            Tmo::Finite => Some(FINITE),
            Tmo::Huge => Some(Duration::MAX),
        }
    }
}

#[derive(Clone, Debug)]
pub struct Cfg {
    pub max: usize,
    pub lifo: bool,
    pub pre: Vec<bool>,
    pub postr: Vec<bool>,
    pub postc: Vec<bool>,
    pub rt: bool,
    /// pool-level timeouts (wait, create, recycle) given to the builder; `Pool::get()` uses them
    pub pt: [Tmo; 3],
}

fn hooks_str(h: &[bool]) -> String {
    if h.is_empty() {
        "-".into()
    } else {
        h.iter().map(|a| if *a { 'A' } else { 'S' }).collect()
    }
}

fn parse_hooks(s: &str) -> Vec<bool> {
    if s == "-" {
        vec![]
    } else {
        s.chars().map(|c| c == 'A').collect()
    }
}

impl Cfg {
    pub fn line(&self) -> String {
        let mut l = format!(
            "cfg managed max={} mode={} pre={} postr={} postc={} rt={}",
            self.max,
            if self.lifo { "lifo" } else { "fifo" },
            hooks_str(&self.pre),
            hooks_str(&self.postr),
            hooks_str(&self.postc),
            if self.rt { 1 } else { 0 }
        );
        if self.pt != [Tmo::None; 3] {
            l.push_str(&format!(" pt={}{}{}", self.pt[0].ch(), self.pt[1].ch(), self.pt[2].ch()));
        }
        l
    }
    pub fn parse(ws: &[&str]) -> Option<Cfg> {
        let mut c = Cfg {
            max: 0,
            lifo: false,
            pre: vec![],
            postr: vec![],
            postc: vec![],
            rt: false,
            pt: [Tmo::None; 3],
        };
        for w in ws {
            let (k, v) = w.split_once('=')?;
            match k {
                "max" => c.max = v.parse().ok()?,
                "mode" => c.lifo = v == "lifo",
                "pre" => c.pre = parse_hooks(v),
                "postr" => c.postr = parse_hooks(v),
                "postc" => c.postc = parse_hooks(v),
                "rt" => c.rt = v == "1",
                "pt" => {
                    let ch: Vec<char> = v.chars().collect();
                    if ch.len() != 3 {
                        return None;
                    }
                    for (k, x) in ch.iter().enumerate() {
                        c.pt[k] = Tmo::parse(&x.to_string())?;
                    }
                }
                _ => return None,
            }
        }
        Some(c)
    }
}

/// Ground truth shared by all tracked objects.
pub struct Truth {
    pub live: Mutex<BTreeSet<u64>>,
    pub next_id: Mutex<u64>,
    /// handle on the pool under test, for the scripted manager's lock probe (set after
    /// `build()`, cleared when the `World` goes away)
    pub pool: Mutex<Option<Pool<Mgr>>>,
}

/// The pooled value. Constructor and destructor write the ground truth.
pub struct Tracked {
    pub id: u64,
    truth: Arc<Truth>,
    sched: Arc<Sched>,
    /// handed over to a caller (take / retain): no longer the pool's object
    pub released: bool,
}

impl Tracked {
    fn new(truth: &Arc<Truth>, sched: &Arc<Sched>) -> Self {
        let id = {
            let mut n = truth.next_id.lock().unwrap();
            let id = *n;
            *n += 1;
            id
        };
        truth.live.lock().unwrap().insert(id);
        Tracked {
            id,
            truth: truth.clone(),
            sched: sched.clone(),
            released: false,
        }
    }
    pub fn release(&mut self) {
        self.released = true;
        self.truth.live.lock().unwrap().remove(&self.id);
    }
}

impl Drop for Tracked {
    fn drop(&mut self) {
        if !self.released {
            self.truth.live.lock().unwrap().remove(&self.id);
            self.sched.event(format!("destroy({},{})", cur_op(), self.id));
        }
    }
}

pub fn show_obj(sched: &Sched, id: u64, m: &Metrics) -> String {
    // the accessors must tell the same story as the fields they are computed from: `age()` is
    // the time since `created`, `last_used()` the time since `recycled` (since `created` before
    // the first reuse). `Instant` is monotonic, so each reading lies between two readings of
    // the field taken around it - whatever the load on the machine
    let c0 = m.created.elapsed();
    let age = m.age();
    let c1 = m.created.elapsed();
    let base = m.recycled.unwrap_or(m.created);
    let l0 = base.elapsed();
    let used = m.last_used();
    let l1 = base.elapsed();
    if age < c0 || age > c1 {
        sched.event(format!("accessor({},{},age)", cur_op(), id));
    }
    if used < l0 || used > l1 {
        sched.event(format!("accessor({},{},last_used)", cur_op(), id));
    }
    format!(
        "{}:{}:{}:{}",
        id,
        m.recycle_count,
        sched.time_of(m.created),
        match m.recycled {
            None => "-".to_string(),
            Some(t) => sched.time_of(t).to_string(),
        }
    )
}

/// A callback of the scripted environment: parks at its label on first poll
/// and asks the controller for the outcome.
pub struct Scripted {
    label: String,
    event: Option<String>,
    is_async: bool,
    started: bool,
    sched: Arc<Sched>,
}

impl Scripted {
    fn new(sched: &Arc<Sched>, label: String, event: String, is_async: bool) -> Self {
        Scripted {
            label,
            event: Some(event),
            is_async,
            started: false,
            sched: sched.clone(),
        }
    }
    /// Ok(true) = ok, Ok(false) = err, Err(()) = pending
    fn decide(&mut self) -> Result<bool, ()> {
        let oc = if !self.started {
            self.started = true;
            match sched::ctx() {
                Some(c) => {
                    if let Some(e) = self.event.take() {
                        c.sched.event(e);
                    }
                    c.sched.yield_at(c.op, &self.label, false, self.is_async)
                }
                None => {
                    // called outside any scheduled operation: still goes on record
                    if let Some(e) = self.event.take() {
                        self.sched.event(e);
                    }
                    Outcome::Ok
                }
            }
        } else {
            sched::take_next().unwrap_or(Outcome::Pending)
        };
        match oc {
            Outcome::Ok => Ok(true),
            Outcome::Err => Ok(false),
            Outcome::Pending => Err(()),
            Outcome::Panic => panic!("scripted panic"),
            o => panic!("harness bug: outcome {:?} at callback {}", o, self.label),
        }
    }
}

impl Future for Scripted {
    type Output = bool;
    fn poll(mut self: Pin<&mut Self>, _cx: &mut Context<'_>) -> Poll<bool> {
        match self.decide() {
            Ok(b) => Poll::Ready(b),
            Err(()) => Poll::Pending,
        }
    }
}

pub struct Mgr {
    truth: Arc<Truth>,
    sched: Arc<Sched>,
}

thread_local! {
    /// set by the schedule hook when the controller answered `panic` at a `*.detach` point:
    /// the next `Manager::detach` on this thread panics
    static DETACH_PANICS: std::cell::Cell<bool> = const { std::cell::Cell::new(false) };
}

fn cur_op() -> usize {
    sched::ctx().map(|c| c.op).unwrap_or(usize::MAX)
}

impl Manager for Mgr {
    type Type = Tracked;
    type Error = ();

    fn create(&self) -> impl Future<Output = Result<Tracked, ()>> + Send {
        let truth = self.truth.clone();
        let sched = self.sched.clone();
        async move {
            let ok = Scripted::new(&sched, "create".into(), format!("create({})", cur_op()), true).await;
            if ok {
                Ok(Tracked::new(&truth, &sched))
            } else {
                Err(())
            }
        }
    }

    fn recycle(
        &self,
        obj: &mut Tracked,
        metrics: &Metrics,
    ) -> impl Future<Output = RecycleResult<()>> + Send {
        let id = obj.id;
        let m = *metrics;
        let sched = self.sched.clone();
        async move {
            let ev = format!("recycle({},0,{})", cur_op(), show_obj(&sched, id, &m));
            let ok = Scripted::new(&sched, "recycle".into(), ev, true).await;
            if ok {
                Ok(())
            } else {
                Err(RecycleError::Backend(()))
            }
        }
    }

    fn detach(&self, obj: &mut Tracked) {
        let op = cur_op();
        // `close()`, the shrink loop of `resize()` and `retain()` detach the objects they
        // release inside their critical section (one atomic step of the model): a try_lock
        // from here must fail
        if op < self.sched.n_ops() {
            let lbl = self.sched.op(op).label;
            if lbl == "close.lock" || lbl == "resize.shrink" || lbl == "retain" {
                if let Some(p) = self.truth.pool.lock().unwrap().as_ref() {
                    if p.verif_snapshot(|_, _| {}).slots.is_some() {
                        // the critical section is broken: record it (the model has no such
                        // event, so the correspondence diverges here) and make the window a
                        // schedule point, so that other operations really run inside it and
                        // the monitors can see what that does
                        self.sched.event(format!("atomicity({},detach@{})", op, lbl));
                        let c = self.sched.yield_at(op, "cs-break", false, false);
                        assert_eq!(c, Outcome::Run, "non-run command at cs-break");
                    }
                }
            }
        }
        // the other way round: on the paths where the pool lets go of a single object (a rejected
        // or abandoned unready object, a surplus return, `Object::take`) the model - and the
        // unchanged code - call `Manager::detach` with the slots mutex released; if it is held
        // here (and no resize paused in its critical section can be the holder), a detach that
        // touches the pool dead-locks and one that panics poisons the pool
        if op < self.sched.n_ops() {
            let lbl = self.sched.op(op).label;
            if lbl.ends_with(".detach") {
                let n = self.sched.n_ops();
                let other_holds = (0..n).any(|j| {
                    let l = self.sched.op(j).label;
                    j != op && (l == "resize.shrink" || l == "resize.grow" || l == "cs-break")
                });
                if !other_holds {
                    if let Some(p) = self.truth.pool.lock().unwrap().as_ref() {
                        if p.verif_snapshot(|_, _| {}).slots.is_none() {
                            self.sched.event(format!("atomicity({},locked@{})", op, lbl));
                        }
                    }
                }
            }
        }
        self.sched.event(format!("detach({},{})", op, obj.id));
        if DETACH_PANICS.with(|f| f.replace(false)) {
            panic!("scripted panic in Manager::detach");
        }
    }
}

fn make_hook(sched: &Arc<Sched>, name: &'static str, k: usize, is_async: bool) -> Hook<Mgr> {
    let sched = sched.clone();
    if is_async {
        Hook::async_fn(move |obj: &mut Tracked, m: &Metrics| {
            let ev = format!("{}({},{},{})", name, cur_op(), k, show_obj(&sched, obj.id, m));
            let fut = Scripted::new(&sched, format!("{}[{}]", name, k), ev, true);
            // both variants of `HookError` are used
            let backend = (k as u64 + obj.id) % 2 == 0;
            Box::pin(async move {
                if fut.await {
                    Ok(())
                } else if backend {
                    Err(HookError::Backend(()))
                } else {
                    Err(HookError::message("scripted"))
                }
            })
        })
    } else {
        Hook::sync_fn(move |obj: &mut Tracked, m: &Metrics| {
            let ev = format!("{}({},{},{})", name, cur_op(), k, show_obj(&sched, obj.id, m));
            let mut s = Scripted::new(&sched, format!("{}[{}]", name, k), ev, false);
            match s.decide() {
                Ok(true) => Ok(()),
                Ok(false) if (k as u64 + obj.id) % 2 == 0 => Err(HookError::Backend(())),
                Ok(false) => Err(HookError::message("scripted")),
                Err(()) => panic!("harness bug: pending for a sync hook"),
            }
        })
    }
}

/// `PoolBuilder::build()` with pool-level timeouts; also checks that a pool that was
/// built reports the configured timeouts.
/// One sequence of `PoolBuilder` configuration calls (tokens of the line protocol), built with
/// a runtime; returns what the built pool reports.
pub fn builder_row(calls: &[String]) -> String {
    // (a manager with `Debug`, so that the built pool's queue mode can be read off its Debug output)
    #[derive(Debug)]
    struct DbgMgr;
    impl Manager for DbgMgr {
        type Type = u32;
        type Error = ();
        async fn create(&self) -> Result<u32, ()> {
            Ok(0)
        }
        async fn recycle(&self, _: &mut u32, _: &Metrics) -> deadpool::managed::RecycleResult<()> {
            Ok(())
        }
    }
    let od = |x: &str| -> Option<Duration> { if x == "-" { None } else { Some(Duration::from_millis(x.parse().unwrap())) } };
    let qm = |x: &str| if x == "l" { QueueMode::Lifo } else { QueueMode::Fifo };
    let mut b = Pool::<DbgMgr>::builder(DbgMgr).runtime(Runtime::Tokio1);
    for c in calls {
        let (k, v) = c.split_once(':').unwrap();
        b = match k {
            "m" => b.max_size(v.parse().unwrap()),
            "w" => b.wait_timeout(od(v)),
            "c" => b.create_timeout(od(v)),
            "r" => b.recycle_timeout(od(v)),
            "q" => b.queue_mode(qm(v)),
            "T" => {
                let p: Vec<&str> = v.split(',').collect();
                b.timeouts(Timeouts { wait: od(p[0]), create: od(p[1]), recycle: od(p[2]) })
            }
            _ => {
                let p: Vec<&str> = v.split(',').collect();
                b.config(PoolConfig {
                    max_size: p[0].parse().unwrap(),
                    timeouts: Timeouts { wait: od(p[1]), create: od(p[2]), recycle: od(p[3]) },
                    queue_mode: qm(p[4]),
                })
            }
        };
    }
    match b.build() {
        Err(_) => "builder build-error".to_string(),
        Ok(p) => {
            let t = p.timeouts();
            let sh = |d: Option<Duration>| d.map(|d| d.as_millis().to_string()).unwrap_or("-".into());
            let dbg = format!("{:?}", p);
            let q = if dbg.contains("queue_mode: Lifo") { "lifo" } else if dbg.contains("queue_mode: Fifo") { "fifo" } else { "unobserved" };
            format!("builder max={} w={} c={} r={} qm={}", p.status().max_size, sh(t.wait), sh(t.create), sh(t.recycle), q)
        }
    }
}

pub fn try_build(w: Tmo, c: Tmo, r: Tmo, rt: bool) -> &'static str {
    let sched = Sched::new();
    let truth = Arc::new(Truth {
        live: Mutex::new(BTreeSet::new()),
        next_id: Mutex::new(0),
        pool: Mutex::new(None),
    });
    let mgr = Mgr { truth, sched };
    let t = Timeouts {
        wait: w.dur(),
        create: c.dur(),
        recycle: r.dur(),
    };
    let mut b = Pool::<Mgr>::builder(mgr).config(PoolConfig {
        max_size: 2,
        timeouts: t,
        queue_mode: QueueMode::Fifo,
    });
    if rt {
        b = b.runtime(Runtime::Tokio1);
    }
    match b.build() {
        Ok(p) => {
            let got = p.timeouts();
            if got.wait == t.wait && got.create == t.create && got.recycle == t.recycle && p.status().max_size == 2 {
                "ok"
            } else {
                "ok-but-config-changed"
            }
        }
        Err(deadpool::managed::BuildError::NoRuntimeSpecified) => "no_runtime",
    }
}

#[derive(Clone, Debug)]
pub enum Spec {
    Get(Tmo, Tmo, Tmo),
    /// `Pool::get()`: the pool-level timeouts of the configuration
    GetDefault,
    Ret(u64),
    /// the object is dropped while its holder is unwinding from a panic
    RetUnwind(u64),
    Take(u64),
    Resize(usize),
    Close,
    Retain(Vec<bool>),
    Status,
}

impl Spec {
    pub fn line(&self) -> String {
        match self {
            Spec::Get(w, c, r) => format!("start get {} {} {}", w.ch(), c.ch(), r.ch()),
            Spec::GetDefault => "start get d".into(),
            Spec::Ret(id) => format!("start ret {}", id),
            Spec::RetUnwind(id) => format!("start ret {} unwinding", id),
            Spec::Take(id) => format!("start take {}", id),
            Spec::Resize(n) => format!("start resize {}", n),
            Spec::Close => "start close".into(),
            Spec::Retain(b) => format!(
                "start retain {}",
                if b.is_empty() {
                    "-".to_string()
                } else {
                    b.iter().map(|x| if *x { '1' } else { '0' }).collect()
                }
            ),
            Spec::Status => "start status".into(),
        }
    }
    pub fn parse(ws: &[&str]) -> Option<Spec> {
        Some(match ws {
            ["get", "d"] => Spec::GetDefault,
            ["get", w, c, r] => Spec::Get(Tmo::parse(w)?, Tmo::parse(c)?, Tmo::parse(r)?),
            ["ret", id] => Spec::Ret(id.parse().ok()?),
            ["ret", id, "unwinding"] => Spec::RetUnwind(id.parse().ok()?),
            ["take", id] => Spec::Take(id.parse().ok()?),
            ["resize", n] => Spec::Resize(n.parse().ok()?),
            ["close"] => Spec::Close,
            ["retain", b] => Spec::Retain(if *b == "-" {
                vec![]
            } else {
                b.chars().map(|c| c == '1').collect()
            }),
            ["status"] => Spec::Status,
            _ => return None,
        })
    }
}

#[derive(Clone, Debug)]
pub enum Action {
    Start(Spec),
    Step(usize, Outcome),
}

impl Action {
    pub fn line(&self) -> String {
        match self {
            Action::Start(s) => s.line(),
            Action::Step(i, o) => format!("step {} {}", i, o.name()),
        }
    }
    pub fn parse(line: &str) -> Option<Action> {
        let ws: Vec<&str> = line.split_whitespace().collect();
        match ws.as_slice() {
            ["start", rest @ ..] => Some(Action::Start(Spec::parse(rest)?)),
            ["step", i, o] => Some(Action::Step(i.parse().ok()?, Outcome::parse(o)?)),
            _ => None,
        }
    }
}

#[derive(Clone, Debug, PartialEq, Eq)]
pub enum OpKind {
    Get(Tmo, Tmo, Tmo),
    Ret,
    Take,
    Resize,
    Close,
    Retain,
    Status,
}

type Out = Arc<Mutex<BTreeMap<u64, Object<Mgr>>>>;

pub struct World {
    pub cfg: Cfg,
    pub sched: Arc<Sched>,
    pub truth: Arc<Truth>,
    pub pool: Pool<Mgr>,
    pub out: Out,
    /// values handed over to callers by take / retain
    pub released: Arc<Mutex<Vec<Tracked>>>,
    pub kinds: Vec<OpKind>,
    /// the operation is unwinding from a panic (scripted callback panic, return while the
    /// holder unwinds)
    pub unwinding: Vec<bool>,
    pub wakers: Vec<Option<Arc<sched::FlagWaker>>>,
    threads: Vec<JoinHandle<()>>,
    pub n_actions: usize,
}

fn needs_lock(label: &str) -> bool {
    matches!(
        label,
        "get.pop"
            | "create.size"
            | "unready.lock"
            | "ret.lock"
            | "take.lock"
            | "retain"
            | "status"
            | "resize.lock"
            | "close.lock"
    )
}

fn is_cb(label: &str) -> bool {
    label == "create"
        || label == "recycle"
        || label.starts_with("pre_recycle[")
        || label.starts_with("post_recycle[")
        || label.starts_with("post_create[")
}

fn show_err(e: &PoolError<()>) -> &'static str {
    match e {
        PoolError::Timeout(TimeoutType::Wait) => "timeout_wait",
        PoolError::Timeout(TimeoutType::Create) => "timeout_create",
        PoolError::Timeout(TimeoutType::Recycle) => "timeout_recycle",
        PoolError::Backend(()) => "backend",
        PoolError::Closed => "closed",
        PoolError::NoRuntimeSpecified => "no_runtime",
        PoolError::PostCreateHook(_) => "post_create_hook",
    }
}

impl Drop for World {
    fn drop(&mut self) {
        *self.truth.pool.lock().unwrap() = None;
    }
}

impl World {
    pub fn new(cfg: Cfg) -> World {
        let sched = Sched::new();
        let truth = Arc::new(Truth {
            live: Mutex::new(BTreeSet::new()),
            next_id: Mutex::new(0),
            pool: Mutex::new(None),
        });
        let mgr = Mgr {
            truth: truth.clone(),
            sched: sched.clone(),
        };
        let mode = if cfg.lifo { QueueMode::Lifo } else { QueueMode::Fifo };
        // the same configuration reached through different builder calls / call orders
        // (a deterministic function of the configuration, so that replays agree)
        let style = (cfg.max + cfg.pre.len() + 2 * cfg.postr.len() + 3 * cfg.postc.len() + cfg.lifo as usize) % 4;
        let mut b = Pool::<Mgr>::builder(mgr);
        let pt = Timeouts { wait: cfg.pt[0].dur(), create: cfg.pt[1].dur(), recycle: cfg.pt[2].dur() };
        b = match style {
            0 if !cfg.lifo && cfg.max % 2 == 0 => b.config(PoolConfig { max_size: cfg.max, timeouts: pt, ..PoolConfig::new(cfg.max) }),
            0 => b.config(PoolConfig { max_size: cfg.max, timeouts: pt, queue_mode: mode }),
            // Fifo is the documented default: this style relies on it instead of naming it
            1 if !cfg.lifo => b.max_size(cfg.max).timeouts(pt),
            1 => b.max_size(cfg.max).queue_mode(mode).timeouts(pt),
            2 => b.create_timeout(pt.create).queue_mode(mode).recycle_timeout(pt.recycle).max_size(cfg.max).wait_timeout(pt.wait),
            _ => b.queue_mode(mode).timeouts(Timeouts::new()).max_size(cfg.max).wait_timeout(pt.wait).create_timeout(pt.create).recycle_timeout(pt.recycle),
        };
        if cfg.rt {
            b = b.runtime(Runtime::Tokio1);
        }
        for (k, a) in cfg.pre.iter().enumerate() {
            b = b.pre_recycle(make_hook(&sched, "pre_recycle", k, *a));
        }
        for (k, a) in cfg.postr.iter().enumerate() {
            b = b.post_recycle(make_hook(&sched, "post_recycle", k, *a));
        }
        for (k, a) in cfg.postc.iter().enumerate() {
            b = b.post_create(make_hook(&sched, "post_create", k, *a));
        }
        let pool = b.build().expect("build");
        *truth.pool.lock().unwrap() = Some(pool.clone());
        World {
            cfg,
            sched,
            truth,
            pool,
            out: Arc::new(Mutex::new(BTreeMap::new())),
            released: Arc::new(Mutex::new(Vec::new())),
            kinds: Vec::new(),
            unwinding: Vec::new(),
            wakers: Vec::new(),
            threads: Vec::new(),
            n_actions: 0,
        }
    }

    pub fn out_ids(&self) -> Vec<u64> {
        self.out.lock().unwrap().keys().copied().collect()
    }

    /// The op that currently owns the slots mutex across steps (resize / close).
    pub fn lock_owner(&self) -> Option<usize> {
        for i in 0..self.sched.n_ops() {
            let op = self.sched.op(i);
            if !op.done && (op.label == "resize.shrink" || op.label == "resize.grow") {
                return Some(i);
            }
        }
        None
    }

    /// Outcomes the harness may send to op `i` now.
    pub fn enabled(&self, i: usize) -> Vec<Outcome> {
        let op = self.sched.op(i);
        if op.done {
            return vec![];
        }
        let lbl = op.label.as_str();
        if needs_lock(lbl) && self.lock_owner().is_some() {
            return vec![];
        }
        if is_cb(lbl) {
            let mut v = vec![Outcome::Ok, Outcome::Err, Outcome::Panic];
            if op.cb_async {
                v.push(Outcome::Pending);
            }
            if op.susp {
                v.push(Outcome::Cancel);
                if self.cfg.rt {
                    if let OpKind::Get(_, c, r) = &self.kinds[i] {
                        if (lbl == "create" && *c == Tmo::Finite)
                            || (lbl == "recycle" && *r == Tmo::Finite)
                        {
                            v.push(Outcome::Deadline);
                        }
                    }
                }
            }
            return v;
        }
        // `Manager::detach` may panic where that cannot abort the process: not while the
        // operation is already unwinding (a panicking callback, a return during unwinding)
        if (lbl == "ret.detach" || lbl == "take.detach" || lbl == "unready.detach") && !self.unwinding[i] {
            return vec![Outcome::Run, Outcome::Panic];
        }
        if lbl == "get.acquire" && op.susp {
            let mut v = vec![Outcome::Run, Outcome::Cancel];
            if let OpKind::Get(w, _, _) = &self.kinds[i] {
                if *w == Tmo::Finite && self.cfg.rt {
                    v.push(Outcome::Deadline);
                }
            }
            return v;
        }
        vec![Outcome::Run]
    }

    pub fn start(&mut self, spec: &Spec) -> Result<usize, String> {
        let sched = self.sched.clone();
        let pool = self.pool.clone();
        let out = self.out.clone();
        let released = self.released.clone();
        let (label, kind) = match spec {
            Spec::Get(w, c, r) => ("get.enter", OpKind::Get(*w, *c, *r)),
            Spec::GetDefault => ("get.enter", OpKind::Get(self.cfg.pt[0], self.cfg.pt[1], self.cfg.pt[2])),
            Spec::Ret(_) | Spec::RetUnwind(_) => ("ret.users", OpKind::Ret),
            Spec::Take(_) => ("take.users", OpKind::Take),
            Spec::Resize(_) => ("resize.enter", OpKind::Resize),
            Spec::Close => ("close.enter", OpKind::Close),
            Spec::Retain(_) => ("retain", OpKind::Retain),
            Spec::Status => ("status", OpKind::Status),
        };
        // objects leave the callers' hands when the operation starts
        let obj = match spec {
            Spec::Ret(id) | Spec::RetUnwind(id) | Spec::Take(id) => Some(
                self.out
                    .lock()
                    .unwrap()
                    .remove(id)
                    .ok_or_else(|| format!("object {} is not out", id))?,
            ),
            _ => None,
        };
        let i = sched.add_op(label);
        self.kinds.push(kind);
        self.unwinding.push(matches!(spec, Spec::RetUnwind(_)));
        let (flag, waker) = flag_waker();
        self.wakers.push(Some(flag.clone()));
        let spec = spec.clone();
        let h = std::thread::Builder::new()
            .name(format!("op{}", i))
            .spawn(move || {
                sched::set_ctx(Some(Ctx {
                    sched: sched.clone(),
                    op: i,
                }));
                {
                    let sched = sched.clone();
                    deadpool::verif::set_thread_hook(Some(Box::new(move |label| {
                        let c = sched.yield_at(i, label, false, false);
                        if c == Outcome::Panic && label.ends_with(".detach") {
                            DETACH_PANICS.with(|f| f.set(true));
                        } else {
                            assert_eq!(c, Outcome::Run, "non-run command at point {}", label);
                        }
                    })));
                }
                let first = sched.wait_first(i);
                assert_eq!(first, Outcome::Run);
                let r = catch_unwind(AssertUnwindSafe(|| match spec {
                    Spec::Get(..) | Spec::GetDefault => {
                        let explicit = match spec {
                            // the convenience constructor is another way to say "wait only"
                            Spec::Get(w, Tmo::None, Tmo::None) if i % 2 == 0 && matches!(w, Tmo::Zero | Tmo::Finite) => {
                                Some(Timeouts::wait_millis(w.dur().unwrap().as_millis() as u64))
                            }
                            Spec::Get(w, c, r) => Some(Timeouts {
                                wait: w.dur(),
                                create: c.dur(),
                                recycle: r.dur(),
                            }),
                            _ => None,
                        };
                        let rt = tokio::runtime::Builder::new_current_thread()
                            .enable_time()
                            .start_paused(true)
                            .build()
                            .unwrap();
                        let res: Result<Object<Mgr>, String> = rt.block_on(async {
                            // off the millisecond grid of the timer wheel (see unmanaged.rs) - unless a
                            // zero create / recycle timeout is in force: those legitimately go through
                            // the runtime's timer ("one poll, then Elapsed" holds on the grid; off it the
                            // timer needs the clock to move, which a hand-driven future never lets it)
                            let eff = explicit.unwrap_or_else(|| pool.timeouts());
                            if eff.create != Some(Duration::ZERO) && eff.recycle != Some(Duration::ZERO) {
                                tokio::time::advance(Duration::from_micros(300)).await;
                            }
                            // `get()` (pool-level timeouts) or `timeout_get()` (per-call timeouts)
                            type Fut<'a> = std::pin::Pin<Box<dyn Future<Output = Result<Object<Mgr>, PoolError<()>>> + 'a>>;
                            let mut fut: Fut<'_> = match &explicit {
                                Some(t) => Box::pin(pool.timeout_get(t)),
                                None => Box::pin(pool.get()),
                            };
                            let mut cx = Context::from_waker(&waker);
                            loop {
                                flag.0.store(false, Ordering::SeqCst);
                                let r = catch_unwind(AssertUnwindSafe(|| fut.as_mut().poll(&mut cx)));
                                match r {
                                    Err(_) => break Err("panicked".to_string()),
                                    Ok(Poll::Ready(Ok(o))) => break Ok(o),
                                    Ok(Poll::Ready(Err(e))) => break Err(show_err(&e).to_string()),
                                    Ok(Poll::Pending) => {
                                        let cb_async = sched.op(i).cb_async;
                                        match sched.yield_at(i, "", true, cb_async) {
                                            Outcome::Run => {}
                                            Outcome::Cancel => {
                                                let r = catch_unwind(AssertUnwindSafe(|| drop(fut)));
                                                break Err(if r.is_ok() {
                                                    "cancelled".to_string()
                                                } else {
                                                    "panicked".to_string()
                                                });
                                            }
                                            Outcome::Deadline => {
                                                if is_cb(&sched.op(i).label) {
                                                    sched::set_next(Some(Outcome::Pending));
                                                }
                                                tokio::time::advance(FINITE + Duration::from_millis(1)).await;
                                            }
                                            o => sched::set_next(Some(o)),
                                        }
                                    }
                                }
                            }
                        });
                        match res {
                            Ok(mut o) => {
                                // the holder uses the object mutably (`DerefMut`, `AsMut`): that is
                                // no business of the metrics
                                {
                                    let t: &mut Tracked = &mut o;
                                    t.released = false;
                                    let t2: &mut Tracked = o.as_mut();
                                    t2.released = false;
                                }
                                let m = Object::metrics(&o);
                                sched.event(format!("handout({},{})", i, show_obj(&sched, o.id, m)));
                                sched.event(format!("result({},ok:{})", i, o.id));
                                out.lock().unwrap().insert(o.id, o);
                            }
                            Err(e) => sched.event(format!("result({},{})", i, e)),
                        }
                    }
                    Spec::Ret(_) => {
                        let mut o = obj.unwrap();
                        {
                            let t: &mut Tracked = &mut o;
                            t.released = false;
                        }
                        drop(o)
                    }
                    Spec::RetUnwind(_) => {
                        // the holder panics with the object in scope: `Object::drop` runs during
                        // the unwinding (it must behave like any other return)
                        let o = obj.unwrap();
                        let _ = std::panic::catch_unwind(std::panic::AssertUnwindSafe(move || {
                            let _held = o;
                            std::panic::panic_any("holder of the object panics");
                        }));
                    }
                    Spec::Take(_) => {
                        let mut v = Object::take(obj.unwrap());
                        sched.event(format!("taken({},{})", i, v.id));
                        v.release();
                        released.lock().unwrap().push(v);
                    }
                    Spec::Resize(n) => {
                        pool.resize(n);
                        sched.event(format!("resized({},{})", i, n));
                    }
                    Spec::Close => {
                        pool.close();
                        sched.event(format!("closed({})", i));
                    }
                    Spec::Retain(bits) => {
                        let mut k = 0usize;
                        let s2 = sched.clone();
                        let p2 = pool.clone();
                        let r = pool.retain(|obj, m| {
                            let keep = bits.get(k).copied().unwrap_or(true);
                            // the predicate runs under the slots mutex (the model's retain is
                            // one atomic step): a try_lock from here must fail
                            if p2.verif_snapshot(|_, _| {}).slots.is_some() {
                                s2.event(format!("atomicity({},retain)", i));
                                let c = s2.yield_at(i, "cs-break", false, false);
                                assert_eq!(c, Outcome::Run, "non-run command at cs-break");
                            }
                            s2.event(format!(
                                "pred({},{},{},{})",
                                i,
                                k,
                                show_obj(&s2, obj.id, &m),
                                if keep { 1 } else { 0 }
                            ));
                            k += 1;
                            keep
                        });
                        let ids: Vec<String> = r.removed.iter().map(|t| t.id.to_string()).collect();
                        sched.event(format!("retained({},{},[{}])", i, r.retained, ids.join(",")));
                        for mut t in r.removed {
                            t.release();
                            released.lock().unwrap().push(t);
                        }
                    }
                    Spec::Status => {
                        let s = pool.status();
                        sched.event(format!(
                            "status({},{},{},{},{})",
                            i, s.max_size, s.size, s.available, s.waiting
                        ));
                    }
                }));
                if r.is_err() {
                    sched.event(format!("oppanic({})", i));
                }
                deadpool::verif::set_thread_hook(None);
                sched::set_ctx(None);
                drop(pool);
                sched.finish(i);
            })
            .unwrap();
        self.threads.push(h);
        Ok(i)
    }

    /// Execute one action on the real code; returns the observation line.
    pub fn exec(&mut self, a: &Action) -> Result<String, String> {
        self.sched.stamp();
        self.n_actions += 1;
        let i = match a {
            Action::Start(spec) => self.start(spec)?,
            Action::Step(i, oc) => {
                if *i >= self.sched.n_ops() {
                    return Err(format!("no op {}", i));
                }
                if !self.enabled(*i).contains(oc) {
                    return Err(format!("action not enabled in the harness: {}", a.line()));
                }
                if *oc == Outcome::Panic {
                    self.unwinding[*i] = true;
                }
                if !self.sched.resume(*i, *oc) {
                    // blocked on the slots mutex that a paused operation owns (the model takes no
                    // lock in this step, so this is a correspondence break), or really hung?
                    let held = self.pool.verif_snapshot(|_, _| {}).slots.is_none();
                    let poisoned = self.pool.verif_poisoned();
                    return Err(match self.lock_owner() {
                        Some(j) if j != *i && held => format!(
                            "BLOCKED: op {} did not come back after `{}`: it waits for the slots mutex, which op {} holds at `{}` - the model takes no lock in this step",
                            i,
                            a.line(),
                            j,
                            self.sched.op(j).label
                        ),
                        None if held && !poisoned => format!(
                            "BLOCKED: op {} did not come back after `{}`: the slots mutex is held by an operation that is parked at a schedule point - a critical section spans a point where the model has none",
                            i,
                            a.line()
                        ),
                        _ => format!("HANG: op {} did not come back after `{}`", i, a.line()),
                    });
                }
                *i
            }
        };
        let obs = self.obs(i);
        if self.pool.verif_poisoned() {
            // kept in the trace as the last line before the error
            return Err(format!(
                "POISONED: a panic unwound through a critical section of the slots mutex; every later call on the pool panics: {}",
                obs
            ));
        }
        Ok(obs)
    }

    pub fn obs(&self, i: usize) -> String {
        let op = self.sched.op(i);
        let mut idle: Vec<String> = Vec::new();
        let sched = self.sched.clone();
        let snap = self
            .pool
            .verif_snapshot(|o, m| idle.push(show_obj(&sched, o.id, m)));
        let (size, max, idle_s) = match snap.slots {
            Some((s, m, _)) => (s.to_string(), m.to_string(), format!("[{}]", idle.join(","))),
            None => ("?".into(), "?".into(), "?".into()),
        };
        let out: Vec<String> = self.out_ids().iter().map(|x| x.to_string()).collect();
        let live: Vec<String> = self
            .truth
            .live
            .lock()
            .unwrap()
            .iter()
            .map(|x| x.to_string())
            .collect();
        let mut woken: Vec<String> = Vec::new();
        for j in 0..self.sched.n_ops() {
            let o = self.sched.op(j);
            if !o.done && o.susp && o.label == "get.acquire" {
                if let Some(f) = &self.wakers[j] {
                    if f.0.load(Ordering::SeqCst) {
                        woken.push(j.to_string());
                    }
                }
            }
        }
        let evs = self.sched.drain_events();
        format!(
            "obs op={} lbl={} susp={} permits={} closed={} users={} size={} max={} idle={} out=[{}] live=[{}] woken=[{}] fault=0 ev={}",
            i,
            op.label,
            if op.susp { 1 } else { 0 },
            snap.permits,
            if snap.closed { 1 } else { 0 },
            snap.users,
            size,
            max,
            idle_s,
            out.join(","),
            live.join(","),
            woken.join(","),
            evs.join(";")
        )
    }

    pub fn unfinished(&self) -> Vec<usize> {
        (0..self.sched.n_ops())
            .filter(|i| !self.sched.op(*i).done)
            .collect()
    }

    /// Tear down after a trace (not part of the trace): every worker must be finished.
    pub fn finish(mut self) {
        for h in std::mem::take(&mut self.threads) {
            let _ = h.join();
        }
        let out = std::mem::take(&mut *self.out.lock().unwrap());
        for (_, mut o) in out {
            o.released = true;
            drop(o);
        }
    }
}
