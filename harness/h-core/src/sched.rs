//! Baton scheduler: every logical pool operation runs on its own OS thread,
//! exactly one thread (a worker or the controller) runs at any time.

use std::{
    cell::RefCell,
    sync::{
        atomic::{AtomicBool, Ordering},
        Arc, Condvar, Mutex,
    },
    task::{Wake, Waker},
    time::{Duration, Instant},
};

#[derive(Clone, Copy, Debug, PartialEq, Eq)]
pub enum Outcome {
    Run,
    Ok,
    Err,
    Pending,
    Panic,
    Deadline,
    Cancel,
}

impl Outcome {
    pub fn name(self) -> &'static str {
        match self {
            Outcome::Run => "run",
            Outcome::Ok => "ok",
            Outcome::Err => "err",
            Outcome::Pending => "pending",
            Outcome::Panic => "panic",
            Outcome::Deadline => "deadline",
            Outcome::Cancel => "cancel",
        }
    }
    pub fn parse(s: &str) -> Option<Self> {
        Some(match s {
            "run" => Outcome::Run,
            "ok" => Outcome::Ok,
            "err" => Outcome::Err,
            "pending" => Outcome::Pending,
            "panic" => Outcome::Panic,
            "deadline" => Outcome::Deadline,
            "cancel" => Outcome::Cancel,
            _ => return None,
        })
    }
}

#[derive(Clone, Copy, Debug, PartialEq, Eq)]
enum Turn {
    Controller,
    Worker(usize),
}

#[derive(Debug, Default, Clone)]
pub struct OpState {
    pub label: String,
    pub susp: bool,
    pub done: bool,
    /// the callback the op is parked in may answer `Pending`
    pub cb_async: bool,
    cmd: Option<Outcome>,
}

struct Inner {
    turn: Turn,
    ops: Vec<OpState>,
    /// instant taken at the start of every action (index = action number)
    stamps: Vec<Instant>,
    events: Vec<String>,
}

pub struct Sched {
    m: Mutex<Inner>,
    cv: Condvar,
    pub hang: AtomicBool,
}

pub const HANG_TIMEOUT: Duration = Duration::from_secs(20);

impl Sched {
    pub fn new() -> Arc<Self> {
        Arc::new(Sched {
            m: Mutex::new(Inner {
                turn: Turn::Controller,
                ops: Vec::new(),
                stamps: Vec::new(),
                events: Vec::new(),
            }),
            cv: Condvar::new(),
            hang: AtomicBool::new(false),
        })
    }

    pub fn add_op(&self, label: &str) -> usize {
        let mut g = self.m.lock().unwrap();
        g.ops.push(OpState {
            label: label.to_string(),
            ..Default::default()
        });
        g.ops.len() - 1
    }

    pub fn op(&self, i: usize) -> OpState {
        self.m.lock().unwrap().ops[i].clone()
    }

    pub fn n_ops(&self) -> usize {
        self.m.lock().unwrap().ops.len()
    }

    pub fn event(&self, e: String) {
        self.m.lock().unwrap().events.push(e);
    }

    pub fn drain_events(&self) -> Vec<String> {
        std::mem::take(&mut self.m.lock().unwrap().events)
    }

    /// Called by the controller at the start of every action.
    pub fn stamp(&self) {
        // make the stamp strictly later than anything that happened before
        let b = Instant::now();
        let mut n = Instant::now();
        while n <= b {
            n = Instant::now();
        }
        self.m.lock().unwrap().stamps.push(n);
    }

    pub fn n_stamps(&self) -> usize {
        self.m.lock().unwrap().stamps.len()
    }

    /// Logical time of an instant: index of the action during which it was taken.
    pub fn time_of(&self, x: Instant) -> usize {
        let g = self.m.lock().unwrap();
        let mut k = 0;
        for (i, s) in g.stamps.iter().enumerate() {
            if *s <= x {
                k = i;
            } else {
                break;
            }
        }
        k
    }

    /// Worker side: first wait of a freshly started op.
    pub fn wait_first(&self, i: usize) -> Outcome {
        let mut g = self.m.lock().unwrap();
        while g.turn != Turn::Worker(i) {
            g = self.cv.wait(g).unwrap();
        }
        g.ops[i].cmd.take().expect("cmd")
    }

    /// Worker side: park at `label`, hand the baton to the controller, wait for
    /// the next command.
    pub fn yield_at(&self, i: usize, label: &str, susp: bool, cb_async: bool) -> Outcome {
        let mut g = self.m.lock().unwrap();
        {
            let op = &mut g.ops[i];
            if !label.is_empty() {
                op.label = label.to_string();
            }
            op.susp = susp;
            op.cb_async = cb_async;
        }
        g.turn = Turn::Controller;
        self.cv.notify_all();
        while g.turn != Turn::Worker(i) {
            g = self.cv.wait(g).unwrap();
        }
        g.ops[i].cmd.take().expect("cmd")
    }

    /// Worker side: the op is finished.
    pub fn finish(&self, i: usize) {
        let mut g = self.m.lock().unwrap();
        {
            let op = &mut g.ops[i];
            op.label = "done".to_string();
            op.susp = false;
            op.done = true;
        }
        g.turn = Turn::Controller;
        self.cv.notify_all();
    }

    /// Controller side: let op `i` run until it parks again. Returns false on
    /// a hang (the worker did not come back in time).
    pub fn resume(&self, i: usize, cmd: Outcome) -> bool {
        let mut g = self.m.lock().unwrap();
        g.ops[i].cmd = Some(cmd);
        g.turn = Turn::Worker(i);
        self.cv.notify_all();
        let start = Instant::now();
        while g.turn != Turn::Controller {
            let (g2, to) = self.cv.wait_timeout(g, Duration::from_millis(200)).unwrap();
            g = g2;
            if to.timed_out() && start.elapsed() > HANG_TIMEOUT {
                self.hang.store(true, Ordering::SeqCst);
                return false;
            }
        }
        // make every instant taken during this action strictly earlier than the next stamp
        true
    }
}

/// Waker that only records that it was woken.
pub struct FlagWaker(pub AtomicBool);

impl Wake for FlagWaker {
    fn wake(self: Arc<Self>) {
        self.0.store(true, Ordering::SeqCst);
    }
    fn wake_by_ref(self: &Arc<Self>) {
        self.0.store(true, Ordering::SeqCst);
    }
}

pub fn flag_waker() -> (Arc<FlagWaker>, Waker) {
    let f = Arc::new(FlagWaker(AtomicBool::new(false)));
    let w = Waker::from(f.clone());
    (f, w)
}

/// Per worker thread context.
#[derive(Clone)]
pub struct Ctx {
    pub sched: Arc<Sched>,
    pub op: usize,
}

thread_local! {
    static CTX: RefCell<Option<Ctx>> = const { RefCell::new(None) };
    static NEXT: RefCell<Option<Outcome>> = const { RefCell::new(None) };
}

pub fn set_ctx(c: Option<Ctx>) {
    CTX.with(|x| *x.borrow_mut() = c);
}

pub fn ctx() -> Option<Ctx> {
    CTX.with(|x| x.borrow().clone())
}

pub fn set_next(o: Option<Outcome>) {
    NEXT.with(|x| *x.borrow_mut() = o);
}

pub fn take_next() -> Option<Outcome> {
    NEXT.with(|x| x.borrow_mut().take())
}
