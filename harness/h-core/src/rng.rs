//! splitmix64: every random choice of a run derives from one seed.
#[derive(Clone)]
pub struct Rng(pub u64);

impl Rng {
    pub fn new(seed: u64) -> Self {
        Rng(seed.wrapping_mul(0x9E3779B97F4A7C15).wrapping_add(0xD1B54A32D192ED03))
    }
    pub fn next(&mut self) -> u64 {
        self.0 = self.0.wrapping_add(0x9E3779B97F4A7C15);
        let mut z = self.0;
        z = (z ^ (z >> 30)).wrapping_mul(0xBF58476D1CE4E5B9);
        z = (z ^ (z >> 27)).wrapping_mul(0x94D049BB133111EB);
        z ^ (z >> 31)
    }
    pub fn below(&mut self, n: usize) -> usize {
        if n == 0 {
            0
        } else {
            (self.next() % n as u64) as usize
        }
    }
    pub fn chance(&mut self, percent: usize) -> bool {
        self.below(100) < percent
    }
    pub fn pick<'a, T>(&mut self, v: &'a [T]) -> &'a T {
        &v[self.below(v.len())]
    }
    /// index chosen with the given weights
    pub fn weighted(&mut self, w: &[usize]) -> usize {
        let total: usize = w.iter().sum();
        let mut x = self.below(total.max(1));
        for (i, wi) in w.iter().enumerate() {
            if x < *wi {
                return i;
            }
            x -= wi;
        }
        w.len() - 1
    }
}
