//! Trace generation for the managed pool: random schedules / outcomes, drain,
//! end-of-history probe.

use crate::managed::{Action, Cfg, OpKind, Spec, Tmo, World};
use crate::rng::Rng;
use crate::sched::Outcome;

#[derive(Clone, Debug)]
pub struct Profile {
    pub name: String,
    pub max_actions: usize,
    pub max_ops: usize,
    pub max_size: usize,
    /// weights: get ret take resize close retain status
    pub w_ops: [usize; 7],
    /// weights: ok err pending panic cancel deadline
    pub w_out: [usize; 6],
    pub max_hooks: usize,
    pub p_rt: usize,
    /// percent of gets with non-default timeouts
    pub p_timeouts: usize,
    pub probe: bool,
    pub p_start: usize,
    /// percent chance per step to run everything that can run to completion (blocked
    /// getters stay blocked) and take a status() at rest
    pub p_quiesce: usize,
    /// percent chance per step to start a get() and run it alone to its end
    pub p_solo: usize,
}

impl Profile {
    pub fn by_name(name: &str) -> Profile {
        // suffix "-nr": same profile without resize / close operations
        if let Some(n) = name.strip_suffix("-nr") {
            let mut p = Profile::by_name(n);
            p.name = name.to_string();
            p.w_ops[3] = 0;
            p.w_ops[4] = 0;
            return p;
        }
        let base = Profile {
            name: name.to_string(),
            max_actions: 60,
            max_ops: 14,
            max_size: 3,
            w_ops: [45, 25, 5, 8, 2, 7, 8],
            w_out: [60, 12, 12, 5, 6, 5],
            max_hooks: 2,
            p_rt: 60,
            p_timeouts: 30,
            probe: true,
            p_start: 30,
            p_quiesce: 2,
            p_solo: 2,
        };
        match name {
            // no resize / close: C01, C02 and friends
            "noresize" => Profile {
                w_ops: [45, 25, 6, 0, 0, 8, 8],
                ..base
            },
            "cancel" => Profile {
                w_ops: [50, 22, 5, 3, 1, 6, 6],
                w_out: [35, 10, 25, 8, 17, 5],
                p_solo: 10,
                ..base
            },
            "faults" => Profile {
                w_ops: [50, 28, 4, 0, 0, 6, 6],
                w_out: [40, 25, 12, 8, 8, 7],
                ..base
            },
            "resize" => Profile {
                w_ops: [38, 22, 5, 22, 0, 5, 8],
                max_size: 4,
                ..base
            },
            // resizes that never shrink: to the current max_size or above it (C01: once max_size
            // stands still the limit holds, however often resize() is called with it)
            "grow" => Profile {
                w_ops: [40, 24, 5, 16, 0, 5, 8],
                max_size: 3,
                ..base
            },
            "close" => Profile {
                w_ops: [40, 22, 5, 8, 10, 5, 8],
                ..base
            },
            "retain" => Profile {
                w_ops: [34, 30, 8, 4, 1, 18, 5],
                max_size: 5,
                max_ops: 24,
                max_actions: 110,
                ..base
            },
            "timeouts" => Profile {
                p_timeouts: 90,
                w_out: [40, 8, 25, 3, 6, 18],
                ..base
            },
            "status" => Profile {
                w_ops: [40, 22, 5, 6, 2, 5, 20],
                p_quiesce: 8,
                ..base
            },
            _ => base,
        }
    }
}

pub fn gen_cfg(rng: &mut Rng, p: &Profile) -> Cfg {
    let hooks = |rng: &mut Rng| -> Vec<bool> {
        let n = if rng.chance(50) { 0 } else { 1 + rng.below(p.max_hooks.max(1)) };
        (0..n.min(p.max_hooks)).map(|_| rng.chance(50)).collect()
    };
    let mut c = Cfg {
        max: if rng.chance(8) { 0 } else { 1 + rng.below(p.max_size) },
        lifo: rng.chance(40),
        pre: hooks(rng),
        postr: hooks(rng),
        postc: hooks(rng),
        rt: rng.chance(p.p_rt),
        pt: [Tmo::None; 3],
    };
    // pool-level timeouts (they need a runtime, or `build()` fails - that is the build table's
    // business); `Pool::get()` uses them
    if c.rt && p.p_timeouts > 0 && rng.chance(30) {
        c.pt = [gen_tmo(rng), gen_tmo(rng), gen_tmo(rng)];
    }
    c
}

fn gen_tmo(rng: &mut Rng) -> Tmo {
    match rng.below(3) {
        0 => Tmo::None,
        1 => Tmo::Zero,
        _ => {
            if rng.chance(20) {
                Tmo::Huge
            } else {
                Tmo::Finite
            }
        }
    }
}

fn gen_spec(rng: &mut Rng, p: &Profile, w: &World) -> Option<Spec> {
    let out = w.out_ids();
    let mut wts = p.w_ops;
    if out.is_empty() {
        wts[1] = 0;
        wts[2] = 0;
    }
    Some(match rng.weighted(&wts) {
        0 => {
            if rng.chance(if w.cfg.pt != [Tmo::None; 3] { 45 } else { 10 }) {
                // `Pool::get()`: the pool-level timeouts
                Spec::GetDefault
            } else if rng.chance(p.p_timeouts) {
                Spec::Get(gen_tmo(rng), gen_tmo(rng), gen_tmo(rng))
            } else if rng.chance(30) {
                Spec::Get(Tmo::Zero, Tmo::None, Tmo::None)
            } else {
                Spec::Get(Tmo::None, Tmo::None, Tmo::None)
            }
        }
        1 => {
            let id = *rng.pick(&out);
            if rng.chance(10) {
                Spec::RetUnwind(id)
            } else {
                Spec::Ret(id)
            }
        }
        2 => Spec::Take(*rng.pick(&out)),
        3 => {
            if p.name == "grow" {
                // never below the current limit; mostly exactly the current limit
                let cur = w.pool.verif_snapshot(|_, _| {}).slots.map(|x| x.1)?;
                Spec::Resize(cur + if rng.chance(60) { 0 } else { 1 })
            } else {
                Spec::Resize(rng.below(w.cfg.max + 3))
            }
        }
        4 => Spec::Close,
        5 => {
            // a predicate script as long as the idle queue (sometimes shorter / longer)
            let idle = w.pool.verif_snapshot(|_, _| {}).slots.map(|x| x.2).unwrap_or(2);
            let n = match rng.below(4) {
                0 => rng.below(4),
                1 => idle + 1,
                _ => idle,
            };
            let p_keep = *rng.pick(&[0usize, 30, 50, 70]);
            Spec::Retain((0..n).map(|_| rng.chance(p_keep)).collect())
        }
        _ => Spec::Status,
    })
}

fn pick_outcome(rng: &mut Rng, p: &Profile, en: &[Outcome]) -> Outcome {
    if en.len() == 1 {
        return en[0];
    }
    if en.len() == 2 && en.contains(&Outcome::Run) && en.contains(&Outcome::Panic) {
        // `Manager::detach` about to be called: it panics now and then
        return if rng.chance(if p.w_out[3] > 1 { 8 } else { 2 }) { Outcome::Panic } else { Outcome::Run };
    }
    let all = [
        Outcome::Ok,
        Outcome::Err,
        Outcome::Pending,
        Outcome::Panic,
        Outcome::Cancel,
        Outcome::Deadline,
    ];
    let mut wts = [0usize; 7];
    for (k, o) in all.iter().enumerate() {
        if en.contains(o) {
            wts[k] = p.w_out[k].max(1);
        }
    }
    if en.contains(&Outcome::Run) {
        wts[6] = 50;
    }
    let k = rng.weighted(&wts);
    if k == 6 {
        Outcome::Run
    } else {
        all[k]
    }
}

pub struct TraceOut {
    pub lines: Vec<String>,
    pub error: Option<String>,
}

fn do_action(w: &mut World, a: &Action, t: &mut TraceOut) -> bool {
    t.lines.push(a.line());
    match w.exec(a) {
        Ok(obs) => {
            t.lines.push(obs);
            true
        }
        Err(e) => {
            t.lines.push(format!("error {}", e));
            t.error = Some(e);
            false
        }
    }
}

/// Drive every unfinished op to completion (part of the trace).
pub fn drain(w: &mut World, t: &mut TraceOut) -> bool {
    let mut guard = 0;
    loop {
        guard += 1;
        if guard > 2000 {
            t.error = Some("drain did not terminate".into());
            return false;
        }
        let un = w.unfinished();
        if un.is_empty() {
            return true;
        }
        // first: ops that are not queued on the semaphore
        let mut acted = false;
        for i in &un {
            let op = w.sched.op(*i);
            let en = w.enabled(*i);
            if en.is_empty() {
                continue;
            }
            if op.label == "get.acquire" && op.susp {
                continue;
            }
            let oc = if en.contains(&Outcome::Run) {
                Outcome::Run
            } else {
                Outcome::Ok
            };
            if !do_action(w, &Action::Step(*i, oc), t) {
                return false;
            }
            acted = true;
            break;
        }
        if acted {
            continue;
        }
        // only queued getters (or ops blocked on the mutex, which cannot be: its owner is never queued)
        let i = un[0];
        let op = w.sched.op(i);
        if !(op.label == "get.acquire" && op.susp) {
            t.error = Some(format!("DEADLOCK: op {} at {} is not enabled and nothing else can run", i, op.label));
            return false;
        }
        let woken = w.wakers[i]
            .as_ref()
            .map(|f| f.0.load(std::sync::atomic::Ordering::SeqCst))
            .unwrap_or(false);
        let oc = if woken { Outcome::Run } else { Outcome::Cancel };
        if !do_action(w, &Action::Step(i, oc), t) {
            return false;
        }
    }
}

/// Run every op that is not blocked on the semaphore to completion; queued getters that
/// were woken are polled. Afterwards the pool is at rest. Then take a status().
pub fn quiesce(w: &mut World, t: &mut TraceOut) -> bool {
    let mut guard = 0;
    loop {
        guard += 1;
        if guard > 2000 {
            t.error = Some("quiesce did not terminate".into());
            return false;
        }
        let mut acted = false;
        for i in w.unfinished() {
            let op = w.sched.op(i);
            let en = w.enabled(i);
            if en.is_empty() {
                continue;
            }
            let oc = if op.label == "get.acquire" && op.susp {
                let woken = w.wakers[i]
                    .as_ref()
                    .map(|f| f.0.load(std::sync::atomic::Ordering::SeqCst))
                    .unwrap_or(false);
                if !woken {
                    continue;
                }
                Outcome::Run
            } else if en.contains(&Outcome::Run) {
                Outcome::Run
            } else {
                Outcome::Ok
            };
            if !do_action(w, &Action::Step(i, oc), t) {
                return false;
            }
            acted = true;
            break;
        }
        if !acted {
            break;
        }
    }
    t.lines.push("# quiescent".into());
    let r = start_and_run(w, Spec::Status, t);
    t.lines.push("# main".into());
    r
}

fn run_to_end(w: &mut World, i: usize, t: &mut TraceOut) -> bool {
    let mut guard = 0;
    while !w.sched.op(i).done {
        guard += 1;
        if guard > 200 {
            t.error = Some("op did not finish".into());
            return false;
        }
        let en = w.enabled(i);
        if en.is_empty() {
            t.error = Some(format!("DEADLOCK: op {} not enabled while running alone", i));
            return false;
        }
        let op = w.sched.op(i);
        let oc = if op.label == "get.acquire" && op.susp {
            Outcome::Cancel
        } else if en.contains(&Outcome::Run) {
            Outcome::Run
        } else {
            Outcome::Ok
        };
        if !do_action(w, &Action::Step(i, oc), t) {
            return false;
        }
    }
    true
}

fn start_and_run(w: &mut World, s: Spec, t: &mut TraceOut) -> bool {
    if !do_action(w, &Action::Start(s), t) {
        return false;
    }
    let i = w.sched.n_ops() - 1;
    run_to_end(w, i, t)
}

/// End of history: status at rest, everything returned, capacity probe.
pub fn probe(w: &mut World, t: &mut TraceOut) -> bool {
    t.lines.push("# rest".into());
    if !start_and_run(w, Spec::Status, t) {
        return false;
    }
    t.lines.push("# return-all".into());
    for id in w.out_ids() {
        if !start_and_run(w, Spec::Ret(id), t) {
            return false;
        }
    }
    if !start_and_run(w, Spec::Status, t) {
        return false;
    }
    t.lines.push("# probe".into());
    // as many zero-wait gets as succeed, at most 8
    for _ in 0..8 {
        let before = w.out_ids().len();
        if !start_and_run(w, Spec::Get(Tmo::Zero, Tmo::None, Tmo::None), t) {
            return false;
        }
        if w.out_ids().len() == before {
            break;
        }
    }
    if !start_and_run(w, Spec::Status, t) {
        return false;
    }
    t.lines.push("# probe-end".into());
    for id in w.out_ids() {
        if !start_and_run(w, Spec::Ret(id), t) {
            return false;
        }
    }
    true
}

/// Epilogue for histories with resizes: with everything idle, shrink by one and probe again
/// (a shrink that finds every object idle and every token free can collect exactly).
pub fn shrink_probe(w: &mut World, t: &mut TraceOut) -> bool {
    if w.pool.is_closed() {
        return true;
    }
    let cur = w.pool.status().max_size;
    if cur < 2 {
        return true;
    }
    t.lines.push("# shrink-idle".into());
    if !start_and_run(w, Spec::Resize(cur - 1), t) {
        return false;
    }
    t.lines.push("# probe2".into());
    for _ in 0..8 {
        let before = w.out_ids().len();
        if !start_and_run(w, Spec::Get(Tmo::Zero, Tmo::None, Tmo::None), t) {
            return false;
        }
        if w.out_ids().len() == before {
            break;
        }
    }
    t.lines.push("# probe2-end".into());
    for id in w.out_ids() {
        if !start_and_run(w, Spec::Ret(id), t) {
            return false;
        }
    }
    true
}

/// Drive op `i` with `choose(label, suspended, enabled)` until it is done, blocked, or the
/// chooser says stop.
fn drive(
    w: &mut World,
    i: usize,
    t: &mut TraceOut,
    choose: &mut dyn FnMut(&str, bool, &[Outcome]) -> Option<Outcome>,
) -> bool {
    for _ in 0..200 {
        let op = w.sched.op(i);
        if op.done {
            return true;
        }
        let en = w.enabled(i);
        if en.is_empty() {
            return true;
        }
        let Some(oc) = choose(&op.label, op.susp, &en) else {
            return true;
        };
        if !en.contains(&oc) {
            return true;
        }
        if !do_action(w, &Action::Step(i, oc), t) {
            return false;
        }
    }
    true
}

fn plain(_l: &str, susp: bool, en: &[Outcome]) -> Option<Outcome> {
    if en.contains(&Outcome::Run) {
        if susp {
            None
        } else {
            Some(Outcome::Run)
        }
    } else {
        Some(Outcome::Ok)
    }
}

/// Exhaustive timeout table (C10): every (wait, create, recycle) in {none, zero, finite}^3,
/// runtime present / absent, three situations (must create / must recycle / must wait)
/// and every ordering of "deadline passes" against "the awaited thing happens".
pub const TABLE_SIZE: u64 = 27 * 2 * 11;

pub fn gen_table(k: u64) -> TraceOut {
    let tm = [Tmo::None, Tmo::Zero, Tmo::Finite];
    let mut x = k;
    let variant = (x % 11) as usize;
    x /= 11;
    let rt = x % 2 == 1;
    x /= 2;
    let (tw, tc, tr) = (tm[(x % 3) as usize], tm[((x / 3) % 3) as usize], tm[((x / 9) % 3) as usize]);
    let (scenario, v) = match variant {
        0..=3 => ("create", variant),
        4..=6 => ("recycle", variant - 4),
        _ => ("wait", variant - 7),
    };
    let cfg = Cfg {
        max: 1,
        lifo: false,
        pre: vec![],
        postr: vec![],
        postc: vec![],
        rt,
        pt: [Tmo::None; 3],
    };
    let mut t = TraceOut {
        lines: vec![cfg.line(), format!("# table scenario={} variant={}", scenario, v)],
        error: None,
    };
    let mut w = World::new(cfg);
    macro_rules! chk {
        ($e:expr) => {
            if !$e {
                return fail(w, t);
            }
        };
    }
    if scenario != "create" {
        chk!(start_and_run(&mut w, Spec::Get(Tmo::None, Tmo::None, Tmo::None), &mut t));
        if scenario == "recycle" {
            for id in w.out_ids() {
                chk!(start_and_run(&mut w, Spec::Ret(id), &mut t));
            }
        }
    }
    t.lines.push("# main".into());
    chk!(do_action(&mut w, &Action::Start(Spec::Get(tw, tc, tr)), &mut t));
    let g = w.sched.n_ops() - 1;
    let cb = if scenario == "create" { "create" } else { "recycle" };
    match scenario {
        "create" | "recycle" => {
            let mut stage = 0;
            let mut ch = |l: &str, susp: bool, en: &[Outcome]| -> Option<Outcome> {
                if l == cb {
                    let r = match (v, stage) {
                        (0, _) => Outcome::Ok,
                        (1, 0) => Outcome::Pending,
                        (1, _) => Outcome::Ok,
                        (2, 0) => Outcome::Pending,
                        (2, _) => {
                            if en.contains(&Outcome::Deadline) {
                                Outcome::Deadline
                            } else if susp {
                                Outcome::Cancel
                            } else {
                                Outcome::Err
                            }
                        }
                        (_, _) => Outcome::Err,
                    };
                    stage += 1;
                    Some(r)
                } else {
                    plain(l, susp, en)
                }
            };
            chk!(drive(&mut w, g, &mut t, &mut ch));
        }
        _ => {
            // run until blocked (or failed at once)
            chk!(drive(&mut w, g, &mut t, &mut plain));
            let holder = w.out_ids();
            match v {
                0 => {
                    for id in holder {
                        chk!(start_and_run(&mut w, Spec::Ret(id), &mut t));
                    }
                }
                1 => {
                    if !w.sched.op(g).done && w.enabled(g).contains(&Outcome::Deadline) {
                        chk!(do_action(&mut w, &Action::Step(g, Outcome::Deadline), &mut t));
                    }
                    for id in holder {
                        chk!(start_and_run(&mut w, Spec::Ret(id), &mut t));
                    }
                }
                2 => {
                    for id in holder {
                        chk!(start_and_run(&mut w, Spec::Ret(id), &mut t));
                    }
                    if !w.sched.op(g).done && w.enabled(g).contains(&Outcome::Deadline) {
                        chk!(do_action(&mut w, &Action::Step(g, Outcome::Deadline), &mut t));
                    }
                }
                _ => {
                    chk!(start_and_run(&mut w, Spec::Close, &mut t));
                }
            }
            // whatever the getter does next, all callbacks succeed
            let mut ch = |l: &str, _s: bool, en: &[Outcome]| -> Option<Outcome> {
                if en.contains(&Outcome::Run) {
                    Some(Outcome::Run)
                } else {
                    let _ = l;
                    Some(Outcome::Ok)
                }
            };
            if !w.sched.op(g).done {
                let op = w.sched.op(g);
                let woken = w.wakers[g]
                    .as_ref()
                    .map(|f| f.0.load(std::sync::atomic::Ordering::SeqCst))
                    .unwrap_or(false);
                if !(op.label == "get.acquire" && op.susp && !woken) {
                    chk!(drive(&mut w, g, &mut t, &mut ch));
                }
            }
        }
    }
    t.lines.push("# drain".into());
    chk!(drain(&mut w, &mut t));
    chk!(probe(&mut w, &mut t));
    w.finish();
    t
}

pub fn gen_trace(seed: u64, p: &Profile) -> TraceOut {
    let mut rng = Rng::new(seed);
    let cfg = gen_cfg(&mut rng, p);
    let mut t = TraceOut {
        lines: vec![cfg.line()],
        error: None,
    };
    let mut w = World::new(cfg);
    let n_act = p.max_actions / 2 + rng.below(p.max_actions / 2 + 1);
    let mut started = 0;
    for _ in 0..n_act {
        let un = w.unfinished();
        let cands: Vec<(usize, Vec<Outcome>)> = un
            .iter()
            .map(|i| (*i, w.enabled(*i)))
            .filter(|(_, e)| !e.is_empty())
            .collect();
        if rng.chance(p.p_quiesce) {
            if !quiesce(&mut w, &mut t) {
                return fail(w, t);
            }
            continue;
        }
        if rng.chance(p.p_solo) {
            // a get() that runs alone from the current (arbitrary) state
            let spec = if rng.chance(p.p_timeouts) {
                Spec::Get(gen_tmo(&mut rng), gen_tmo(&mut rng), gen_tmo(&mut rng))
            } else {
                Spec::Get(Tmo::None, Tmo::None, Tmo::None)
            };
            t.lines.push("# solo".into());
            if !do_action(&mut w, &Action::Start(spec), &mut t) {
                return fail(w, t);
            }
            let i = w.sched.n_ops() - 1;
            for _ in 0..60 {
                if w.sched.op(i).done {
                    break;
                }
                let en = w.enabled(i);
                if en.is_empty() {
                    break;
                }
                let op = w.sched.op(i);
                let oc = if op.label == "get.acquire" && op.susp {
                    // blocked: give up (cancel) or leave it to the others
                    if rng.chance(70) {
                        Outcome::Cancel
                    } else {
                        break;
                    }
                } else {
                    pick_outcome(&mut rng, p, &en)
                };
                if !do_action(&mut w, &Action::Step(i, oc), &mut t) {
                    return fail(w, t);
                }
            }
            t.lines.push("# main".into());
            continue;
        }
        let can_start = started < p.max_ops;
        let do_start = can_start && (cands.is_empty() || rng.chance(p.p_start));
        let a = if do_start {
            match gen_spec(&mut rng, p, &w) {
                Some(s) => {
                    started += 1;
                    Action::Start(s)
                }
                None => continue,
            }
        } else if !cands.is_empty() {
            let (i, en) = rng.pick(&cands).clone();
            // do not spin on queued getters
            let oc = pick_outcome(&mut rng, p, &en);
            Action::Step(i, oc)
        } else {
            break;
        };
        if !do_action(&mut w, &a, &mut t) {
            return fail(w, t);
        }
    }
    t.lines.push("# drain".into());
    if !drain(&mut w, &mut t) {
        return fail(w, t);
    }
    if p.probe && !probe(&mut w, &mut t) {
        return fail(w, t);
    }
    if p.probe && p.w_ops[3] > 0 && !shrink_probe(&mut w, &mut t) {
        return fail(w, t);
    }
    w.finish();
    t
}

fn fail(w: World, t: TraceOut) -> TraceOut {
    // worker threads may be parked forever: leak the world
    std::mem::forget(w);
    t
}

pub fn replay(lines: &[String]) -> TraceOut {
    let mut t = TraceOut {
        lines: vec![],
        error: None,
    };
    let mut w: Option<World> = None;
    for l in lines {
        let l = l.trim();
        if l.is_empty() || l.starts_with("obs") || l.starts_with("error") || l.starts_with("trace") || l == "end" {
            continue;
        }
        if l.starts_with('#') {
            t.lines.push(l.to_string());
            continue;
        }
        let ws: Vec<&str> = l.split_whitespace().collect();
        if ws[0] == "cfg" {
            if ws.get(1) != Some(&"managed") {
                t.error = Some("unsupported cfg".into());
                return t;
            }
            match Cfg::parse(&ws[2..]) {
                Some(c) => {
                    t.lines.push(c.line());
                    w = Some(World::new(c));
                }
                None => {
                    t.error = Some("bad cfg".into());
                    return t;
                }
            }
            continue;
        }
        let Some(a) = Action::parse(l) else {
            t.error = Some(format!("bad action line: {}", l));
            return t;
        };
        let Some(wr) = w.as_mut() else {
            t.error = Some("action before cfg".into());
            return t;
        };
        if !do_action(wr, &a, &mut t) {
            if let Some(w) = w.take() {
                std::mem::forget(w);
            }
            return t;
        }
    }
    if let Some(mut wr) = w.take() {
        if !wr.unfinished().is_empty() {
            t.lines.push("# drain".into());
            if !drain(&mut wr, &mut t) {
                std::mem::forget(wr);
                return t;
            }
        }
        wr.finish();
    }
    t
}

#[allow(dead_code)]
pub fn kind_name(k: &OpKind) -> &'static str {
    match k {
        OpKind::Get(..) => "get",
        OpKind::Ret => "ret",
        OpKind::Take => "take",
        OpKind::Resize => "resize",
        OpKind::Close => "close",
        OpKind::Retain => "retain",
        OpKind::Status => "status",
    }
}


// ---------------------------------------------------------------- systematic small scopes

/// an operation of a scenario; objects in the callers' hands are named by position
#[derive(Clone, Debug)]
pub enum ScOp {
    Plain(Spec),
    RetOut(usize),
    TakeOut(usize),
}

impl ScOp {
    fn name(&self) -> String {
        match self {
            ScOp::Plain(s) => s.line().replace("start ", "").replace(' ', "_"),
            ScOp::RetOut(k) => format!("ret_out{k}"),
            ScOp::TakeOut(k) => format!("take_out{k}"),
        }
    }
    fn resolve(&self, w: &World) -> Option<Spec> {
        let out = w.out_ids();
        Some(match self {
            ScOp::Plain(s) => s.clone(),
            ScOp::RetOut(k) => Spec::Ret(*out.get(*k)?),
            ScOp::TakeOut(k) => Spec::Take(*out.get(*k)?),
        })
    }
}

/// the menu: a pool of max_size 2 with one idle object and one checked out
pub fn scenario_menu() -> Vec<ScOp> {
    vec![
        ScOp::Plain(Spec::Get(Tmo::Zero, Tmo::None, Tmo::None)),
        ScOp::Plain(Spec::Get(Tmo::None, Tmo::None, Tmo::None)),
        ScOp::RetOut(0),
        ScOp::TakeOut(0),
        ScOp::Plain(Spec::Resize(1)),
        ScOp::Plain(Spec::Resize(3)),
        ScOp::Plain(Spec::Close),
        ScOp::Plain(Spec::Retain(vec![false])),
        ScOp::Plain(Spec::Retain(vec![true])),
        ScOp::Plain(Spec::Status),
    ]
}

/// `resizes`: with the operations that change max_size (resize, close)
pub fn scenarios(resizes: bool) -> Vec<Vec<ScOp>> {
    let m: Vec<ScOp> = scenario_menu()
        .into_iter()
        .filter(|o| resizes || !matches!(o, ScOp::Plain(Spec::Resize(_)) | ScOp::Plain(Spec::Close)))
        .collect();
    let mut v = Vec::new();
    for a in 0..m.len() {
        for b in a + 1..m.len() {
            for c in b + 1..m.len() {
                v.push(vec![m[a].clone(), m[b].clone(), m[c].clone()]);
            }
        }
    }
    // two getters racing with a third operation
    for x in [0usize, 1] {
        for y in 2..m.len() {
            v.push(vec![m[x].clone(), m[x].clone(), m[y].clone()]);
        }
    }
    v
}

/// one schedule: `variant` 0 = every callback succeeds, 1 = `Manager::recycle` fails,
/// 2 = one pre_recycle and one post_recycle hook, all succeeding, 3 = asynchronous callbacks
/// suspend first and every suspended get() (in a callback or waiting for a slot) is either
/// resumed or abandoned
fn run_schedule(ops: &[ScOp], variant: usize, path: &[usize], budget: usize, resizes: bool) -> (TraceOut, Vec<usize>, Vec<usize>) {
    let cfg = Cfg {
        max: 2,
        lifo: false,
        pre: if variant == 2 { vec![false] } else { vec![] },
        postr: if variant == 2 { vec![true] } else { vec![] },
        postc: vec![],
        rt: true,
        pt: [Tmo::None; 3],
    };
    let mut t = TraceOut { lines: vec![cfg.line()], error: None };
    let mut w = World::new(cfg);
    let (mut taken, mut widths) = (Vec::new(), Vec::new());
    macro_rules! bail {
        () => {{
            std::mem::forget(w);
            return (t, taken, widths);
        }};
    }
    t.lines.push("# setup".into());
    for _ in 0..2 {
        if !start_and_run_ok(&mut w, Spec::Get(Tmo::None, Tmo::None, Tmo::None), &mut t) {
            bail!();
        }
    }
    let last_out = *w.out_ids().last().unwrap_or(&0);
    if !start_and_run_ok(&mut w, Spec::Ret(last_out), &mut t) {
        bail!();
    }
    t.lines.push("# main".into());
    // starting an operation is a scheduling decision like any other step: an operation may
    // begin after another one has run to its end
    let mut pending: Vec<ScOp> = ops.to_vec();
    let mut mine: Vec<usize> = Vec::new();
    let mut last: Option<usize> = None;
    let mut left = budget;
    #[derive(Clone, Copy, PartialEq)]
    enum Choice {
        Step(usize, Outcome),
        Start(usize),
    }
    for _ in 0..600 {
        // what each running operation would do next (one deterministic outcome per operation)
        let enabled: Vec<(usize, Outcome)> = mine
            .iter()
            .copied()
            .flat_map(|i| {
                let op = w.sched.op(i);
                if op.done {
                    return vec![];
                }
                let en = w.enabled(i);
                if en.is_empty() {
                    return vec![];
                }
                if op.label == "get.acquire" && op.susp {
                    let woken = w.wakers[i].as_ref().map(|f| f.0.load(std::sync::atomic::Ordering::SeqCst)).unwrap_or(false);
                    // variant 3: a waiting get() may also be abandoned
                    return if woken {
                        vec![(i, Outcome::Run)]
                    } else if variant == 3 && en.contains(&Outcome::Cancel) {
                        vec![(i, Outcome::Cancel)]
                    } else {
                        vec![]
                    };
                }
                if en.contains(&Outcome::Run) {
                    vec![(i, Outcome::Run)]
                } else if variant == 1 && op.label == "recycle" {
                    vec![(i, Outcome::Err)]
                } else if variant == 3 && !op.susp && en.contains(&Outcome::Pending) {
                    // variant 3: asynchronous callbacks suspend first ...
                    vec![(i, Outcome::Pending)]
                } else if variant == 3 && op.susp && en.contains(&Outcome::Cancel) {
                    // ... and the suspended get() is then either resumed or abandoned
                    vec![(i, Outcome::Ok), (i, Outcome::Cancel)]
                } else {
                    vec![(i, Outcome::Ok)]
                }
            })
            .collect();
        let mut all: Vec<Choice> = enabled.iter().map(|(i, oc)| Choice::Step(*i, *oc)).collect();
        for k in 0..pending.len() {
            if pending[k].resolve(&w).is_some() {
                all.push(Choice::Start(k));
            }
        }
        if all.is_empty() {
            break;
        }
        let cur = last.and_then(|l| enabled.iter().find(|e| e.0 == l).copied());
        let options: Vec<Choice> = match cur {
            // no preemption left: the running operation goes on (with any of its own outcomes)
            Some((l, _)) if left == 0 => enabled.iter().filter(|e| e.0 == l).map(|(i, oc)| Choice::Step(*i, *oc)).collect(),
            _ => all.clone(),
        };
        let d = taken.len();
        let c = path.get(d).copied().unwrap_or(0).min(options.len() - 1);
        taken.push(c);
        widths.push(options.len());
        let choice = options[c];
        if let Some((l, _)) = cur {
            if !matches!(choice, Choice::Step(i, _) if i == l) {
                left = left.saturating_sub(1);
            }
        }
        match choice {
            Choice::Step(i, oc) => {
                last = Some(i);
                if !do_action(&mut w, &Action::Step(i, oc), &mut t) {
                    bail!();
                }
            }
            Choice::Start(k) => {
                let spec = pending.remove(k).resolve(&w).unwrap();
                if !do_action(&mut w, &Action::Start(spec), &mut t) {
                    bail!();
                }
                let i = w.sched.n_ops() - 1;
                mine.push(i);
                last = Some(i);
            }
        }
    }
    t.lines.push("# drain".into());
    if !drain(&mut w, &mut t) {
        bail!();
    }
    if !probe(&mut w, &mut t) {
        bail!();
    }
    if resizes && !shrink_probe(&mut w, &mut t) {
        bail!();
    }
    w.finish();
    (t, taken, widths)
}

/// like `start_and_run`, but every callback of the operation succeeds (setup of a scenario)
fn start_and_run_ok(w: &mut World, s: Spec, t: &mut TraceOut) -> bool {
    if !do_action(w, &Action::Start(s), t) {
        return false;
    }
    let i = w.sched.n_ops() - 1;
    for _ in 0..100 {
        if w.sched.op(i).done {
            return true;
        }
        let en = w.enabled(i);
        if en.is_empty() {
            t.error = Some(format!("DEADLOCK: op {} not enabled during the setup", i));
            return false;
        }
        let oc = if en.contains(&Outcome::Run) { Outcome::Run } else { Outcome::Ok };
        if !do_action(w, &Action::Step(i, oc), t) {
            return false;
        }
    }
    true
}

/// every schedule of the scenario with at most `budget` preemptions (depth-first), at most `limit`
pub fn exhaust(ops: &[ScOp], variant: usize, budget: usize, limit: usize, resizes: bool, mut emit: impl FnMut(&TraceOut, &str)) -> usize {
    let name: Vec<String> = ops.iter().map(|o| o.name()).collect();
    let mut path: Vec<usize> = Vec::new();
    let mut n = 0usize;
    loop {
        let (t, taken, widths) = run_schedule(ops, variant, &path, budget, resizes);
        n += 1;
        emit(&t, &format!("scenario={} variant={} budget={} schedule={}", name.join("+"), variant, budget, n));
        if t.error.as_deref().map(|e| e.starts_with("HANG") || e.starts_with("BLOCKED")).unwrap_or(false) || n >= limit {
            return n;
        }
        let mut d = taken.len();
        loop {
            if d == 0 {
                return n;
            }
            d -= 1;
            if taken[d] + 1 < widths[d] {
                path = taken[..d].to_vec();
                path.push(taken[d] + 1);
                break;
            }
        }
    }
}
