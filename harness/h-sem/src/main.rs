//! Differential check of the Lean model `Sem` against the real `tokio::sync::Semaphore`
//! (the version deadpool is built with): random sequences of API calls, each one atomic,
//! every waiter asking for one permit - the way deadpool uses it.
//!
//!   h-sem gen --seed N --traces K --out FILE      run K random sequences on the real semaphore
//!   h-sem replay --in FILE --out FILE              re-run given sequences
//!
//! Output per trace: `sm cfg permits=P`, then per operation the line of the operation (`sm ..`)
//! and an `smobs res=.. permits=.. closed=.. woken=[..]` line; `end`.
use std::collections::BTreeMap;
use std::future::Future;
use std::io::{BufRead, Write};
use std::pin::Pin;
use std::sync::atomic::{AtomicBool, Ordering};
use std::sync::Arc;
use std::task::{Context, Poll, Wake, Waker};
use tokio::sync::{AcquireError, Semaphore, SemaphorePermit};

struct Flag(AtomicBool);
impl Wake for Flag {
    fn wake(self: Arc<Self>) {
        self.0.store(true, Ordering::SeqCst);
    }
    fn wake_by_ref(self: &Arc<Self>) {
        self.0.store(true, Ordering::SeqCst);
    }
}

struct Rng(u64);
impl Rng {
    fn next(&mut self) -> u64 {
        // splitmix64
        self.0 = self.0.wrapping_add(0x9E3779B97F4A7C15);
        let mut z = self.0;
        z = (z ^ (z >> 30)).wrapping_mul(0xBF58476D1CE4E5B9);
        z = (z ^ (z >> 27)).wrapping_mul(0x94D049BB133111EB);
        z ^ (z >> 31)
    }
    fn below(&mut self, n: u64) -> u64 {
        self.next() % n
    }
}

type Fut<'a> = Pin<Box<dyn Future<Output = Result<SemaphorePermit<'a>, AcquireError>> + 'a>>;

struct World<'a> {
    sem: &'a Semaphore,
    pending: BTreeMap<usize, (Fut<'a>, Arc<Flag>)>,
    held: BTreeMap<usize, SemaphorePermit<'a>>,
    tried: Vec<SemaphorePermit<'a>>,
}

impl<'a> World<'a> {
    fn obs(&self, res: &str) -> String {
        let woken: Vec<String> = self
            .pending
            .iter()
            .filter(|(_, (_, f))| f.0.load(Ordering::SeqCst))
            .map(|(i, _)| i.to_string())
            .collect();
        format!(
            "smobs res={} permits={} closed={} woken=[{}]",
            res,
            self.sem.available_permits(),
            if self.sem.is_closed() { 1 } else { 0 },
            woken.join(",")
        )
    }

    /// executes one operation; `None` if it is not applicable in this state
    fn apply(&mut self, op: &str) -> Option<String> {
        let w: Vec<&str> = op.split_whitespace().collect();
        let w = match w.split_first() {
            Some((&"sm", rest)) => rest.to_vec(),
            _ => return None,
        };
        match w.as_slice() {
            ["poll", i] => {
                let i: usize = i.parse().ok()?;
                if self.held.contains_key(&i) {
                    return None;
                }
                let (mut fut, flag) = match self.pending.remove(&i) {
                    Some(x) => x,
                    None => {
                        let sem = self.sem;
                        let f: Fut<'a> = Box::pin(async move { sem.acquire().await });
                        (f, Arc::new(Flag(AtomicBool::new(false))))
                    }
                };
                flag.0.store(false, Ordering::SeqCst);
                let waker = Waker::from(flag.clone());
                let mut cx = Context::from_waker(&waker);
                let r = match fut.as_mut().poll(&mut cx) {
                    Poll::Pending => {
                        self.pending.insert(i, (fut, flag));
                        "pending"
                    }
                    Poll::Ready(Ok(p)) => {
                        drop(fut);
                        self.held.insert(i, p);
                        "ok"
                    }
                    Poll::Ready(Err(_)) => {
                        drop(fut);
                        "closed"
                    }
                };
                Some(self.obs(r))
            }
            ["drop", i] => {
                let i: usize = i.parse().ok()?;
                let x = self.pending.remove(&i)?;
                drop(x);
                Some(self.obs("-"))
            }
            ["release", i] => {
                let i: usize = i.parse().ok()?;
                let p = self.held.remove(&i)?;
                drop(p);
                Some(self.obs("-"))
            }
            ["forget", i] => {
                let i: usize = i.parse().ok()?;
                let p = self.held.remove(&i)?;
                p.forget();
                Some(self.obs("-"))
            }
            ["try"] => {
                let r = match self.sem.try_acquire() {
                    Ok(p) => {
                        self.tried.push(p);
                        "ok"
                    }
                    Err(tokio::sync::TryAcquireError::NoPermits) => "nopermits",
                    Err(tokio::sync::TryAcquireError::Closed) => "closed",
                };
                Some(self.obs(r))
            }
            ["untry"] => {
                let p = self.tried.pop()?;
                drop(p);
                Some(self.obs("-"))
            }
            ["add", k] => {
                let k: usize = k.parse().ok()?;
                self.sem.add_permits(k);
                Some(self.obs("-"))
            }
            ["close"] => {
                self.sem.close();
                Some(self.obs("-"))
            }
            _ => None,
        }
    }
}

fn run_trace(permits: usize, ops: &[String], out: &mut dyn Write) {
    let sem = Semaphore::new(permits);
    let mut w = World { sem: &sem, pending: BTreeMap::new(), held: BTreeMap::new(), tried: Vec::new() };
    writeln!(out, "sm cfg permits={}", permits).unwrap();
    for op in ops {
        match w.apply(op) {
            Some(o) => {
                writeln!(out, "{}", op).unwrap();
                writeln!(out, "{}", o).unwrap();
            }
            None => {
                writeln!(out, "error inapplicable {}", op).unwrap();
                break;
            }
        }
    }
    writeln!(out, "end").unwrap();
    // pending futures are dropped before the permits they might still be assigned
    w.pending.clear();
    w.held.clear();
    w.tried.clear();
}

fn gen_trace(rng: &mut Rng, out: &mut dyn Write) {
    let permits = rng.below(4) as usize;
    let n_waiters = 2 + rng.below(5) as usize;
    let len = 5 + rng.below(40) as usize;
    let close_bias = rng.below(4); // 0: never close
    let sem = Semaphore::new(permits);
    let mut w = World { sem: &sem, pending: BTreeMap::new(), held: BTreeMap::new(), tried: Vec::new() };
    writeln!(out, "sm cfg permits={}", permits).unwrap();
    let mut n = 0;
    let mut guard = 0;
    while n < len && guard < 10 * len {
        guard += 1;
        let i = rng.below(n_waiters as u64) as usize;
        let op = match rng.below(100) {
            0..=34 => format!("sm poll {}", i),
            35..=46 => format!("sm drop {}", i),
            47..=66 => format!("sm release {}", i),
            67..=71 => format!("sm forget {}", i),
            72..=79 => "sm try".to_string(),
            80..=85 => "sm untry".to_string(),
            86..=95 => format!("sm add {}", 1 + rng.below(3)),
            _ => {
                if close_bias == 0 || rng.below(4) != 0 {
                    continue;
                }
                "sm close".to_string()
            }
        };
        if let Some(o) = w.apply(&op) {
            writeln!(out, "{}", op).unwrap();
            writeln!(out, "{}", o).unwrap();
            n += 1;
        }
    }
    writeln!(out, "end").unwrap();
    w.pending.clear();
    w.held.clear();
    w.tried.clear();
}

fn arg(args: &[String], name: &str) -> Option<String> {
    args.iter().position(|a| a == name).and_then(|i| args.get(i + 1).cloned())
}

fn main() {
    let args: Vec<String> = std::env::args().collect();
    let mode = args.get(1).map(|s| s.as_str()).unwrap_or("");
    let out_path = arg(&args, "--out").expect("--out FILE");
    let mut out = std::io::BufWriter::new(std::fs::File::create(out_path).expect("create out"));
    match mode {
        "gen" => {
            let seed: u64 = arg(&args, "--seed").and_then(|s| s.parse().ok()).unwrap_or(1);
            let traces: usize = arg(&args, "--traces").and_then(|s| s.parse().ok()).unwrap_or(100);
            for k in 0..traces {
                let mut rng = Rng(seed.wrapping_mul(1_000_003).wrapping_add(k as u64));
                writeln!(out, "trace {} seed={}", k, seed).unwrap();
                gen_trace(&mut rng, &mut out);
            }
        }
        "replay" => {
            let path = arg(&args, "--in").expect("--in FILE");
            let f = std::io::BufReader::new(std::fs::File::open(path).expect("open in"));
            let mut permits = 0usize;
            let mut ops: Vec<String> = Vec::new();
            let mut have = false;
            let mut k = 0;
            for l in f.lines() {
                let l = l.unwrap();
                if let Some(r) = l.strip_prefix("sm cfg permits=") {
                    if have {
                        writeln!(out, "trace {} replay", k).unwrap();
                        run_trace(permits, &ops, &mut out);
                        k += 1;
                        ops.clear();
                    }
                    permits = r.trim().parse().expect("permits");
                    have = true;
                } else if l.starts_with("smobs ") || l.starts_with("trace ") || l == "end" || l.starts_with('#') || l.is_empty() {
                    continue;
                } else {
                    ops.push(l);
                }
            }
            if have {
                writeln!(out, "trace {} replay", k).unwrap();
                run_trace(permits, &ops, &mut out);
            }
        }
        _ => {
            eprintln!("usage: h-sem gen|replay ...");
            std::process::exit(2);
        }
    }
}
