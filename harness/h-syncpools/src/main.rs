//! h-syncpools: the pools built on `SyncWrapper` — deadpool-sqlite, deadpool-r2d2 (with a scripted
//! `r2d2::ManageConnection`), deadpool-diesel (SQLite) — driven through sequential histories of
//! gets, returns and spoiling interactions, with the identity of every connection observed at
//! every hand-out (C15).
//!
//! `diff --seed S --cases N` prints, per operation, the input line of the Lean model
//! (`sp …`), what the real pool did (`spobs …`) and implementation-only oracle lines (`spx …`).

use std::{
    cell::Cell,
    collections::HashMap,
    future::Future,
    pin::Pin,
    sync::{
        atomic::{AtomicUsize, Ordering},
        Arc, Mutex,
    },
    task::{Context, RawWaker, RawWakerVTable, Waker},
    time::Duration,
};

use deadpool::managed::{Object, Pool, PoolError, Timeouts};
use deadpool::Runtime;

thread_local! {
    static ASYNC_THREAD: Cell<bool> = const { Cell::new(false) };
}

struct Rng(u64);
impl Rng {
    fn next(&mut self) -> u64 {
        self.0 = self.0.wrapping_add(0x9E3779B97F4A7C15);
        let mut z = self.0;
        z = (z ^ (z >> 30)).wrapping_mul(0xBF58476D1CE4E5B9);
        z = (z ^ (z >> 27)).wrapping_mul(0x94D049BB133111EB);
        z ^ (z >> 31)
    }
    fn below(&mut self, n: usize) -> usize {
        (self.next() % n.max(1) as u64) as usize
    }
    fn chance(&mut self, p: usize) -> bool {
        self.below(100) < p
    }
}

fn noop_waker() -> Waker {
    fn clone(_: *const ()) -> RawWaker {
        RawWaker::new(std::ptr::null(), &VTABLE)
    }
    fn noop(_: *const ()) {}
    static VTABLE: RawWakerVTable = RawWakerVTable::new(clone, noop, noop, noop);
    // SAFETY: the vtable functions do nothing and the data pointer is never dereferenced
    unsafe { Waker::from_raw(RawWaker::new(std::ptr::null(), &VTABLE)) }
}

/// poll once (this is where the blocking task is spawned), then drop: a cancelled interaction
fn start_and_cancel<F: Future>(f: F) {
    let mut f: Pin<Box<F>> = Box::pin(f);
    let waker = noop_waker();
    let mut cx = Context::from_waker(&waker);
    let _ = f.as_mut().poll(&mut cx);
    drop(f);
}

#[derive(Clone, Copy, PartialEq, Debug)]
enum Spoil {
    Poison,
    Broken,
    Invalid,
    Cancelled,
    /// an interaction that is cancelled while its closure is still running; the closure panics a
    /// little later - possibly after the connection is already back in the pool
    LatePoison,
}

impl Spoil {
    fn tok(self) -> &'static str {
        match self {
            Spoil::Poison => "poison",
            Spoil::Broken => "broken",
            Spoil::Invalid => "invalid",
            Spoil::Cancelled => "cancelled",
            Spoil::LatePoison => "latepoison",
        }
    }
}

/// recycle timeout of the pool of the current history (also passed with every call)
static RECYCLE_TIMEOUT: Mutex<Option<Duration>> = Mutex::new(None);

fn zero_wait() -> Timeouts {
    Timeouts { wait: Some(Duration::ZERO), create: None, recycle: *RECYCLE_TIMEOUT.lock().unwrap() }
}

/// what a pool under test offers to the generic history runner
#[allow(async_fn_in_trait)]
trait Subject {
    type Conn;
    fn kinds(&self) -> &'static [Spoil];
    fn status(&self) -> deadpool::Status;
    /// `Ok((connection, serial))`, `Err(text)` for a get that failed
    async fn get(&mut self) -> Result<(Self::Conn, usize), String>;
    async fn spoil(&mut self, c: &Self::Conn, serial: usize, how: Spoil);
    /// backend calls seen since the last call of this function
    fn take_checks(&mut self) -> Option<Vec<(usize, &'static str, bool)>>;
}

// ---------------------------------------------------------------------------------------------
// r2d2 with a scripted manager
// ---------------------------------------------------------------------------------------------

#[derive(Default)]
struct Script {
    broken: Mutex<HashMap<usize, bool>>,
    invalid: Mutex<HashMap<usize, bool>>,
    /// (serial, call, on an async thread)
    calls: Mutex<Vec<(usize, &'static str, bool)>>,
    next: AtomicUsize,
}

struct ScriptedMgr(Arc<Script>);
struct ScriptedConn {
    serial: usize,
}

#[derive(Debug)]
struct ScriptedError;
impl std::fmt::Display for ScriptedError {
    fn fmt(&self, f: &mut std::fmt::Formatter<'_>) -> std::fmt::Result {
        write!(f, "scripted error")
    }
}
impl std::error::Error for ScriptedError {}

impl r2d2::ManageConnection for ScriptedMgr {
    type Connection = ScriptedConn;
    type Error = ScriptedError;
    fn connect(&self) -> Result<ScriptedConn, ScriptedError> {
        let serial = self.0.next.fetch_add(1, Ordering::SeqCst);
        self.0.calls.lock().unwrap().push((serial, "connect", ASYNC_THREAD.with(|c| c.get())));
        Ok(ScriptedConn { serial })
    }
    fn is_valid(&self, c: &mut ScriptedConn) -> Result<(), ScriptedError> {
        self.0.calls.lock().unwrap().push((c.serial, "is_valid", ASYNC_THREAD.with(|c| c.get())));
        if *self.0.invalid.lock().unwrap().get(&c.serial).unwrap_or(&false) {
            Err(ScriptedError)
        } else {
            Ok(())
        }
    }
    fn has_broken(&self, c: &mut ScriptedConn) -> bool {
        self.0.calls.lock().unwrap().push((c.serial, "has_broken", ASYNC_THREAD.with(|c| c.get())));
        *self.0.broken.lock().unwrap().get(&c.serial).unwrap_or(&false)
    }
}

struct R2d2Subject {
    pool: Pool<deadpool_r2d2::Manager<ScriptedMgr>>,
    script: Arc<Script>,
}

impl Subject for R2d2Subject {
    type Conn = Object<deadpool_r2d2::Manager<ScriptedMgr>>;
    fn kinds(&self) -> &'static [Spoil] {
        &[Spoil::Poison, Spoil::Broken, Spoil::Invalid, Spoil::Cancelled, Spoil::LatePoison]
    }
    fn status(&self) -> deadpool::Status {
        self.pool.status()
    }
    async fn get(&mut self) -> Result<(Self::Conn, usize), String> {
        match self.pool.timeout_get(&zero_wait()).await {
            Ok(c) => {
                let serial = c.interact(|c| c.serial).await.map_err(|e| format!("interact:{e}"))?;
                Ok((c, serial))
            }
            Err(e) => Err(err_tok(&e)),
        }
    }
    async fn spoil(&mut self, c: &Self::Conn, serial: usize, how: Spoil) {
        match how {
            Spoil::Poison => {
                let _ = c.interact(|_| std::panic::panic_any("scripted panic")).await;
            }
            Spoil::Broken => {
                let _ = self.script.broken.lock().unwrap().insert(serial, true);
            }
            Spoil::Invalid => {
                let _ = self.script.invalid.lock().unwrap().insert(serial, true);
            }
            Spoil::Cancelled => {
                start_and_cancel(c.interact(|_| std::thread::sleep(Duration::from_micros(300))));
                tokio::time::sleep(Duration::from_millis(2)).await;
            }
            Spoil::LatePoison => {
                // wait until the closure is inside (it holds the wrapper's mutex from then on), so
                // that every later interaction queues behind it and meets the poisoned mutex
                let (tx, rx) = std::sync::mpsc::channel::<()>();
                start_and_cancel(c.interact(move |_| {
                    let _ = tx.send(());
                    std::thread::sleep(Duration::from_millis(3));
                    std::panic::panic_any("scripted late panic")
                }));
                let _ = rx.recv_timeout(Duration::from_secs(5));
            }
        }
    }
    fn take_checks(&mut self) -> Option<Vec<(usize, &'static str, bool)>> {
        Some(std::mem::take(&mut *self.script.calls.lock().unwrap()))
    }
}

fn err_tok<E>(e: &PoolError<E>) -> String {
    match e {
        PoolError::Timeout(deadpool::managed::TimeoutType::Wait) => "timeout_wait".into(),
        PoolError::Timeout(deadpool::managed::TimeoutType::Create) => "timeout_create".into(),
        PoolError::Timeout(deadpool::managed::TimeoutType::Recycle) => "timeout_recycle".into(),
        PoolError::Backend(_) => "backend".into(),
        PoolError::Closed => "closed".into(),
        PoolError::NoRuntimeSpecified => "no_runtime".into(),
        PoolError::PostCreateHook(_) => "post_create_hook".into(),
    }
}

// ---------------------------------------------------------------------------------------------
// sqlite
// ---------------------------------------------------------------------------------------------

struct SqliteSubject {
    pool: deadpool_sqlite::Pool,
    next: usize,
}

impl Subject for SqliteSubject {
    type Conn = deadpool_sqlite::Object;
    fn kinds(&self) -> &'static [Spoil] {
        &[Spoil::Poison, Spoil::Invalid, Spoil::Cancelled, Spoil::LatePoison]
    }
    fn status(&self) -> deadpool::Status {
        self.pool.status()
    }
    async fn get(&mut self) -> Result<(Self::Conn, usize), String> {
        match self.pool.timeout_get(&zero_wait()).await {
            Ok(c) => {
                // identity marker: every connection is its own in-memory database; a fresh one
                // has user_version 0 and is given the next serial (+1, so that 0 means fresh)
                let next = self.next;
                let v: i64 = c
                    .interact(move |conn| {
                        let v: i64 = conn.query_row("PRAGMA user_version", [], |r| r.get(0))?;
                        if v == 0 {
                            conn.execute_batch(&format!("PRAGMA user_version = {}", next + 1))?;
                            Ok::<_, deadpool_sqlite::rusqlite::Error>(-1)
                        } else {
                            Ok(v)
                        }
                    })
                    .await
                    .map_err(|e| format!("interact:{e}"))?
                    .map_err(|e| format!("sqlite:{e}"))?;
                if v == -1 {
                    self.next += 1;
                    Ok((c, next))
                } else {
                    Ok((c, v as usize - 1))
                }
            }
            Err(e) => Err(err_tok(&e)),
        }
    }
    async fn spoil(&mut self, c: &Self::Conn, _serial: usize, how: Spoil) {
        match how {
            Spoil::Poison => {
                let _ = c.interact(|_| std::panic::panic_any("scripted panic")).await;
            }
            Spoil::Invalid => {
                // a statement left running plus an interrupt: SQLite keeps the interrupt flag up
                // while a statement is running, so every later statement - the manager's validity
                // query included - fails with SQLITE_INTERRUPT; no panic, the mutex is not poisoned
                let _ = c
                    .interact(|conn| {
                        if let Ok(mut stmt) = conn.prepare("SELECT 1 UNION ALL SELECT 2") {
                            if let Ok(mut rows) = stmt.query([]) {
                                let _ = rows.next();
                                std::mem::forget(rows);
                            }
                            std::mem::forget(stmt);
                        }
                        conn.get_interrupt_handle().interrupt();
                    })
                    .await;
            }
            Spoil::Cancelled => {
                start_and_cancel(c.interact(|_| std::thread::sleep(Duration::from_micros(300))));
                tokio::time::sleep(Duration::from_millis(2)).await;
            }
            Spoil::LatePoison => {
                // wait until the closure is inside (it holds the wrapper's mutex from then on), so
                // that every later interaction queues behind it and meets the poisoned mutex
                let (tx, rx) = std::sync::mpsc::channel::<()>();
                start_and_cancel(c.interact(move |_| {
                    let _ = tx.send(());
                    std::thread::sleep(Duration::from_millis(3));
                    std::panic::panic_any("scripted late panic")
                }));
                let _ = rx.recv_timeout(Duration::from_secs(5));
            }
            _ => unreachable!(),
        }
    }
    fn take_checks(&mut self) -> Option<Vec<(usize, &'static str, bool)>> {
        None
    }
}

// ---------------------------------------------------------------------------------------------
// diesel (SQLite)
// ---------------------------------------------------------------------------------------------

use diesel::prelude::*;

#[derive(diesel::QueryableByName)]
struct UserVersion {
    #[diesel(sql_type = diesel::sql_types::Integer)]
    user_version: i32,
}

struct DieselSubject {
    pool: deadpool_diesel::sqlite::Pool,
    next: usize,
    /// serials whose scripted check fails (method `custom`)
    invalid: Arc<Mutex<HashMap<usize, bool>>>,
    custom: bool,
    /// method `CustomQuery`: the validity check is a query on a table that `Spoil::Invalid` drops
    custom_query: bool,
}

fn diesel_serial(conn: &mut diesel::SqliteConnection) -> Result<i32, diesel::result::Error> {
    let v: UserVersion = diesel::sql_query("PRAGMA user_version").get_result(conn)?;
    Ok(v.user_version)
}

impl Subject for DieselSubject {
    type Conn = deadpool_diesel::sqlite::Object;
    fn kinds(&self) -> &'static [Spoil] {
        if self.custom {
            &[Spoil::Poison, Spoil::Broken, Spoil::Invalid, Spoil::Cancelled, Spoil::LatePoison]
        } else {
            &[Spoil::Poison, Spoil::Broken, Spoil::Cancelled, Spoil::LatePoison]
        }
    }
    fn status(&self) -> deadpool::Status {
        self.pool.status()
    }
    async fn get(&mut self) -> Result<(Self::Conn, usize), String> {
        match self.pool.timeout_get(&zero_wait()).await {
            Ok(c) => {
                let next = self.next;
                let v = c
                    .interact(move |conn| {
                        let v = diesel_serial(conn)?;
                        if v == 0 {
                            let _ = diesel::sql_query("CREATE TABLE IF NOT EXISTS verif_check (ok INTEGER)").execute(conn)?;
                            let _ = diesel::sql_query(format!("PRAGMA user_version = {}", next + 1)).execute(conn)?;
                            Ok::<_, diesel::result::Error>(-1)
                        } else {
                            Ok(v)
                        }
                    })
                    .await
                    .map_err(|e| format!("interact:{e}"))?
                    .map_err(|e| format!("diesel:{e}"))?;
                if v == -1 {
                    self.next += 1;
                    Ok((c, next))
                } else {
                    Ok((c, v as usize - 1))
                }
            }
            Err(e) => Err(err_tok(&e)),
        }
    }
    async fn spoil(&mut self, c: &Self::Conn, serial: usize, how: Spoil) {
        match how {
            Spoil::Poison => {
                let _ = c.interact(|_| std::panic::panic_any("scripted panic")).await;
            }
            Spoil::Broken => {
                // diesel calls a connection broken in two ways: a transaction left open by the
                // user, or a transaction manager in the `InError` state (a top-level ROLLBACK that
                // failed: here the closure rolls back by hand and then returns an error)
                let in_error = serial % 2 == 1;
                let _ = c
                    .interact(move |conn| {
                        use diesel::connection::{AnsiTransactionManager, Connection, SimpleConnection, TransactionManager};
                        if in_error {
                            let _ = conn.transaction::<(), diesel::result::Error, _>(|c| {
                                c.batch_execute("ROLLBACK")?;
                                Err(diesel::result::Error::RollbackTransaction)
                            });
                            Ok(())
                        } else {
                            AnsiTransactionManager::begin_transaction(conn)
                        }
                    })
                    .await;
            }
            Spoil::Invalid => {
                if self.custom_query {
                    let _ = c.interact(|conn| diesel::sql_query("DROP TABLE IF EXISTS verif_check").execute(conn)).await;
                } else {
                    let _ = self.invalid.lock().unwrap().insert(serial, true);
                }
            }
            Spoil::Cancelled => {
                start_and_cancel(c.interact(|_| std::thread::sleep(Duration::from_micros(300))));
                tokio::time::sleep(Duration::from_millis(2)).await;
            }
            Spoil::LatePoison => {
                // wait until the closure is inside (it holds the wrapper's mutex from then on), so
                // that every later interaction queues behind it and meets the poisoned mutex
                let (tx, rx) = std::sync::mpsc::channel::<()>();
                start_and_cancel(c.interact(move |_| {
                    let _ = tx.send(());
                    std::thread::sleep(Duration::from_millis(3));
                    std::panic::panic_any("scripted late panic")
                }));
                let _ = rx.recv_timeout(Duration::from_secs(5));
            }
        }
    }
    fn take_checks(&mut self) -> Option<Vec<(usize, &'static str, bool)>> {
        None
    }
}

// ---------------------------------------------------------------------------------------------
// histories
// ---------------------------------------------------------------------------------------------

async fn history<S: Subject>(subj: &mut S, rng: &mut Rng, cfg_line: &str, max: usize, len: usize) {
    println!("{cfg_line}");
    println!("spobs cfg ok");
    let mut held: Vec<(S::Conn, usize)> = Vec::new();
    let mut hist: Vec<String> = Vec::new();
    let show = |subj: &S, head: String| {
        let st = subj.status();
        println!("spobs {head} size={} avail={} max={}", st.size, st.available, st.max_size);
    };
    for _ in 0..len {
        let k = rng.below(100);
        if held.is_empty() || (k < 40 && (held.len() < max || rng.chance(15))) {
            println!("sp get");
            let _ = subj.take_checks();
            let r = subj.get().await;
            let checked = match subj.take_checks() {
                None => "-".to_string(),
                Some(calls) => {
                    for (serial, call, on_async) in &calls {
                        if *on_async {
                            println!("spx backend call {call} on connection {serial} ran on an async thread");
                        }
                    }
                    // group consecutive calls per connection, in order (connect is not a check)
                    let mut groups: Vec<(usize, Vec<&str>)> = Vec::new();
                    for (serial, call, _) in calls.iter().filter(|c| c.1 != "connect") {
                        match groups.last_mut() {
                            Some((s, v)) if s == serial => v.push(call),
                            _ => groups.push((*serial, vec![call])),
                        }
                    }
                    groups.iter().map(|(s, v)| format!("{s}:{}", v.join("+"))).collect::<Vec<_>>().join(",")
                }
            };
            match r {
                Ok((c, serial)) => {
                    hist.push(format!("get=ok:{serial}"));
                    show(subj, format!("res=ok:{serial} checked=[{checked}]"));
                    held.push((c, serial));
                }
                Err(e) => {
                    hist.push(format!("get={e}"));
                    show(subj, format!("res={e} checked=[{checked}]"))
                }
            }
        } else if k < 70 {
            let (c, serial) = held.swap_remove(rng.below(held.len()));
            println!("sp ret {serial}");
            hist.push(format!("ret {serial}"));
            drop(c);
            show(subj, "returned".into());
        } else {
            let idx = rng.below(held.len());
            let kinds = subj.kinds();
            let how = kinds[rng.below(kinds.len())];
            let serial = held[idx].1;
            println!("sp spoil {serial} {}", how.tok());
            hist.push(format!("spoil {serial} {}", how.tok()));
            // (split borrow: the connection stays in `held`)
            let c = held.swap_remove(idx);
            subj.spoil(&c.0, serial, how).await;
            held.push(c);
            show(subj, "spoiled".into());
        }
        println!("spx history {}", hist.join("; "));
    }
}

fn main() {
    ASYNC_THREAD.with(|c| c.set(true));
    let args: Vec<String> = std::env::args().collect();
    let get = |k: &str, d: u64| -> u64 {
        args.iter().position(|a| a == k).and_then(|i| args.get(i + 1)).and_then(|v| v.parse().ok()).unwrap_or(d)
    };
    let mode = args.get(1).map(|s| s.as_str()).unwrap_or("");
    if mode == "asyncstd-check" {
        // the sqlite pool on the second runtime flavour: a connection whose closure panicked is
        // discarded and replaced, and get() keeps serving (under async-std a panic inside a
        // blocking closure is handed to whoever awaits it, so this must not reach get())
        std::panic::set_hook(Box::new(|_| {}));
        let run = || -> Result<String, String> {
            use std::panic::{catch_unwind, AssertUnwindSafe};
            let mut cfg = deadpool_sqlite::Config::new(":memory:");
            cfg.pool = Some(deadpool_sqlite::PoolConfig::new(1));
            let pool = cfg.create_pool(deadpool_sqlite::Runtime::AsyncStd1).map_err(|e| format!("create_pool:{e}"))?;
            let c = async_std::task::block_on(pool.get()).map_err(|e| format!("first get:{e}"))?;
            let _ = async_std::task::block_on(c.interact(|conn| conn.execute_batch("PRAGMA user_version = 7")))
                .map_err(|e| format!("mark:{e}"))?;
            // the closure panics: whatever async-std does with the panic, the wrapper is poisoned
            let _ = catch_unwind(AssertUnwindSafe(|| {
                let _ = async_std::task::block_on(c.interact(|_| std::panic::panic_any("scripted panic")));
            }));
            drop(c);
            let again = catch_unwind(AssertUnwindSafe(|| async_std::task::block_on(pool.get())));
            let c2 = match again {
                Err(_) => return Ok("get=panicked ok=0".into()),
                Ok(Err(e)) => return Ok(format!("get=err:{e} ok=0")),
                Ok(Ok(c2)) => c2,
            };
            let v = catch_unwind(AssertUnwindSafe(|| {
                async_std::task::block_on(c2.interact(|conn| conn.query_row("PRAGMA user_version", [], |r| r.get::<_, i64>(0))))
            }));
            match v {
                Ok(Ok(Ok(0))) => Ok("get=ok fresh=1 ok=1".into()),
                Ok(Ok(Ok(n))) => Ok(format!("get=ok fresh=0 user_version={n} ok=0")),
                _ => Ok("get=ok usable=0 ok=0".into()),
            }
        };
        match run() {
            Ok(l) => println!("sqlite-asyncstd {l}"),
            Err(e) => println!("sqlite-asyncstd error {e} ok=0"),
        }
        // second history: the panic arrives *inside* get(). A closure that is still running when
        // its interaction is abandoned panics while the next get() is already waiting for the
        // connection's mutex in `Manager::recycle`; under async-std that get() ends in the panic.
        // Whatever it ends in, the dead connection must be off the books: the pool (max_size 1)
        // must afterwards hand out a connection, take it back and hand one out again. (If the
        // machine is so slow that the closure panics before the get() waits, the poison pre-check
        // rejects the connection instead - same expected outcome.)
        let run_late = || -> Result<String, String> {
            use std::panic::{catch_unwind, AssertUnwindSafe};
            let mut cfg = deadpool_sqlite::Config::new(":memory:");
            cfg.pool = Some(deadpool_sqlite::PoolConfig::new(1));
            let pool = cfg.create_pool(deadpool_sqlite::Runtime::AsyncStd1).map_err(|e| format!("create_pool:{e}"))?;
            let c = async_std::task::block_on(pool.get()).map_err(|e| format!("first get:{e}"))?;
            let (go_tx, go_rx) = std::sync::mpsc::channel::<()>();
            let (started_tx, started_rx) = std::sync::mpsc::channel::<()>();
            // abandoned while the closure runs
            let _ = catch_unwind(AssertUnwindSafe(|| {
                async_std::task::block_on(async {
                    let fut = c.interact(move |_| {
                        let _ = started_tx.send(());
                        let _ = go_rx.recv_timeout(Duration::from_secs(20));
                        std::panic::panic_any("scripted panic")
                    });
                    let _ = async_std::future::timeout(Duration::from_millis(50), fut).await;
                })
            }));
            started_rx.recv_timeout(Duration::from_secs(10)).map_err(|_| "closure did not start".to_string())?;
            drop(c);
            let p2 = pool.clone();
            let h = std::thread::spawn(move || {
                catch_unwind(AssertUnwindSafe(|| async_std::task::block_on(p2.get()).map(|_| ()).map_err(|e| e.to_string())))
            });
            std::thread::sleep(Duration::from_millis(400));
            let _ = go_tx.send(());
            let get2 = match h.join() {
                Ok(Ok(Ok(()))) => "ok".to_string(),
                Ok(Ok(Err(e))) => format!("err:{e}"),
                _ => "panicked".to_string(),
            };
            let serve = |what: &str| -> Result<(), String> {
                let r = catch_unwind(AssertUnwindSafe(|| {
                    async_std::task::block_on(async_std::future::timeout(Duration::from_secs(10), pool.get()))
                }));
                match r {
                    Ok(Ok(Ok(c))) => {
                        let v = catch_unwind(AssertUnwindSafe(|| {
                            async_std::task::block_on(c.interact(|conn| conn.query_row("SELECT 1", [], |r| r.get::<_, i64>(0))))
                        }));
                        if !matches!(v, Ok(Ok(Ok(1)))) {
                            return Err(format!("{what}: connection not usable"));
                        }
                        Ok(())
                    }
                    Ok(Ok(Err(e))) => Err(format!("{what}: {e}")),
                    Ok(Err(_)) => Err(format!("{what}: no connection within 10 s, status {:?}", pool.status())),
                    Err(_) => Err(format!("{what}: panicked")),
                }
            };
            if let Err(e) = serve("get after the panic").and_then(|_| serve("second get after the panic")) {
                return Ok(format!("late get2={get2} {e} ok=0"));
            }
            let st = pool.status();
            if st.size > st.max_size {
                return Ok(format!("late get2={get2} status {:?} ok=0", st));
            }
            Ok(format!("late get2={get2} served=2 size={} ok=1", st.size))
        };
        match run_late() {
            Ok(l) => println!("sqlite-asyncstd {l}"),
            Err(e) => println!("sqlite-asyncstd late error {e} ok=0"),
        }
        return;
    }
    if mode != "diff" {
        eprintln!("usage: h-syncpools diff --seed S --cases N");
        std::process::exit(2);
    }
    let seed = get("--seed", 1);
    let cases = get("--cases", 100) as usize;
    std::panic::set_hook(Box::new(|_| {}));
    let mut rng = Rng(seed.wrapping_mul(0x2545F4914F6CDD1D) ^ 0xC15);
    const WORKERS: usize = 2;
    let rt = tokio::runtime::Builder::new_multi_thread().worker_threads(WORKERS).enable_time().build().unwrap();
    // mark the async threads (see h-sync)
    let seen = Arc::new(Mutex::new(std::collections::HashSet::new()));
    let t0 = std::time::Instant::now();
    while seen.lock().unwrap().len() < WORKERS && t0.elapsed() < Duration::from_secs(5) {
        let hs: Vec<_> = (0..2 * WORKERS)
            .map(|_| {
                let seen = seen.clone();
                rt.spawn(async move {
                    ASYNC_THREAD.with(|c| c.set(true));
                    let _ = seen.lock().unwrap().insert(std::thread::current().id());
                    std::thread::sleep(Duration::from_micros(300));
                })
            })
            .collect();
        for h in hs {
            let _ = rt.block_on(h);
        }
    }
    let mut done = 0usize;
    while done < cases {
        let max = 1 + rng.below(3);
        // every other pool with room for more than one connection is built small and grown:
        // the limit in force is the one `resize()` set, not the configured one
        let grown = max > 1 && rng.chance(40);
        let bmax = if grown { 1 } else { max };
        let len = 4 + rng.below(14);
        done += len + 1;
        let which = rng.below(4);
        // every other pool has a (generous) recycle timeout: the verdict of `Manager::recycle`
        // must count with and without one
        let rtmo = if rng.chance(50) { Some(Duration::from_secs(30)) } else { None };
        *RECYCLE_TIMEOUT.lock().unwrap() = rtmo;
        rt.block_on(async {
            match which {
                0 => {
                    let script = Arc::new(Script::default());
                    let mgr = deadpool_r2d2::Manager::new(ScriptedMgr(script.clone()), Runtime::Tokio1);
                    let pool = Pool::builder(mgr).max_size(bmax).runtime(Runtime::Tokio1).recycle_timeout(rtmo).build().unwrap();
                    if grown {
                        pool.resize(max);
                    }
                    let mut s = R2d2Subject { pool, script };
                    history(&mut s, &mut rng, &format!("sp cfg kind=r2d2 max={max} method=fast"), max, len).await;
                }
                1 => {
                    let cfg = deadpool_sqlite::Config::new(":memory:");
                    let mut cfg = cfg;
                    let mut pc = deadpool_sqlite::PoolConfig::new(bmax);
                    pc.timeouts.recycle = rtmo;
                    cfg.pool = Some(pc);
                    let pool = cfg.create_pool(deadpool_sqlite::Runtime::Tokio1).unwrap();
                    if grown {
                        pool.resize(max);
                    }
                    let mut s = SqliteSubject { pool, next: 0 };
                    history(&mut s, &mut rng, &format!("sp cfg kind=sqlite max={max} method=fast"), max, len).await;
                }
                _ => {
                    let method = rng.below(4);
                    let invalid: Arc<Mutex<HashMap<usize, bool>>> = Arc::default();
                    let inv2 = invalid.clone();
                    let recycling_method = match method {
                        0 => deadpool_diesel::RecyclingMethod::Fast,
                        1 => deadpool_diesel::RecyclingMethod::Verified,
                        3 => deadpool_diesel::RecyclingMethod::CustomQuery("SELECT ok FROM verif_check".into()),
                        _ => deadpool_diesel::RecyclingMethod::CustomFunction(Box::new(move |conn| {
                            let v = diesel_serial(conn).map_err(deadpool_diesel::Error::Ping)?;
                            if v > 0 && *inv2.lock().unwrap().get(&(v as usize - 1)).unwrap_or(&false) {
                                Err(deadpool_diesel::Error::Ping(diesel::result::Error::NotFound))
                            } else {
                                Ok(())
                            }
                        })),
                    };
                    let mgr = deadpool_diesel::sqlite::Manager::from_config(
                        ":memory:",
                        deadpool_diesel::Runtime::Tokio1,
                        deadpool_diesel::ManagerConfig { recycling_method },
                    );
                    let pool = deadpool_diesel::sqlite::Pool::builder(mgr)
                        .max_size(bmax)
                        .runtime(deadpool_diesel::Runtime::Tokio1)
                        .recycle_timeout(rtmo)
                        .build()
                        .unwrap();
                    if grown {
                        pool.resize(max);
                    }
                    let mut s = DieselSubject { pool, next: 0, invalid, custom: method >= 2, custom_query: method == 3 };
                    let m = if method == 0 { "fast" } else { "verified" };
                    history(&mut s, &mut rng, &format!("sp cfg kind=diesel max={max} method={m}"), max, len).await;
                }
            }
        });
    }
}
