//! h-pg: differential harness for deadpool-postgres.
//!
//! `cfg-diff`: generates `Config` values, calls the real `get_pg_config()` and prints, per
//! case, the input in the line protocol of the Lean model (`pgcfg …`) followed by what the
//! real code returned (`pgres …`), plus pool / manager pass-through and build-error checks.

use std::{net::IpAddr, panic::catch_unwind, str::FromStr, time::Duration};

use deadpool_postgres::{
    ChannelBinding, Config, LoadBalanceHosts, ManagerConfig, PoolConfig, RecyclingMethod, Runtime,
    SslMode, TargetSessionAttrs, Timeouts,
};
use tokio_postgres::config::Host;
use tokio_postgres::NoTls;

struct Rng(u64);
impl Rng {
    fn next(&mut self) -> u64 {
        self.0 = self.0.wrapping_add(0x9E3779B97F4A7C15);
        let mut z = self.0;
        z = (z ^ (z >> 30)).wrapping_mul(0xBF58476D1CE4E5B9);
        z = (z ^ (z >> 27)).wrapping_mul(0x94D049BB133111EB);
        z ^ (z >> 31)
    }
    fn below(&mut self, n: usize) -> usize {
        (self.next() % n.max(1) as u64) as usize
    }
    fn chance(&mut self, p: usize) -> bool {
        self.below(100) < p
    }
    fn pick<'a, T>(&mut self, v: &'a [T]) -> &'a T {
        &v[self.below(v.len())]
    }
}

fn hex(s: &[u8]) -> String {
    if s.is_empty() {
        return "e".into();
    }
    s.iter().map(|b| format!("{:02x}", b)).collect()
}

fn opt_hex(s: Option<&[u8]>) -> String {
    match s {
        None => "-".into(),
        Some(b) => hex(b),
    }
}

fn host_str(h: &Host) -> String {
    match h {
        Host::Tcp(s) => format!("T:{}", hex(s.as_bytes())),
        #[cfg(unix)]
        Host::Unix(p) => format!("U:{}", hex(p.to_string_lossy().as_bytes())),
    }
}

fn list(v: Vec<String>) -> String {
    if v.is_empty() {
        "-".into()
    } else {
        v.join(",")
    }
}

fn ssl(m: tokio_postgres::config::SslMode) -> &'static str {
    match m {
        tokio_postgres::config::SslMode::Disable => "disable",
        tokio_postgres::config::SslMode::Prefer => "prefer",
        tokio_postgres::config::SslMode::Require => "require",
        _ => "other",
    }
}
fn tsa(m: tokio_postgres::config::TargetSessionAttrs) -> &'static str {
    match m {
        tokio_postgres::config::TargetSessionAttrs::Any => "any",
        tokio_postgres::config::TargetSessionAttrs::ReadWrite => "read_write",
        _ => "other",
    }
}
fn cb(m: tokio_postgres::config::ChannelBinding) -> &'static str {
    match m {
        tokio_postgres::config::ChannelBinding::Disable => "disable",
        tokio_postgres::config::ChannelBinding::Prefer => "prefer",
        tokio_postgres::config::ChannelBinding::Require => "require",
        _ => "other",
    }
}
fn lbh(m: tokio_postgres::config::LoadBalanceHosts) -> &'static str {
    match m {
        tokio_postgres::config::LoadBalanceHosts::Disable => "disable",
        tokio_postgres::config::LoadBalanceHosts::Random => "random",
        _ => "other",
    }
}

/// every getter of `tokio_postgres::Config`, as `prefix.key=value` words
fn dump(c: &tokio_postgres::Config, p: &str) -> String {
    format!(
        "{p}user={} {p}password={} {p}dbname={} {p}options={} {p}app={} {p}ssl={} {p}hosts={} {p}hostaddrs={} {p}ports={} {p}cto={} {p}ka={} {p}kai={} {p}tsa={} {p}cb={} {p}lbh={}",
        opt_hex(c.get_user().map(|s| s.as_bytes())),
        opt_hex(c.get_password()),
        opt_hex(c.get_dbname().map(|s| s.as_bytes())),
        opt_hex(c.get_options().map(|s| s.as_bytes())),
        opt_hex(c.get_application_name().map(|s| s.as_bytes())),
        ssl(c.get_ssl_mode()),
        list(c.get_hosts().iter().map(host_str).collect()),
        list(c.get_hostaddrs().iter().map(|a| hex(a.to_string().as_bytes())).collect()),
        list(c.get_ports().iter().map(|p| p.to_string()).collect()),
        c.get_connect_timeout().map(|d| d.as_nanos().to_string()).unwrap_or("-".into()),
        if c.get_keepalives() { 1 } else { 0 },
        c.get_keepalives_idle().as_nanos(),
        tsa(c.get_target_session_attrs()),
        cb(c.get_channel_binding()),
        lbh(c.get_load_balance_hosts()),
    )
}

const STRINGS: &[&str] = &[
    "", "u", "postgres", "na me", "üñï", "a=b", "/tmp", "/var/run/pg", "localhost", "db.example.com",
    "x'y\"z", "-c statement_timeout=5s", "💾",
];
const URLS: &[&str] = &[
    "postgres://user:pw@host1:5433/db1",
    "postgresql://host2/db2?sslmode=require&application_name=app",
    "postgres://u2@h3,h4:5432,5433/db3?connect_timeout=7&keepalives=0&keepalives_idle=9",
    "postgres:///db4",
    "postgres://",
    "postgres://host5",
    "postgres://:pw@host6/",
    "host=localhost user=u3 dbname=d5",
    "host=/var/run dbname=d6 port=5444",
    "user=u4",
    "dbname=''",
    "postgres://host7/db7?target_session_attrs=read-write&channel_binding=require&load_balance_hosts=random",
    "postgres://host8/db8?options=-c%20x%3D1&hostaddr=10.0.0.1",
    "",
    "notaurl://x",
    "postgres://[::1",
    "host=",
    "=",
    "postgres://host/db?sslmode=bogus",
    "postgres://host/db?nosuchparam=1",
    "postgres://host:notaport/db",
    "\u{0}",
    "postgres://üser@höst/dß",
];

fn gen_str(r: &mut Rng, hosts: bool) -> String {
    if hosts && r.chance(30) {
        return (*r.pick(&["/tmp", "/var/run/pg", "localhost", "h.example", ""])).to_string();
    }
    (*r.pick(STRINGS)).to_string()
}

fn gen_config(r: &mut Rng, p_set: usize) -> Config {
    let mut c = Config::new();
    if r.chance(p_set) {
        c.url = Some((*r.pick(URLS)).to_string());
    }
    if r.chance(p_set) {
        c.user = Some(gen_str(r, false));
    }
    if r.chance(p_set) {
        c.password = Some(gen_str(r, false));
    }
    if r.chance(p_set.max(75)) {
        c.dbname = Some(if r.chance(85) { (*r.pick(&["db", "postgres", "d b", "dß"])).to_string() } else { gen_str(r, false) });
    }
    if r.chance(p_set) {
        c.options = Some(gen_str(r, false));
    }
    if r.chance(p_set) {
        c.application_name = Some(gen_str(r, false));
    }
    if r.chance(p_set) {
        c.ssl_mode = Some(*r.pick(&[SslMode::Disable, SslMode::Prefer, SslMode::Require]));
    }
    if r.chance(p_set) {
        c.host = Some(gen_str(r, true));
    }
    if r.chance(p_set) {
        let n = r.below(3);
        c.hosts = Some((0..n).map(|_| gen_str(r, true)).collect());
    }
    let addrs = ["127.0.0.1", "10.1.2.3", "::1", "fe80::1"];
    if r.chance(p_set) {
        c.hostaddr = Some(IpAddr::from_str(*r.pick(&addrs[..])).unwrap());
    }
    if r.chance(p_set) {
        let n = r.below(3);
        c.hostaddrs = Some((0..n).map(|_| IpAddr::from_str(*r.pick(&addrs[..])).unwrap()).collect());
    }
    if r.chance(p_set) {
        c.port = Some(*r.pick(&[0u16, 1, 5432, 65535]));
    }
    if r.chance(p_set) {
        let n = r.below(3);
        c.ports = Some((0..n).map(|_| *r.pick(&[5432u16, 5433, 1])).collect());
    }
    if r.chance(p_set) {
        c.connect_timeout = Some(Duration::new(r.below(100) as u64, r.below(1000) as u32));
    }
    if r.chance(p_set) {
        c.keepalives = Some(r.chance(50));
    }
    if r.chance(p_set) {
        c.keepalives_idle = Some(Duration::new(r.below(10000) as u64, 0));
    }
    if r.chance(p_set) {
        c.target_session_attrs = Some(*r.pick(&[TargetSessionAttrs::Any, TargetSessionAttrs::ReadWrite]));
    }
    if r.chance(p_set) {
        c.channel_binding = Some(*r.pick(&[ChannelBinding::Disable, ChannelBinding::Prefer, ChannelBinding::Require]));
    }
    if r.chance(p_set) {
        c.load_balance_hosts = Some(*r.pick(&[LoadBalanceHosts::Disable, LoadBalanceHosts::Random]));
    }
    c
}

fn opt_s(s: &Option<String>) -> String {
    opt_hex(s.as_ref().map(|x| x.as_bytes()))
}

fn opt_list<T>(v: &Option<Vec<T>>, f: impl Fn(&T) -> String) -> String {
    match v {
        None => "-".into(),
        Some(v) if v.is_empty() => "[]".into(),
        Some(v) => v.iter().map(f).collect::<Vec<_>>().join(","),
    }
}

fn input_line(c: &Config, env_user: &Option<String>) -> String {
    let base = match &c.url {
        None => Some(tokio_postgres::Config::new()),
        Some(u) => tokio_postgres::Config::from_str(u).ok(),
    };
    let b = match &base {
        None => "base=err".to_string(),
        Some(b) => format!("base=ok {}", dump(b, "b.")),
    };
    format!(
        "pgcfg {} env={} url={} user={} password={} dbname={} options={} app={} ssl={} host={} hosts={} hostaddr={} hostaddrs={} port={} ports={} cto={} ka={} kai={} tsa={} cb={} lbh={}",
        b,
        opt_s(env_user),
        if c.url.is_some() { 1 } else { 0 },
        opt_s(&c.user),
        opt_s(&c.password),
        opt_s(&c.dbname),
        opt_s(&c.options),
        opt_s(&c.application_name),
        c.ssl_mode.map(|m| ssl(m.into()).to_string()).unwrap_or("-".into()),
        opt_s(&c.host),
        opt_list(&c.hosts, |h| hex(h.as_bytes())),
        c.hostaddr.map(|a| hex(a.to_string().as_bytes())).unwrap_or("-".into()),
        opt_list(&c.hostaddrs, |a| hex(a.to_string().as_bytes())),
        c.port.map(|p| p.to_string()).unwrap_or("-".into()),
        opt_list(&c.ports, |p| p.to_string()),
        c.connect_timeout.map(|d| d.as_nanos().to_string()).unwrap_or("-".into()),
        c.keepalives.map(|k| if k { "1" } else { "0" }.to_string()).unwrap_or("-".into()),
        c.keepalives_idle.map(|d| d.as_nanos().to_string()).unwrap_or("-".into()),
        c.target_session_attrs.map(|m| tsa(m.into()).to_string()).unwrap_or("-".into()),
        c.channel_binding.map(|m| cb(m.into()).to_string()).unwrap_or("-".into()),
        c.load_balance_hosts.map(|m| lbh(m.into()).to_string()).unwrap_or("-".into()),
    )
}

fn result_line(c: &Config) -> String {
    let c2 = c.clone();
    match catch_unwind(move || c2.get_pg_config()) {
        Err(_) => "pgres panicked".into(),
        Ok(Err(e)) => match e {
            deadpool_postgres::ConfigError::InvalidUrl(_) => "pgres err=invalid_url".into(),
            deadpool_postgres::ConfigError::DbnameMissing => "pgres err=dbname_missing".into(),
            deadpool_postgres::ConfigError::DbnameEmpty => "pgres err=dbname_empty".into(),
        },
        Ok(Ok(r)) => format!("pgres ok {}", dump(&r, "")),
    }
}

fn tmo(r: &mut Rng) -> Option<Duration> {
    match r.below(3) {
        0 => None,
        1 => Some(Duration::ZERO),
        _ => Some(Duration::new(r.below(50) as u64, r.below(999) as u32)),
    }
}

/// pool / manager sections reach the built pool unchanged; timeouts without runtime are a build error
fn passthrough_line(r: &mut Rng, c: &mut Config) -> String {
    let with_pool = r.chance(70);
    let pc = PoolConfig {
        max_size: r.below(40),
        timeouts: Timeouts {
            wait: tmo(r),
            create: tmo(r),
            recycle: tmo(r),
        },
        queue_mode: if r.chance(50) {
            deadpool::managed::QueueMode::Fifo
        } else {
            deadpool::managed::QueueMode::Lifo
        },
    };
    let methods = [
        RecyclingMethod::Fast,
        RecyclingMethod::Verified,
        RecyclingMethod::Clean,
        RecyclingMethod::Custom("SELECT 42".into()),
    ];
    let with_mgr = r.chance(70);
    let mc = ManagerConfig {
        recycling_method: r.pick(&methods).clone(),
    };
    c.pool = if with_pool { Some(pc) } else { None };
    c.manager = if with_mgr { Some(mc.clone()) } else { None };
    let rt = if r.chance(50) { Some(Runtime::Tokio1) } else { None };
    let any_timeout = with_pool && (pc.timeouts.wait.is_some() || pc.timeouts.create.is_some() || pc.timeouts.recycle.is_some());
    let expect_mgr = if with_mgr { mc } else { ManagerConfig::default() };
    let got_mgr = c.get_manager_config();
    let got_pool = c.get_pool_config();
    let mut problems: Vec<String> = Vec::new();
    if format!("{:?}", got_mgr) != format!("{:?}", expect_mgr) {
        problems.push(format!("get_manager_config {:?} != {:?}", got_mgr, expect_mgr));
    }
    if with_pool && format!("{:?}", got_pool) != format!("{:?}", pc) {
        problems.push(format!("get_pool_config {:?} != {:?}", got_pool, pc));
    }
    let c2 = c.clone();
    let res = catch_unwind(move || c2.create_pool(rt, NoTls));
    let valid = c.get_pg_config().is_ok();
    let outcome = match res {
        Err(_) => {
            problems.push("create_pool panicked".into());
            "panic"
        }
        Ok(Err(deadpool_postgres::CreatePoolError::Config(_))) => {
            if valid {
                problems.push("Config error for a valid configuration".into());
            }
            "config_error"
        }
        Ok(Err(deadpool_postgres::CreatePoolError::Build(_))) => {
            if !(any_timeout && rt.is_none()) {
                problems.push("Build error although no timeout without runtime was configured".into());
            }
            "build_error"
        }
        Ok(Ok(pool)) => {
            if !valid {
                problems.push("pool built from an invalid configuration".into());
            }
            if any_timeout && rt.is_none() {
                problems.push("timeouts configured without a runtime were accepted by create_pool".into());
            }
            let expect = if with_pool { pc } else { PoolConfig::default() };
            if pool.status().max_size != expect.max_size {
                problems.push(format!("max_size {} != {}", pool.status().max_size, expect.max_size));
            }
            let t = pool.timeouts();
            if t.wait != expect.timeouts.wait || t.create != expect.timeouts.create || t.recycle != expect.timeouts.recycle {
                problems.push(format!("timeouts {:?} != {:?}", t, expect.timeouts));
            }
            let dbg = format!("{:?}", pool.manager());
            if !dbg.contains(&format!("{:?}", expect_mgr)) {
                problems.push(format!("manager config not passed through: {}", dbg.chars().take(120).collect::<String>()));
            }
            "built"
        }
    };
    format!(
        "pgpool outcome={} valid={} timeouts={} rt={} problems={}",
        outcome,
        valid,
        any_timeout,
        rt.is_some(),
        if problems.is_empty() { "-".to_string() } else { problems.join(" | ") }
    )
}

fn arg<'a>(args: &'a [String], k: &str) -> Option<&'a str> {
    args.iter().position(|a| a == k).and_then(|i| args.get(i + 1)).map(|s| s.as_str())
}

fn main() {
    std::panic::set_hook(Box::new(|_| {}));
    let args: Vec<String> = std::env::args().collect();
    let mode = args.get(1).map(|s| s.as_str()).unwrap_or("");
    let seed: u64 = arg(&args, "--seed").and_then(|s| s.parse().ok()).unwrap_or(1);
    let n: usize = arg(&args, "--cases").and_then(|s| s.parse().ok()).unwrap_or(1000);
    let mut r = Rng(seed.wrapping_mul(0x2545F4914F6CDD1D) ^ 0xABCDEF);
    match mode {
        "cfg-diff" => {
            for k in 0..n {
                // the caller's environment: USER set / unset / empty
                let env_user = match r.below(4) {
                    0 => None,
                    1 => Some(String::new()),
                    _ => Some("envuser".to_string()),
                };
                match &env_user {
                    Some(u) => std::env::set_var("USER", u),
                    None => std::env::remove_var("USER"),
                }
                let p_set = *r.pick(&[10usize, 30, 50, 80]);
                let mut c = if k < 64 {
                    // the first cases: every single optional field alone / none / all
                    gen_config(&mut r, if k % 2 == 0 { 15 } else { 90 })
                } else {
                    gen_config(&mut r, p_set)
                };
                println!("{}", input_line(&c, &env_user));
                println!("{}", result_line(&c));
                println!("{}", passthrough_line(&mut r, &mut c));
            }
        }
        "recycling" => {
            for m in [
                RecyclingMethod::Fast,
                RecyclingMethod::Verified,
                RecyclingMethod::Clean,
                RecyclingMethod::Custom("53454c4543542031".into()),
            ] {
                let name = match &m {
                    RecyclingMethod::Fast => "fast".to_string(),
                    RecyclingMethod::Verified => "verified".to_string(),
                    RecyclingMethod::Clean => "clean".to_string(),
                    RecyclingMethod::Custom(s) => format!("custom {}", s),
                };
                println!("pgquery {}", name);
                println!(
                    "{}",
                    match m.query() {
                        None => "pgquery none".to_string(),
                        Some(q) => format!("pgquery some:{}", q),
                    }
                );
            }
        }
        _ => {
            eprintln!("usage: h-pg cfg-diff --seed S --cases N | recycling");
            std::process::exit(2);
        }
    }
}
