//! h-pg: differential harness for deadpool-postgres.
//!
//! `cfg-diff`: generates `Config` values, calls the real `get_pg_config()` and prints, per
//! case, the input in the line protocol of the Lean model (`pgcfg …`) followed by what the
//! real code returned (`pgres …`), plus pool / manager pass-through and build-error checks.

use std::{net::IpAddr, panic::catch_unwind, str::FromStr, time::Duration};

use deadpool_postgres::{
    ChannelBinding, Config, LoadBalanceHosts, ManagerConfig, PoolConfig, RecyclingMethod, Runtime,
    SslMode, TargetSessionAttrs, Timeouts,
};
use tokio_postgres::config::Host;
use tokio_postgres::NoTls;

struct Rng(u64);
impl Rng {
    fn next(&mut self) -> u64 {
        self.0 = self.0.wrapping_add(0x9E3779B97F4A7C15);
        let mut z = self.0;
        z = (z ^ (z >> 30)).wrapping_mul(0xBF58476D1CE4E5B9);
        z = (z ^ (z >> 27)).wrapping_mul(0x94D049BB133111EB);
        z ^ (z >> 31)
    }
    fn below(&mut self, n: usize) -> usize {
        (self.next() % n.max(1) as u64) as usize
    }
    fn chance(&mut self, p: usize) -> bool {
        self.below(100) < p
    }
    fn pick<'a, T>(&mut self, v: &'a [T]) -> &'a T {
        &v[self.below(v.len())]
    }
}

fn hex(s: &[u8]) -> String {
    if s.is_empty() {
        return "e".into();
    }
    s.iter().map(|b| format!("{:02x}", b)).collect()
}

fn opt_hex(s: Option<&[u8]>) -> String {
    match s {
        None => "-".into(),
        Some(b) => hex(b),
    }
}

fn host_str(h: &Host) -> String {
    match h {
        Host::Tcp(s) => format!("T:{}", hex(s.as_bytes())),
        #[cfg(unix)]
        Host::Unix(p) => format!("U:{}", hex(p.to_string_lossy().as_bytes())),
    }
}

fn list(v: Vec<String>) -> String {
    if v.is_empty() {
        "-".into()
    } else {
        v.join(",")
    }
}

fn ssl(m: tokio_postgres::config::SslMode) -> &'static str {
    match m {
        tokio_postgres::config::SslMode::Disable => "disable",
        tokio_postgres::config::SslMode::Prefer => "prefer",
        tokio_postgres::config::SslMode::Require => "require",
        _ => "other",
    }
}
fn tsa(m: tokio_postgres::config::TargetSessionAttrs) -> &'static str {
    match m {
        tokio_postgres::config::TargetSessionAttrs::Any => "any",
        tokio_postgres::config::TargetSessionAttrs::ReadWrite => "read_write",
        _ => "other",
    }
}
fn cb(m: tokio_postgres::config::ChannelBinding) -> &'static str {
    match m {
        tokio_postgres::config::ChannelBinding::Disable => "disable",
        tokio_postgres::config::ChannelBinding::Prefer => "prefer",
        tokio_postgres::config::ChannelBinding::Require => "require",
        _ => "other",
    }
}
fn lbh(m: tokio_postgres::config::LoadBalanceHosts) -> &'static str {
    match m {
        tokio_postgres::config::LoadBalanceHosts::Disable => "disable",
        tokio_postgres::config::LoadBalanceHosts::Random => "random",
        _ => "other",
    }
}

// the inputs are rendered from deadpool's own enums, never through the `From` impls under test
fn in_ssl(m: deadpool_postgres::SslMode) -> &'static str {
    match m {
        deadpool_postgres::SslMode::Disable => "disable",
        deadpool_postgres::SslMode::Prefer => "prefer",
        deadpool_postgres::SslMode::Require => "require",
        #[allow(unreachable_patterns)]
        _ => "other",
    }
}
fn in_tsa(m: deadpool_postgres::TargetSessionAttrs) -> &'static str {
    match m {
        deadpool_postgres::TargetSessionAttrs::Any => "any",
        deadpool_postgres::TargetSessionAttrs::ReadWrite => "read_write",
        #[allow(unreachable_patterns)]
        _ => "other",
    }
}
fn in_cb(m: ChannelBinding) -> &'static str {
    match m {
        ChannelBinding::Disable => "disable",
        ChannelBinding::Prefer => "prefer",
        ChannelBinding::Require => "require",
        #[allow(unreachable_patterns)]
        _ => "other",
    }
}
fn in_lbh(m: LoadBalanceHosts) -> &'static str {
    match m {
        LoadBalanceHosts::Disable => "disable",
        LoadBalanceHosts::Random => "random",
        #[allow(unreachable_patterns)]
        _ => "other",
    }
}

/// every getter of `tokio_postgres::Config`, as `prefix.key=value` words
fn dump(c: &tokio_postgres::Config, p: &str) -> String {
    format!(
        "{p}user={} {p}password={} {p}dbname={} {p}options={} {p}app={} {p}ssl={} {p}hosts={} {p}hostaddrs={} {p}ports={} {p}cto={} {p}ka={} {p}kai={} {p}tsa={} {p}cb={} {p}lbh={}",
        opt_hex(c.get_user().map(|s| s.as_bytes())),
        opt_hex(c.get_password()),
        opt_hex(c.get_dbname().map(|s| s.as_bytes())),
        opt_hex(c.get_options().map(|s| s.as_bytes())),
        opt_hex(c.get_application_name().map(|s| s.as_bytes())),
        ssl(c.get_ssl_mode()),
        list(c.get_hosts().iter().map(host_str).collect()),
        list(c.get_hostaddrs().iter().map(|a| hex(a.to_string().as_bytes())).collect()),
        list(c.get_ports().iter().map(|p| p.to_string()).collect()),
        c.get_connect_timeout().map(|d| d.as_nanos().to_string()).unwrap_or("-".into()),
        if c.get_keepalives() { 1 } else { 0 },
        c.get_keepalives_idle().as_nanos(),
        tsa(c.get_target_session_attrs()),
        cb(c.get_channel_binding()),
        lbh(c.get_load_balance_hosts()),
    )
}

const STRINGS: &[&str] = &[
    "", "u", "postgres", "na me", "üñï", "a=b", "/tmp", "/var/run/pg", "localhost", "db.example.com",
    "x'y\"z", "-c statement_timeout=5s", "💾", " ", "\t", "\u{a0}",
    // long values: past the 63 bytes PostgreSQL keeps of an identifier / application_name, with
    // and without a multi-byte character across that boundary, and a long one made of 2-byte
    // characters only (any byte offset that is not even lies inside a character)
    "aaaaaaaaaaaaaaaaaaaaaaaaaaaaaaaaaaaaaaaaaaaaaaaaaaaaaaaaaaaaaaaaaaaaaaaaaaaaaa",
    "aaaaaaaaaaaaaaaaaaaaaaaaaaaaaaaaaaaaaaaaaaaaaaaaaaaaaaaaaaaaaaéb",
    "éééééééééééééééééééééééééééééééééééééééé",
];
const URLS: &[&str] = &[
    "postgres://user:pw@host1:5433/db1",
    "postgresql://host2/db2?sslmode=require&application_name=app",
    "postgres://u2@h3,h4:5432,5433/db3?connect_timeout=7&keepalives=0&keepalives_idle=9",
    "postgres:///db4",
    "postgres://",
    "postgres://host5",
    "postgres://:pw@host6/",
    "host=localhost user=u3 dbname=d5",
    "host=/var/run dbname=d6 port=5444",
    "user=u4",
    "dbname=''",
    "postgres://host7/db7?target_session_attrs=read-write&channel_binding=require&load_balance_hosts=random",
    "postgres://host8/db8?options=-c%20x%3D1&hostaddr=10.0.0.1",
    "",
    "notaurl://x",
    "postgres://[::1",
    "host=",
    "=",
    "postgres://host/db?sslmode=bogus",
    "postgres://host/db?nosuchparam=1",
    "postgres://host:notaport/db",
    "\u{0}",
    "postgres://üser@höst/dß",
];

fn gen_str(r: &mut Rng, hosts: bool) -> String {
    if hosts && r.chance(30) {
        return (*r.pick(&["/tmp", "/var/run/pg", "localhost", "h.example", ""])).to_string();
    }
    (*r.pick(STRINGS)).to_string()
}

fn gen_config(r: &mut Rng, p_set: usize) -> Config {
    let mut c = Config::new();
    if r.chance(p_set) {
        c.url = Some((*r.pick(URLS)).to_string());
    }
    if r.chance(p_set) {
        c.user = Some(gen_str(r, false));
    }
    if r.chance(p_set) {
        c.password = Some(gen_str(r, false));
    }
    if r.chance(p_set.max(75)) {
        c.dbname = Some(if r.chance(85) { (*r.pick(&["db", "postgres", "d b", "dß", " "])).to_string() } else { gen_str(r, false) });
    }
    if r.chance(p_set) {
        c.options = Some(gen_str(r, false));
    }
    if r.chance(p_set) {
        c.application_name = Some(gen_str(r, false));
    }
    if r.chance(p_set) {
        c.ssl_mode = Some(*r.pick(&[SslMode::Disable, SslMode::Prefer, SslMode::Require]));
    }
    if r.chance(p_set) {
        c.host = Some(gen_str(r, true));
    }
    if r.chance(p_set) {
        let n = r.below(3);
        c.hosts = Some((0..n).map(|_| gen_str(r, true)).collect());
    }
    let addrs = ["127.0.0.1", "10.1.2.3", "::1", "fe80::1"];
    if r.chance(p_set) {
        c.hostaddr = Some(IpAddr::from_str(*r.pick(&addrs[..])).unwrap());
    }
    if r.chance(p_set) {
        let n = r.below(3);
        c.hostaddrs = Some((0..n).map(|_| IpAddr::from_str(*r.pick(&addrs[..])).unwrap()).collect());
    }
    if r.chance(p_set) {
        c.port = Some(*r.pick(&[0u16, 1, 5432, 65535]));
    }
    if r.chance(p_set) {
        let n = r.below(3);
        c.ports = Some((0..n).map(|_| *r.pick(&[5432u16, 5433, 1])).collect());
    }
    if r.chance(p_set) {
        // extreme values count too: zero is a value, not "unset"
        c.connect_timeout = Some(if r.chance(20) { Duration::ZERO } else { Duration::new(r.below(100) as u64, if r.chance(40) { r.below(1000) as u32 } else { r.below(1_000_000_000) as u32 }) });
    }
    if r.chance(p_set) {
        c.keepalives = Some(r.chance(50));
    }
    if r.chance(p_set) {
        c.keepalives_idle = Some(if r.chance(20) { Duration::ZERO } else { Duration::new(r.below(10000) as u64, if r.chance(40) { 0 } else { r.below(1_000_000_000) as u32 }) });
    }
    if r.chance(p_set) {
        c.target_session_attrs = Some(*r.pick(&[TargetSessionAttrs::Any, TargetSessionAttrs::ReadWrite]));
    }
    if r.chance(p_set) {
        c.channel_binding = Some(*r.pick(&[ChannelBinding::Disable, ChannelBinding::Prefer, ChannelBinding::Require]));
    }
    if r.chance(p_set) {
        c.load_balance_hosts = Some(*r.pick(&[LoadBalanceHosts::Disable, LoadBalanceHosts::Random]));
    }
    c
}

fn opt_s(s: &Option<String>) -> String {
    opt_hex(s.as_ref().map(|x| x.as_bytes()))
}

fn opt_list<T>(v: &Option<Vec<T>>, f: impl Fn(&T) -> String) -> String {
    match v {
        None => "-".into(),
        Some(v) if v.is_empty() => "[]".into(),
        Some(v) => v.iter().map(f).collect::<Vec<_>>().join(","),
    }
}

fn input_line(c: &Config, env_user: &Option<String>) -> String {
    let base = match &c.url {
        None => Some(tokio_postgres::Config::new()),
        Some(u) => tokio_postgres::Config::from_str(u).ok(),
    };
    let b = match &base {
        None => "base=err".to_string(),
        Some(b) => format!("base=ok {}", dump(b, "b.")),
    };
    format!(
        "pgcfg {} env={} url={} user={} password={} dbname={} options={} app={} ssl={} host={} hosts={} hostaddr={} hostaddrs={} port={} ports={} cto={} ka={} kai={} tsa={} cb={} lbh={}",
        b,
        opt_s(env_user),
        if c.url.is_some() { 1 } else { 0 },
        opt_s(&c.user),
        opt_s(&c.password),
        opt_s(&c.dbname),
        opt_s(&c.options),
        opt_s(&c.application_name),
        c.ssl_mode.map(|m| in_ssl(m).to_string()).unwrap_or("-".into()),
        opt_s(&c.host),
        opt_list(&c.hosts, |h| hex(h.as_bytes())),
        c.hostaddr.map(|a| hex(a.to_string().as_bytes())).unwrap_or("-".into()),
        opt_list(&c.hostaddrs, |a| hex(a.to_string().as_bytes())),
        c.port.map(|p| p.to_string()).unwrap_or("-".into()),
        opt_list(&c.ports, |p| p.to_string()),
        c.connect_timeout.map(|d| d.as_nanos().to_string()).unwrap_or("-".into()),
        c.keepalives.map(|k| if k { "1" } else { "0" }.to_string()).unwrap_or("-".into()),
        c.keepalives_idle.map(|d| d.as_nanos().to_string()).unwrap_or("-".into()),
        c.target_session_attrs.map(|m| in_tsa(m).to_string()).unwrap_or("-".into()),
        c.channel_binding.map(|m| in_cb(m).to_string()).unwrap_or("-".into()),
        c.load_balance_hosts.map(|m| in_lbh(m).to_string()).unwrap_or("-".into()),
    )
}

fn result_line(c: &Config) -> String {
    let c2 = c.clone();
    match catch_unwind(move || c2.get_pg_config()) {
        Err(_) => "pgres panicked".into(),
        Ok(Err(e)) => match e {
            deadpool_postgres::ConfigError::InvalidUrl(_) => "pgres err=invalid_url".into(),
            deadpool_postgres::ConfigError::DbnameMissing => "pgres err=dbname_missing".into(),
            deadpool_postgres::ConfigError::DbnameEmpty => "pgres err=dbname_empty".into(),
        },
        Ok(Ok(r)) => format!("pgres ok {}", dump(&r, "")),
    }
}

fn tmo(r: &mut Rng) -> Option<Duration> {
    match r.below(3) {
        0 => None,
        1 => Some(Duration::ZERO),
        _ => Some(Duration::new(r.below(50) as u64, r.below(999) as u32)),
    }
}

/// pool / manager sections reach the built pool unchanged; timeouts without runtime are a build error
fn passthrough_line(r: &mut Rng, c: &mut Config) -> String {
    let with_pool = r.chance(70);
    let pc = PoolConfig {
        max_size: r.below(40),
        timeouts: Timeouts {
            wait: tmo(r),
            create: tmo(r),
            recycle: tmo(r),
        },
        queue_mode: if r.chance(50) {
            deadpool::managed::QueueMode::Fifo
        } else {
            deadpool::managed::QueueMode::Lifo
        },
    };
    let methods = [
        RecyclingMethod::Fast,
        RecyclingMethod::Verified,
        RecyclingMethod::Clean,
        RecyclingMethod::Custom("SELECT 42".into()),
    ];
    let with_mgr = r.chance(70);
    let mc = ManagerConfig {
        recycling_method: r.pick(&methods).clone(),
    };
    c.pool = if with_pool { Some(pc) } else { None };
    c.manager = if with_mgr { Some(mc.clone()) } else { None };
    let rt = if r.chance(50) { Some(Runtime::Tokio1) } else { None };
    let any_timeout = with_pool && (pc.timeouts.wait.is_some() || pc.timeouts.create.is_some() || pc.timeouts.recycle.is_some());
    let expect_mgr = if with_mgr { mc } else { ManagerConfig::default() };
    let got_mgr = c.get_manager_config();
    let got_pool = c.get_pool_config();
    let mut problems: Vec<String> = Vec::new();
    if format!("{:?}", got_mgr) != format!("{:?}", expect_mgr) {
        problems.push(format!("get_manager_config {:?} != {:?}", got_mgr, expect_mgr));
    }
    if with_pool && format!("{:?}", got_pool) != format!("{:?}", pc) {
        problems.push(format!("get_pool_config {:?} != {:?}", got_pool, pc));
    }
    let c2 = c.clone();
    let res = catch_unwind(move || c2.create_pool(rt, NoTls));
    let valid = c.get_pg_config().is_ok();
    let outcome = match res {
        Err(_) => {
            problems.push("create_pool panicked".into());
            "panic"
        }
        Ok(Err(deadpool_postgres::CreatePoolError::Config(_))) => {
            if valid {
                problems.push("Config error for a valid configuration".into());
            }
            "config_error"
        }
        Ok(Err(deadpool_postgres::CreatePoolError::Build(_))) => {
            if !(any_timeout && rt.is_none()) {
                problems.push("Build error although no timeout without runtime was configured".into());
            }
            "build_error"
        }
        Ok(Ok(pool)) => {
            if !valid {
                problems.push("pool built from an invalid configuration".into());
            }
            if any_timeout && rt.is_none() {
                problems.push("timeouts configured without a runtime were accepted by create_pool".into());
            }
            let expect = if with_pool { pc } else { PoolConfig::default() };
            if pool.status().max_size != expect.max_size {
                problems.push(format!("max_size {} != {}", pool.status().max_size, expect.max_size));
            }
            let t = pool.timeouts();
            if t.wait != expect.timeouts.wait || t.create != expect.timeouts.create || t.recycle != expect.timeouts.recycle {
                problems.push(format!("timeouts {:?} != {:?}", t, expect.timeouts));
            }
            // the queue mode has no getter: it shows in the pool's Debug output
            let pdbg = format!("{:?}", pool);
            if !pdbg.contains(&format!("queue_mode: {:?}", expect.queue_mode)) {
                problems.push(format!("queue_mode {:?} of the pool section did not reach the pool", expect.queue_mode));
            }
            let dbg = format!("{:?}", pool.manager());
            if !dbg.contains(&format!("{:?}", expect_mgr)) {
                problems.push(format!("manager config not passed through: {}", dbg.chars().take(120).collect::<String>()));
            }
            "built"
        }
    };
    format!(
        "pgpool outcome={} valid={} timeouts={} rt={} problems={}",
        outcome,
        valid,
        any_timeout,
        rt.is_some(),
        if problems.is_empty() { "-".to_string() } else { problems.join(" | ") }
    )
}

// (the same statement with surrounding white space is a different query text, hence a different key)
const QUERIES: &[&str] = &["SELECT 1", "SELECT $1", "SELECT $1::text, $2", " SELECT 1", "SELECT $1\n"];

fn typesets() -> Vec<Vec<tokio_postgres::types::Type>> {
    use tokio_postgres::types::Type;
    vec![vec![], vec![Type::INT4], vec![Type::TEXT], vec![Type::INT4, Type::TEXT], vec![Type::TEXT, Type::INT4]]
}

fn types_tok(t: &[tokio_postgres::types::Type]) -> String {
    if t.is_empty() {
        "-".into()
    } else {
        t.iter().map(|t| t.oid().to_string()).collect::<Vec<_>>().join(",")
    }
}

async fn whoami(c: &tokio_postgres::Client) -> i64 {
    match c.simple_query("WHOAMI").await {
        Ok(msgs) => msgs
            .iter()
            .find_map(|m| match m {
                tokio_postgres::SimpleQueryMessage::Row(r) => r.get(0).and_then(|v| v.parse().ok()),
                _ => None,
            })
            .unwrap_or(-1),
        Err(_) => -1,
    }
}

async fn wire_history(rng: &mut Rng, srv: &wire::Server) -> usize {
    // one server per process (listening sockets and ports are scarce): this history's
    // connections are the ones accepted from now on
    srv.state.lock().unwrap().replies.clear();
    let max = 1 + rng.below(3);
    let len = 5 + rng.below(18);
    let grown = max > 1 && rng.chance(40);
    let build_max = if grown { 1 } else { max };
    let (method, mtok) = match rng.below(5) {
        0 => (RecyclingMethod::Fast, "fast".to_string()),
        1 => (RecyclingMethod::Verified, "verified".to_string()),
        2 => (RecyclingMethod::Clean, "clean".to_string()),
        // a custom query that happens to be empty is still a check query
        3 => (RecyclingMethod::Custom("".into()), "custom sql=e".to_string()),
        _ => (RecyclingMethod::Custom("SELECT 42".into()), format!("custom sql={}", hex(b"SELECT 42"))),
    };
    let has_query = !matches!(method, RecyclingMethod::Fast);
    // three routes to the same pool: a hand-made manager, `Config::create_pool`, or a manager
    // with a custom `Connect` whose connection task lingers after the connection is gone
    let route = rng.below(3);
    let pool = if route == 2 {
        struct Lingering;
        impl deadpool_postgres::Connect for Lingering {
            fn connect(
                &self,
                pg_config: &tokio_postgres::Config,
            ) -> std::pin::Pin<Box<dyn std::future::Future<Output = Result<(tokio_postgres::Client, tokio::task::JoinHandle<()>), tokio_postgres::Error>> + Send + '_>> {
                let cfg = pg_config.clone();
                Box::pin(async move {
                    let (client, connection) = cfg.connect(NoTls).await?;
                    let task = tokio::spawn(async move {
                        let _ = connection.await;
                        // the task outlives the connection: only `Client::is_closed` tells
                        tokio::time::sleep(Duration::from_secs(3600)).await;
                    });
                    Ok((client, task))
                })
            }
        }
        let mut pg = tokio_postgres::Config::new();
        pg.host("127.0.0.1").port(srv.port).user("u").dbname("d");
        let mgr = deadpool_postgres::Manager::from_connect(pg, Lingering, ManagerConfig { recycling_method: method });
        deadpool_postgres::Pool::builder(mgr).max_size(build_max).runtime(Runtime::Tokio1).build().unwrap()
    } else if route == 1 {
        let mut pg = tokio_postgres::Config::new();
        pg.host("127.0.0.1").port(srv.port).user("u").dbname("d");
        let mgr = deadpool_postgres::Manager::from_config(pg, NoTls, ManagerConfig { recycling_method: method });
        deadpool_postgres::Pool::builder(mgr).max_size(build_max).runtime(Runtime::Tokio1).build().unwrap()
    } else {
        let mut c = Config::new();
        c.host = Some("127.0.0.1".into());
        c.port = Some(srv.port);
        c.user = Some("u".into());
        c.dbname = Some("d".into());
        c.manager = Some(ManagerConfig { recycling_method: method });
        c.pool = Some(PoolConfig::new(build_max));
        c.create_pool(Some(Runtime::Tokio1), NoTls).unwrap()
    };
    // a client made directly with the pool's manager and dropped again (a dedicated connection the
    // pool never owned): it was registered with the statement-cache registry and is gone now - the
    // registry has to cope with the dead entry when it is asked to clear / remove later
    if rng.chance(40) {
        use deadpool::managed::Manager as _;
        if let Ok(c) = pool.manager().create().await {
            drop(c);
        }
        tokio::time::sleep(Duration::from_millis(2)).await;
    }
    // built small and grown: the limit in force is the one `resize()` set, not the configured one
    // (the model only knows the limit in force)
    if grown {
        pool.resize(max);
    }
    let base = srv.state.lock().unwrap().conns.len();
    let tmo = Timeouts { wait: Some(Duration::ZERO), create: None, recycle: None };
    let mut hist: Vec<String> = Vec::new();
    let emit = |inp: String, out: String, hist: &mut Vec<String>| {
        println!("{inp}");
        println!("{out}");
        hist.push(format!("{inp} => {out}"));
        println!("pwx history {}", hist.join(" ;; "));
    };
    emit(format!("pw cfg max={max} method={mtok}"), "pwobs cfg ok".into(), &mut hist);
    let mut held: Vec<(deadpool_postgres::Object, usize)> = Vec::new();
    let mut taken: Vec<(deadpool_postgres::ClientWrapper, usize)> = Vec::new();
    let mut idle_ids: Vec<usize> = Vec::new();
    let mut closed: Vec<usize> = Vec::new();
    let status = |head: String| {
        let st = pool.status();
        format!("pwobs {head} size={} avail={} max={}", st.size, st.available, st.max_size)
    };
    let sets = typesets();
    for _ in 0..len {
        let k = rng.below(100);
        if held.is_empty() && idle_ids.is_empty() || (k < 25 && (held.len() < max || rng.chance(15))) {
            let avail = pool.status().available;
            let mut toks: Vec<&str> = Vec::new();
            if has_query {
                for _ in 0..avail {
                    let t = match rng.below(100) {
                        0..=54 => "ok",
                        55..=79 => "error",
                        _ => "disconnect",
                    };
                    toks.push(t);
                    if t == "ok" {
                        break;
                    }
                }
            }
            let before: usize = {
                let mut st = srv.state.lock().unwrap();
                st.replies.clear();
                for t in &toks {
                    st.replies.push_back(match *t {
                        "ok" => wire::Reply::Ok,
                        "error" => wire::Reply::Error,
                        _ => wire::Reply::Disconnect,
                    });
                }
                st.seq
            };
            let r = pool.timeout_get(&tmo).await;
            let mut seen: Vec<(usize, usize, String)> = {
                let st = srv.state.lock().unwrap();
                st.conns
                    .iter()
                    .enumerate()
                    .skip(base)
                    .flat_map(|(i, c)| c.queries.iter().filter(|q| q.0 > before).map(move |q| (q.0, i - base, q.1.clone())))
                    .collect()
            };
            seen.sort();
            let shown: Vec<String> = seen.iter().map(|(_, i, q)| format!("{i}:{}", hex(q.as_bytes()))).collect();
            // a connection the server hung up on during its check is closed from now on
            for ((_, i, _), t) in seen.iter().zip(toks.iter()) {
                if *t == "disconnect" {
                    closed.push(*i);
                }
            }
            let inp = format!("pw get {}", toks.join(" "));
            match r {
                Ok(c) => {
                    let who = whoami(&c).await;
                    let who = if who >= 0 { who - base as i64 } else { who };
                    if who < 0 {
                        println!("pwx a client that cannot talk to the server any more (closed: {}) was handed out", c.is_closed());
                        emit(inp, status(format!("res=ok:closed queries=[{}]", shown.join(","))), &mut hist);
                        return hist.len();
                    }
                    match idle_ids.iter().position(|i| *i as i64 == who) {
                        Some(p) => {
                            let _ = idle_ids.drain(..=p);
                        }
                        None => idle_ids.clear(),
                    }
                    emit(inp, status(format!("res=ok:{who} queries=[{}]", shown.join(","))), &mut hist);
                    held.push((c, who as usize));
                }
                Err(e) => {
                    let e = match e {
                        deadpool_postgres::PoolError::Timeout(deadpool::managed::TimeoutType::Wait) => "timeout_wait",
                        deadpool_postgres::PoolError::Timeout(_) => "timeout_other",
                        deadpool_postgres::PoolError::Backend(_) => "backend",
                        deadpool_postgres::PoolError::Closed => "closed",
                        deadpool_postgres::PoolError::NoRuntimeSpecified => "no_runtime",
                        deadpool_postgres::PoolError::PostCreateHook(_) => "post_create_hook",
                    };
                    if e != "timeout_wait" {
                        idle_ids.clear();
                    }
                    emit(inp, status(format!("res={e} queries=[{}]", shown.join(","))), &mut hist);
                }
            }
        } else if k < 40 && !held.is_empty() {
            let (c, who) = held.swap_remove(rng.below(held.len()));
            drop(c);
            idle_ids.push(who);
            emit(format!("pw ret {who}"), status("done".into()), &mut hist);
        } else if k < 47 && !held.is_empty() {
            let (c, who) = held.swap_remove(rng.below(held.len()));
            let raw = deadpool_postgres::Object::take(c);
            taken.push((raw, who));
            emit(format!("pw take {who}"), status("done".into()), &mut hist);
        } else if k < 57 {
            // the server hangs up on a connection: one in a caller's hands or an idle one
            let open_held: Vec<usize> = held.iter().map(|h| h.1).filter(|i| !closed.contains(i)).collect();
            let open_idle: Vec<usize> = idle_ids.iter().copied().filter(|i| !closed.contains(i)).collect();
            let pick_held = !open_held.is_empty() && (open_idle.is_empty() || rng.chance(50));
            if pick_held {
                let who = open_held[rng.below(open_held.len())];
                srv.kill(base + who);
                let c = &held.iter().find(|h| h.1 == who).unwrap().0;
                for _ in 0..2000 {
                    if c.is_closed() {
                        break;
                    }
                    tokio::time::sleep(Duration::from_micros(500)).await;
                }
                closed.push(who);
                emit(format!("pw kill {who}"), status("done".into()), &mut hist);
            } else if !open_idle.is_empty() {
                let who = open_idle[rng.below(open_idle.len())];
                srv.kill(base + who);
                closed.push(who);
                let want = idle_ids.iter().filter(|i| closed.contains(i)).count();
                for _ in 0..2000 {
                    let mut n = 0usize;
                    let _ = pool.retain(|c, _| {
                        if c.is_closed() {
                            n += 1;
                        }
                        true
                    });
                    if n >= want {
                        break;
                    }
                    tokio::time::sleep(Duration::from_micros(500)).await;
                }
                emit(format!("pw kill {who}"), status("done".into()), &mut hist);
            }
        } else if k < 80 {
            let open_held: Vec<usize> = (0..held.len()).filter(|i| !closed.contains(&held[*i].1)).collect();
            if open_held.is_empty() {
                continue;
            }
            let idx = open_held[rng.below(open_held.len())];
            let who = held[idx].1;
            // mostly from a small set of keys, so that hits are common
            let q = QUERIES[if rng.chance(50) { rng.below(2) } else { rng.below(QUERIES.len()) }];
            let types = &sets[if rng.chance(60) { 1 + rng.below(2) } else { rng.below(sets.len()) }];
            let parses_before = srv.state.lock().unwrap().conns[base + who].parses.len();
            let c = &held[idx].0;
            if rng.chance(20) {
                // two concurrent prepares of the same key on the same client
                let (a, b) = tokio::join!(c.prepare_typed_cached(q, types), c.prepare_typed_cached(q, types));
                let rt = srv.state.lock().unwrap().conns[base + who].parses.len() - parses_before;
                // which of the two inserts came last is the scheduler's choice: observe it (the
                // statement that stayed in the cache) and hand it to the model as an input
                let mut order = "01";
                if let (Ok(_), Ok(_), Ok(kept)) = (&a, &b, c.prepare_typed_cached(q, types).await) {
                    let n = kept.params().len();
                    let params: Vec<Box<dyn tokio_postgres::types::ToSql + Sync>> = kept
                        .params()
                        .iter()
                        .map(|t| -> Box<dyn tokio_postgres::types::ToSql + Sync> {
                            if *t == tokio_postgres::types::Type::INT4 { Box::new(1i32) } else { Box::new("x".to_string()) }
                        })
                        .collect();
                    let refs: Vec<&(dyn tokio_postgres::types::ToSql + Sync)> = params.iter().map(|b| b.as_ref()).collect();
                    let _ = n;
                    if c.execute(&kept, &refs).await.is_ok() {
                        let st = srv.state.lock().unwrap();
                        let log = &st.conns[base + who];
                        if let Some(kidx) = log.binds.last().and_then(|name| log.parses.iter().position(|p| &p.0 == name)) {
                            if rt == 2 && kidx == parses_before {
                                order = "10";
                            }
                        }
                    }
                }
                let out = if a.is_ok() && b.is_ok() {
                    format!("pwobs prep2 rt={rt} csize={}", c.statement_cache.size())
                } else {
                    "pwobs prep2 failed".to_string()
                };
                emit(format!("pw prep2 {who} {} {} {order}", hex(q.as_bytes()), types_tok(types)), out, &mut hist);
                continue;
            }
            let inp = format!("pw prep {who} {} {}", hex(q.as_bytes()), types_tok(types));
            // the same cache is reached through eight entry points: the inherent methods and the
            // `GenericClient` trait, on the client and on a transaction, typed and (for an empty
            // type list) untyped
            let via = rng.below(4);
            let untyped = types.is_empty() && rng.chance(50);
            // answers scripted for the check queries of the last get() that were not used up must
            // not hit the BEGIN / COMMIT of a transaction
            srv.state.lock().unwrap().replies.clear();
            let prepared = {
                use deadpool_postgres::GenericClient as G;
                let cm = &mut held[idx].0;
                match (via, untyped) {
                    (0, false) => cm.prepare_typed_cached(q, types).await,
                    (0, true) => cm.prepare_cached(q).await,
                    (1, false) => G::prepare_typed_cached(&*cm, q, types).await,
                    (1, true) => G::prepare_cached(&*cm, q).await,
                    (v, u) => match cm.transaction().await {
                        Err(e) => Err(e),
                        Ok(tx) => {
                            let r = match (v, u) {
                                (2, false) => tx.prepare_typed_cached(q, types).await,
                                (2, true) => tx.prepare_cached(q).await,
                                (_, false) => G::prepare_typed_cached(&tx, q, types).await,
                                (_, true) => G::prepare_cached(&tx, q).await,
                            };
                            let _ = tx.commit().await;
                            r
                        }
                    },
                }
            };
            let c = &held[idx].0;
            match prepared {
                Err(_) => emit(inp, "pwobs prep failed".into(), &mut hist),
                Ok(stmt) => {
                    let params: Vec<Box<dyn tokio_postgres::types::ToSql + Sync>> = stmt
                        .params()
                        .iter()
                        .map(|t| -> Box<dyn tokio_postgres::types::ToSql + Sync> {
                            if *t == tokio_postgres::types::Type::INT4 {
                                Box::new(1i32)
                            } else {
                                Box::new("x".to_string())
                            }
                        })
                        .collect();
                    let refs: Vec<&(dyn tokio_postgres::types::ToSql + Sync)> = params.iter().map(|b| b.as_ref()).collect();
                    let ex = c.execute(&stmt, &refs).await;
                    let st = srv.state.lock().unwrap();
                    let log = &st.conns[base + who];
                    let rt = log.parses.len() - parses_before;
                    // which statement did the server see bound on this connection?
                    let ident = match (ex.is_ok(), log.binds.last()) {
                        (true, Some(name)) => match log.parses.iter().position(|p| &p.0 == name) {
                            Some(kidx) => {
                                let p = &log.parses[kidx];
                                let want: Vec<u32> = types.iter().map(|t| t.oid()).collect();
                                if p.1 != q || p.2 != want {
                                    println!("pwx statement for ({q}, {:?}) was prepared as ({}, {:?})", want, p.1, p.2);
                                }
                                format!("{who}:{kidx}")
                            }
                            None => {
                                println!("pwx statement {name} bound on connection {who} was never prepared there");
                                "?".into()
                            }
                        },
                        _ => "?".into(),
                    };
                    let out = format!("pwobs prep stmt={ident} rt={rt} csize={}", c.statement_cache.size());
                    drop(st);
                    emit(inp, out, &mut hist);
                }
            }
        } else if k < 86 && !held.is_empty() {
            let idx = rng.below(held.len());
            let who = held[idx].1;
            if rng.chance(70) {
                let q = QUERIES[rng.below(QUERIES.len())];
                let types = &sets[rng.below(sets.len())];
                let _ = held[idx].0.statement_cache.remove(q, types);
                emit(
                    format!("pw rm {who} {} {}", hex(q.as_bytes()), types_tok(types)),
                    format!("pwobs done csize={}", held[idx].0.statement_cache.size()),
                    &mut hist,
                );
            } else {
                held[idx].0.statement_cache.clear();
                emit(format!("pw clear {who}"), format!("pwobs done csize={}", held[idx].0.statement_cache.size()), &mut hist);
            }
        } else if k < 92 {
            if rng.chance(50) {
                pool.manager().statement_caches.clear();
                emit("pw regclear".into(), "pwobs done".into(), &mut hist);
            } else {
                let q = QUERIES[rng.below(QUERIES.len())];
                let types = &sets[rng.below(sets.len())];
                pool.manager().statement_caches.remove(q, types);
                emit(format!("pw regrm {} {}", hex(q.as_bytes()), types_tok(types)), "pwobs done".into(), &mut hist);
            }
        } else {
            let mut h: Vec<(usize, usize)> = held.iter().map(|(c, w)| (*w, c.statement_cache.size())).collect();
            h.sort();
            let mut t: Vec<(usize, usize)> = taken.iter().map(|(c, w)| (*w, c.statement_cache.size())).collect();
            t.sort();
            let mut idle: Vec<usize> = Vec::new();
            let _ = pool.retain(|c, _| {
                idle.push(c.statement_cache.size());
                true
            });
            idle.sort();
            let f = |v: &[(usize, usize)]| v.iter().map(|(a, b)| format!("{a}:{b}")).collect::<Vec<_>>().join(",");
            emit(
                "pw sizes".into(),
                format!(
                    "pwobs sizes held=[{}] taken=[{}] idle=[{}]",
                    f(&h),
                    f(&t),
                    idle.iter().map(|x| x.to_string()).collect::<Vec<_>>().join(",")
                ),
                &mut hist,
            );
        }
    }
    hist.len()
}

fn arg<'a>(args: &'a [String], k: &str) -> Option<&'a str> {
    args.iter().position(|a| a == k).and_then(|i| args.get(i + 1)).map(|s| s.as_str())
}

fn main() {
    std::panic::set_hook(Box::new(|i| { if std::env::var("HVERIF_DEBUG").is_ok() { eprintln!("panic: {i}"); } }));
    let args: Vec<String> = std::env::args().collect();
    let mode = args.get(1).map(|s| s.as_str()).unwrap_or("");
    let seed: u64 = arg(&args, "--seed").and_then(|s| s.parse().ok()).unwrap_or(1);
    let n: usize = arg(&args, "--cases").and_then(|s| s.parse().ok()).unwrap_or(1000);
    let mut r = Rng(seed.wrapping_mul(0x2545F4914F6CDD1D) ^ 0xABCDEF);
    match mode {
        "cfg-diff" => {
            for k in 0..n {
                // the caller's environment: USER set / unset / empty
                let env_user = match r.below(4) {
                    0 => None,
                    1 => Some(String::new()),
                    _ => Some("envuser".to_string()),
                };
                match &env_user {
                    Some(u) => std::env::set_var("USER", u),
                    None => std::env::remove_var("USER"),
                }
                let p_set = *r.pick(&[10usize, 30, 50, 80]);
                let mut c = if k < 64 {
                    // the first cases: every single optional field alone / none / all
                    gen_config(&mut r, if k % 2 == 0 { 15 } else { 90 })
                } else {
                    gen_config(&mut r, p_set)
                };
                println!("{}", input_line(&c, &env_user));
                println!("{}", result_line(&c));
                println!("{}", passthrough_line(&mut r, &mut c));
            }
        }
        "recycling" => {
            for m in [
                RecyclingMethod::Fast,
                RecyclingMethod::Verified,
                RecyclingMethod::Clean,
                RecyclingMethod::Custom("53454c4543542031".into()),
            ] {
                let name = match &m {
                    RecyclingMethod::Fast => "fast".to_string(),
                    RecyclingMethod::Verified => "verified".to_string(),
                    RecyclingMethod::Clean => "clean".to_string(),
                    RecyclingMethod::Custom(s) => format!("custom {}", s),
                };
                println!("pgquery {}", name);
                println!(
                    "{}",
                    match m.query() {
                        None => "pgquery none".to_string(),
                        Some(q) => format!("pgquery some:{}", q),
                    }
                );
            }
        }
        "wire" => {
            let rt = tokio::runtime::Builder::new_current_thread().enable_all().build().unwrap();
            let srv = wire::Server::start();
            let mut done = 0usize;
            while done < n {
                done += rt.block_on(wire_history(&mut r, &srv));
            }
        }
        "probe" => {
            let srv = wire::Server::start();
            let rt = tokio::runtime::Builder::new_current_thread().enable_all().build().unwrap();
            rt.block_on(async {
                let mut pg = tokio_postgres::Config::new();
                pg.host("127.0.0.1").port(srv.port).user("u").dbname("d");
                let mgr = deadpool_postgres::Manager::from_config(
                    pg, NoTls, ManagerConfig { recycling_method: RecyclingMethod::Verified });
                let pool = deadpool_postgres::Pool::builder(mgr).max_size(2).build().unwrap();
                let c = pool.get().await.unwrap();
                let who = c.simple_query("WHOAMI").await.map(|v| v.len());
                println!("whoami -> {:?}", who);
                let st = c.prepare_typed_cached("SELECT $1", &[tokio_postgres::types::Type::INT4]).await;
                println!("prepare -> {:?}", st.as_ref().map(|s| s.params().to_vec()));
                let st = st.unwrap();
                let r = c.execute(&st, &[&1i32]).await;
                println!("execute -> {:?}", r);
                println!("cache size {}", c.statement_cache.size());
                drop(c);
                srv.state.lock().unwrap().replies.push_back(wire::Reply::Error);
                let c = pool.get().await;
                println!("get after error ok={} status={:?}", c.is_ok(), pool.status());
                srv.kill(1);
                let c = c.unwrap();
                for _ in 0..100 { if c.is_closed() { break; } tokio::time::sleep(Duration::from_millis(1)).await; }
                println!("closed after kill: {}", c.is_closed());
                drop(c);
                let c = pool.get().await;
                println!("get after kill ok={} status={:?}", c.is_ok(), pool.status());
                let st = srv.state.lock().unwrap();
                for (i, l) in st.conns.iter().enumerate() {
                    println!("conn {i}: parses={:?} binds={:?} queries={:?}", l.parses, l.binds, l.queries);
                }
            });
        }
        _ => {
            eprintln!("usage: h-pg cfg-diff --seed S --cases N | recycling");
            std::process::exit(2);
        }
    }
}

// ---------------------------------------------------------------------------------------------
// wire (C16): the pool against a scripted PostgreSQL wire-protocol server
// ---------------------------------------------------------------------------------------------

pub mod wire {
    use std::{
        collections::VecDeque,
        io::{Read, Write},
        net::{Shutdown, TcpListener, TcpStream},
        sync::{Arc, Mutex},
    };

    #[derive(Clone, Copy, Debug, PartialEq)]
    pub enum Reply {
        Ok,
        Error,
        Disconnect,
    }

    #[derive(Default)]
    pub struct ConnLog {
        /// statements prepared on this connection: (name, query, parameter type oids)
        pub parses: Vec<(String, String, Vec<u32>)>,
        /// the parameter types the server resolved for each of them (same index)
        pub resolved: Vec<Vec<u32>>,
        /// statement names bound
        pub binds: Vec<String>,
        /// simple queries received (identity probes excluded), with a global sequence number
        pub queries: Vec<(usize, String)>,
        pub sock: Option<TcpStream>,
    }

    #[derive(Default)]
    pub struct State {
        pub conns: Vec<ConnLog>,
        /// answers to the next simple queries
        pub replies: VecDeque<Reply>,
        pub seq: usize,
    }

    pub struct Server {
        pub port: u16,
        pub state: Arc<Mutex<State>>,
        stop: Arc<std::sync::atomic::AtomicBool>,
    }

    impl Drop for Server {
        fn drop(&mut self) {
            // let the accept thread go (and with it the listening socket), hang up on everybody
            self.stop.store(true, std::sync::atomic::Ordering::SeqCst);
            let _ = TcpStream::connect(("127.0.0.1", self.port));
            for c in self.state.lock().unwrap().conns.iter() {
                if let Some(s) = c.sock.as_ref() {
                    let _ = s.shutdown(Shutdown::Both);
                }
            }
        }
    }

    fn msg(tag: u8, body: &[u8]) -> Vec<u8> {
        let mut v = vec![tag];
        v.extend_from_slice(&((body.len() as u32 + 4).to_be_bytes()));
        v.extend_from_slice(body);
        v
    }

    fn cstr(b: &[u8], pos: &mut usize) -> String {
        let start = *pos;
        while *pos < b.len() && b[*pos] != 0 {
            *pos += 1;
        }
        let s = String::from_utf8_lossy(&b[start..*pos]).to_string();
        *pos += 1;
        s
    }

    fn ready() -> Vec<u8> {
        msg(b'Z', b"I")
    }

    fn error_response() -> Vec<u8> {
        let mut b = Vec::new();
        b.extend_from_slice(b"SERROR\0VERROR\0CXX000\0Mscripted failure\0\0");
        msg(b'E', &b)
    }

    fn serve(mut s: TcpStream, idx: usize, state: Arc<Mutex<State>>) -> Option<()> {
        // startup packet
        let mut len = [0u8; 4];
        s.read_exact(&mut len).ok()?;
        let n = u32::from_be_bytes(len) as usize;
        let mut body = vec![0u8; n.checked_sub(4)?];
        s.read_exact(&mut body).ok()?;
        let mut out = Vec::new();
        out.extend(msg(b'R', &0u32.to_be_bytes()));
        out.extend(msg(b'S', b"client_encoding\0UTF8\0"));
        out.extend(msg(b'S', b"server_version\014.0\0"));
        let mut k = Vec::new();
        k.extend_from_slice(&(idx as u32).to_be_bytes());
        k.extend_from_slice(&7u32.to_be_bytes());
        out.extend(msg(b'K', &k));
        out.extend(ready());
        s.write_all(&out).ok()?;
        loop {
            let mut tag = [0u8; 1];
            s.read_exact(&mut tag).ok()?;
            s.read_exact(&mut len).ok()?;
            let n = u32::from_be_bytes(len) as usize;
            let mut b = vec![0u8; n.checked_sub(4)?];
            s.read_exact(&mut b).ok()?;
            let mut pos = 0usize;
            let mut out: Vec<u8> = Vec::new();
            match tag[0] {
                b'Q' => {
                    let q = cstr(&b, &mut pos);
                    if q == "WHOAMI" {
                        // identity probe: one row, one text column
                        let mut rd = Vec::new();
                        rd.extend_from_slice(&1u16.to_be_bytes());
                        rd.extend_from_slice(b"id\0");
                        rd.extend_from_slice(&0u32.to_be_bytes());
                        rd.extend_from_slice(&0u16.to_be_bytes());
                        rd.extend_from_slice(&25u32.to_be_bytes());
                        rd.extend_from_slice(&(-1i16).to_be_bytes());
                        rd.extend_from_slice(&(-1i32).to_be_bytes());
                        rd.extend_from_slice(&0u16.to_be_bytes());
                        out.extend(msg(b'T', &rd));
                        let v = idx.to_string();
                        let mut dr = Vec::new();
                        dr.extend_from_slice(&1u16.to_be_bytes());
                        dr.extend_from_slice(&(v.len() as u32).to_be_bytes());
                        dr.extend_from_slice(v.as_bytes());
                        out.extend(msg(b'D', &dr));
                        out.extend(msg(b'C', b"SELECT 1\0"));
                        out.extend(ready());
                    } else {
                        let r = {
                            let mut st = state.lock().unwrap();
                            st.seq += 1;
                            let n = st.seq;
                            st.conns[idx].queries.push((n, q.clone()));
                            st.replies.pop_front().unwrap_or(Reply::Ok)
                        };
                        match r {
                            Reply::Ok => {
                                if q.trim().is_empty() {
                                    out.extend(msg(b'I', b""));
                                } else {
                                    out.extend(msg(b'C', b"SET\0"));
                                }
                                out.extend(ready());
                            }
                            Reply::Error => {
                                out.extend(error_response());
                                out.extend(ready());
                            }
                            Reply::Disconnect => {
                                let _ = s.shutdown(Shutdown::Both);
                                return Some(());
                            }
                        }
                    }
                }
                b'P' => {
                    let name = cstr(&b, &mut pos);
                    let query = cstr(&b, &mut pos);
                    let n = u16::from_be_bytes([b[pos], b[pos + 1]]) as usize;
                    pos += 2;
                    let mut oids = Vec::new();
                    for _ in 0..n {
                        oids.push(u32::from_be_bytes([b[pos], b[pos + 1], b[pos + 2], b[pos + 3]]));
                        pos += 4;
                    }
                    // like a real server: parameters the client left untyped are inferred
                    // (`$k` placeholders beyond the given list, or given as 0) - here as int4
                    let mut placeholders = 0usize;
                    let qb = query.as_bytes();
                    for (i, c) in qb.iter().enumerate() {
                        if *c == b'$' {
                            let digits: String = qb[i + 1..].iter().take_while(|d| d.is_ascii_digit()).map(|d| *d as char).collect();
                            if let Ok(k) = digits.parse::<usize>() {
                                placeholders = placeholders.max(k);
                            }
                        }
                    }
                    let given = oids.clone();
                    while oids.len() < placeholders {
                        oids.push(23);
                    }
                    for o in oids.iter_mut() {
                        if *o == 0 {
                            *o = 23;
                        }
                    }
                    let mut st = state.lock().unwrap();
                    st.conns[idx].parses.push((name, query, given));
                    st.conns[idx].resolved.push(oids);
                    drop(st);
                    out.extend(msg(b'1', b""));
                }
                b'D' => {
                    let kind = b[0];
                    pos = 1;
                    let name = cstr(&b, &mut pos);
                    if kind == b'S' {
                        let oids = {
                            let st = state.lock().unwrap();
                            let c = &st.conns[idx];
                            c.parses.iter().rposition(|p| p.0 == name).map(|k| c.resolved[k].clone()).unwrap_or_default()
                        };
                        let mut pd = Vec::new();
                        pd.extend_from_slice(&(oids.len() as u16).to_be_bytes());
                        for o in oids {
                            pd.extend_from_slice(&o.to_be_bytes());
                        }
                        out.extend(msg(b't', &pd));
                    }
                    out.extend(msg(b'n', b""));
                }
                b'B' => {
                    let _portal = cstr(&b, &mut pos);
                    let name = cstr(&b, &mut pos);
                    state.lock().unwrap().conns[idx].binds.push(name);
                    out.extend(msg(b'2', b""));
                }
                b'E' => out.extend(msg(b'C', b"SELECT 0\0")),
                b'C' => out.extend(msg(b'3', b"")),
                b'S' => out.extend(ready()),
                b'X' => return Some(()),
                _ => {}
            }
            if !out.is_empty() {
                s.write_all(&out).ok()?;
            }
        }
    }

    impl Server {
        pub fn start() -> Server {
            let l = TcpListener::bind("127.0.0.1:0").unwrap();
            let port = l.local_addr().unwrap().port();
            let state: Arc<Mutex<State>> = Arc::default();
            let st = state.clone();
            let stop: Arc<std::sync::atomic::AtomicBool> = Arc::default();
            let stop2 = stop.clone();
            let _ = std::thread::spawn(move || {
                for s in l.incoming().flatten() {
                    if stop2.load(std::sync::atomic::Ordering::SeqCst) {
                        break;
                    }
                    let _ = s.set_nodelay(true);
                    let idx = {
                        let mut g = st.lock().unwrap();
                        g.conns.push(ConnLog { sock: s.try_clone().ok(), ..Default::default() });
                        g.conns.len() - 1
                    };
                    let st2 = st.clone();
                    let _ = std::thread::spawn(move || {
                        let _ = serve(s, idx, st2);
                    });
                }
            });
            Server { port, state, stop }
        }
        /// the server hangs up on connection `idx`
        pub fn kill(&self, idx: usize) {
            if let Some(s) = self.state.lock().unwrap().conns[idx].sock.as_ref() {
                let _ = s.shutdown(Shutdown::Both);
            }
        }
    }
}
