/-
Small-step model of the unmanaged pool (`/repo/src/unmanaged/mod.rs`).

Two semaphores: `sem` (one permit per object waiting in the queue) and `sizeSem` (one permit
per free slot, `max_size - size`), the `queue` (a `Vec`: push / pop at the back) under a
mutex, and two relaxed counters `size` and `available`.  One step = one region between two
accesses to shared state; the region boundaries are the `verif_point!` labels in the source.
Objects are identified by ids chosen by the caller (the harness numbers them 0, 1, 2 … in
the order in which they are first mentioned).

Import-free on purpose (linked into the `dpmodel` driver).
-/
import DeadpoolVerif.Model.Managed

namespace DeadpoolVerif
namespace U

/-- result of an unmanaged pool call -/
inductive Res
  | ok (id : Nat)        -- an `Object` / a value was obtained
  | added                -- `add` / `try_add` succeeded
  | timeout (back : Option Nat)  -- `Timeout` (for add: with the object handed back)
  | closed (back : Option Nat)
  | noRuntime
  | cancelled
  | panicked
deriving Repr, DecidableEq, Inhabited

/-- program counter of get / try_get / timeout_get (and remove*, which continue with take) -/
inductive GPc
  | start | queued | pop | avail (id : Nat) | unwind (r : Res)
deriving Repr, DecidableEq, Inhabited

inductive APc
  | start | queued | size | push | avail | addPermits | cleanup | clear
deriving Repr, DecidableEq, Inhabited

inductive RPc | push | avail | addPermits | cleanup | clear
deriving Repr, DecidableEq, Inhabited

inductive TPc | size | addPermits
deriving Repr, DecidableEq, Inhabited

inductive CPc | sem | sizeSem | clear
deriving Repr, DecidableEq, Inhabited

inductive Op
  /-- `wait`: none = block, zero = try, finite = with timeout; `try_` = `try_get` (no future);
  `remove` = continue with `Object::take` -/
  | get (wait : Tmo) (try_ : Bool) (remove : Bool) (pc : GPc)
  | add (id : Nat) (try_ : Bool) (pc : APc)
  | ret (id : Nat) (pc : RPc)
  | take (id : Nat) (pc : TPc) (viaRemove : Bool)
  | close (pc : CPc)
  | status
  | done
deriving Repr, DecidableEq, Inhabited

inductive Ev
  | result (op : Nat) (r : Res)
  | dropped (op : Nat) (id : Nat)
  | status (op : Nat) (maxSize size available waiting : Nat)
deriving Repr, DecidableEq, Inhabited

inductive Fault | unwrapNone | underflow
deriving Repr, DecidableEq, Inhabited

structure Cfg where
  maxSize : Nat
  /-- objects the pool is created with (`Pool::from(iter)`) -/
  initial : Nat := 0
  rt : Bool := false
  /-- configured timeout used by `get()` -/
  timeout : Tmo := .none
deriving Repr, DecidableEq, Inhabited

structure State where
  cfg : Cfg
  sem : Sem
  sizeSem : Sem
  queue : List Nat := []
  size : Nat := 0
  available : Int := 0
  /-- objects in callers' hands as `Object<T>` -/
  hands : List Nat := []
  /-- objects handed back to callers for good (take / remove / refused add) -/
  returned : List Nat := []
  /-- objects dropped by the pool -/
  dropped : List Nat := []
  ops : List Op := []
  nextId : Nat := 0
  log : List Ev := []
  fault : Option Fault := none
deriving Repr, DecidableEq, Inhabited

/-- `Pool::new` / `from_config` (`initial = 0`) or `Pool::from(iter)` (`maxSize = initial`) -/
def init (cfg : Cfg) : State :=
  { cfg := cfg
    sem := Sem.new cfg.initial
    sizeSem := Sem.new (cfg.maxSize - cfg.initial)
    queue := List.range cfg.initial
    size := cfg.initial
    available := cfg.initial
    nextId := cfg.initial }

inductive Spec
  | get (wait : Tmo) | getDefault | tryGet
  | remove (wait : Tmo) | tryRemove
  | add | tryAdd
  | ret (id : Nat) | take (id : Nat)
  | close | status
deriving Repr, DecidableEq, Inhabited

inductive Action
  | start (sp : Spec)
  | step (i : Nat) (oc : Outcome)
deriving Repr, DecidableEq, Inhabited

namespace State
def emit (s : State) (es : List Ev) : State := { s with log := s.log ++ es }
def setOp (s : State) (i : Nat) (op : Op) : State := { s with ops := s.ops.set i op }
end State

def decFault (f : Option Fault) (x k : Nat) : Option Fault :=
  match f with
  | some e => some e
  | none => if x < k then some .underflow else none

/-- `PoolInner::clear` -/
def clear (s : State) (i : Nat) : State :=
  ({ s with size := s.size - s.queue.length
            fault := decFault s.fault s.size s.queue.length
            available := s.available - s.queue.length
            dropped := s.dropped ++ s.queue
            queue := [] }).emit (s.queue.map (Ev.dropped i))

/-- finishing a get: hand the object out; for remove* `Object::take` follows in the same
region (`size -= 1`, no pause point in between) -/
def finishGet (s : State) (i : Nat) (remove : Bool) (id : Nat) : State :=
  if remove then
    { s with size := s.size - 1, fault := decFault s.fault s.size 1 }.setOp i
      (.take id .addPermits true)
  else ({ s with hands := s.hands ++ [id] }.setOp i .done).emit [.result i (.ok id)]

def failGet (s : State) (i : Nat) (r : Res) : State :=
  (s.setOp i .done).emit [.result i r]

/-- `try_get` / `timeout_get`.  `timeout_get` (`try_ = false`) counts the caller as waiting
(`available -= 1`) from its first step until it has an object; every failing exit undoes
that (`WaitingGuard`).  `try_get` decrements `available` after it has the object. -/
def stepGet (s : State) (i : Nat) (w : Tmo) (try_ remove : Bool) (pc : GPc) (oc : Outcome) :
    Option State :=
  match pc, oc with
  | .start, .run =>
    if try_ then
      match s.sem.tryAcquire with
      | (sem, .ok) => some ({ s with sem := sem }.setOp i (.get w try_ remove .pop))
      | (_, .noPermits) => some (failGet s i (.timeout none))
      | (_, .closed) => some (failGet s i (.closed none))
    else if w == .zero then
      match s.sem.tryAcquire with
      | (sem, .ok) =>
        some ({ s with sem := sem, available := s.available - 1 }.setOp i (.get w try_ remove .pop))
      | (_, .noPermits) => some (failGet s i (.timeout none))
      | (_, .closed) => some (failGet s i (.closed none))
    else if w == .finite && !s.cfg.rt then some (failGet s i .noRuntime)
    else
      match s.sem.pollAcquire i with
      | (sem, .ok) =>
        some ({ s with sem := sem, available := s.available - 1 }.setOp i (.get w try_ remove .pop))
      | (sem, .pending) =>
        some ({ s with sem := sem, available := s.available - 1 }.setOp i (.get w try_ remove .queued))
      | (sem, .closed) => some (failGet { s with sem := sem } i (.closed none))
  -- (only `timeout_get` can be suspended: `try_get` is not a future)
  | .queued, .run =>
    if try_ then none else
    match s.sem.pollAcquire i with
    | (sem, .ok) => some ({ s with sem := sem }.setOp i (.get w try_ remove .pop))
    | (sem, .pending) => some ({ s with sem := sem }.setOp i (.get w try_ remove .queued))
    | (sem, .closed) =>
      some (failGet { s with sem := sem, available := s.available + 1 } i (.closed none))
  | .queued, .cancel =>
    if try_ then none else
    some (failGet { s with sem := s.sem.dropAcquire i, available := s.available + 1 } i .cancelled)
  | .queued, .deadline =>
    if try_ then none else
    if w == .finite && s.cfg.rt then
      match s.sem.pollAcquire i with
      | (sem, .ok) => some ({ s with sem := sem }.setOp i (.get w try_ remove .pop))
      | (sem, .pending) =>
        some (failGet { s with sem := sem.dropAcquire i, available := s.available + 1 } i
          (.timeout none))
      | (sem, .closed) =>
        some (failGet { s with sem := sem, available := s.available + 1 } i (.closed none))
    else none
  -- lock; pop; an empty queue means the pool was closed meanwhile (the permit goes back)
  | .pop, .run =>
    match s.queue.getLast? with
    | some id =>
      if try_ then
        some ({ s with queue := s.queue.dropLast }.setOp i (.get w try_ remove (.avail id)))
      else some (finishGet { s with queue := s.queue.dropLast } i remove id)
    | none =>
      some (failGet { s with sem := s.sem.addPermits 1,
                             available := if try_ then s.available else s.available + 1 } i
        (.closed none))
  | .avail id, .run =>
    some (finishGet { s with available := s.available - 1 } i remove id)
  | _, _ => none

def stepAdd (s : State) (i : Nat) (id : Nat) (try_ : Bool) (pc : APc) (oc : Outcome) : Option State :=
  let back (r : Res) := ({ s with returned := s.returned ++ [id] }.setOp i .done).emit [.result i r]
  match pc, oc with
  | .start, .run =>
    if try_ then
      match s.sizeSem.tryAcquire with
      | (sem, .ok) => some ({ s with sizeSem := sem }.setOp i (.add id try_ .size))
      | (_, .noPermits) => some (back (.timeout (some id)))
      | (_, .closed) => some (back (.closed (some id)))
    else
      match s.sizeSem.pollAcquire i with
      | (sem, .ok) => some ({ s with sizeSem := sem }.setOp i (.add id try_ .size))
      | (sem, .pending) => some ({ s with sizeSem := sem }.setOp i (.add id try_ .queued))
      | (sem, .closed) =>
        some (({ s with sizeSem := sem, returned := s.returned ++ [id] }.setOp i .done).emit
          [.result i (.closed (some id))])
  | .queued, .run =>
    match s.sizeSem.pollAcquire i with
    | (sem, .ok) => some ({ s with sizeSem := sem }.setOp i (.add id try_ .size))
    | (sem, .pending) => some ({ s with sizeSem := sem }.setOp i (.add id try_ .queued))
    | (sem, .closed) =>
      some (({ s with sizeSem := sem, returned := s.returned ++ [id] }.setOp i .done).emit
        [.result i (.closed (some id))])
  | .queued, .cancel =>
    -- the future (and the object it owns) is dropped by the caller
    some (({ s with sizeSem := s.sizeSem.dropAcquire i, returned := s.returned ++ [id] }.setOp i
      .done).emit [.result i .cancelled])
  | .size, .run => some ({ s with size := s.size + 1 }.setOp i (.add id try_ .push))
  | .push, .run => some ({ s with queue := s.queue ++ [id] }.setOp i (.add id try_ .avail))
  | .avail, .run => some ({ s with available := s.available + 1 }.setOp i (.add id try_ .addPermits))
  | .addPermits, .run =>
    some ({ s with sem := s.sem.addPermits 1 }.setOp i (.add id try_ .cleanup))
  -- `clean_up()`: a pool that was closed meanwhile does not keep the object
  | .cleanup, .run =>
    if s.sem.closed then some (s.setOp i (.add id try_ .clear))
    else some ((s.setOp i .done).emit [.result i .added])
  | .clear, .run => some (((clear s i).setOp i .done).emit [.result i .added])
  | _, _ => none

def stepRet (s : State) (i : Nat) (id : Nat) (pc : RPc) : Option State :=
  match pc with
  | .push =>
    -- a closed pool takes nothing back: the object is dropped right away
    if s.sem.closed then
      some (({ s with size := s.size - 1, fault := decFault s.fault s.size 1,
                      dropped := s.dropped ++ [id] }.setOp i .done).emit [.dropped i id])
    else some ({ s with queue := s.queue ++ [id] }.setOp i (.ret id .avail))
  | .avail => some ({ s with available := s.available + 1 }.setOp i (.ret id .addPermits))
  | .addPermits => some ({ s with sem := s.sem.addPermits 1 }.setOp i (.ret id .cleanup))
  | .cleanup =>
    if s.sem.closed then some (s.setOp i (.ret id .clear)) else some (s.setOp i .done)
  | .clear => some ((clear s i).setOp i .done)

def stepTake (s : State) (i : Nat) (id : Nat) (pc : TPc) (viaRemove : Bool) : Option State :=
  match pc with
  | .size =>
    some ({ s with size := s.size - 1, fault := decFault s.fault s.size 1 }.setOp i
      (.take id .addPermits viaRemove))
  | .addPermits =>
    some (({ s with sizeSem := s.sizeSem.addPermits 1, returned := s.returned ++ [id] }.setOp i
      .done).emit (if viaRemove then [.result i (.ok id)] else []))

def stepClose (s : State) (i : Nat) (pc : CPc) : Option State :=
  match pc with
  | .sem => some ({ s with sem := s.sem.close }.setOp i (.close .sizeSem))
  | .sizeSem => some ({ s with sizeSem := s.sizeSem.close }.setOp i (.close .clear))
  | .clear => some ((clear s i).setOp i .done)

/-- `Pool::status()`: three independent loads -/
def status (s : State) : Nat × Nat × Nat × Nat :=
  (s.cfg.maxSize, s.size,
   if s.available > 0 then s.available.toNat else 0,
   if s.available < 0 then (-s.available).toNat else 0)

def startOp (s : State) (sp : Spec) : Option State :=
  match sp with
  | .get w => some { s with ops := s.ops ++ [.get w false false .start] }
  | .getDefault => some { s with ops := s.ops ++ [.get s.cfg.timeout false false .start] }
  | .tryGet => some { s with ops := s.ops ++ [.get .zero true false .start] }
  | .remove w => some { s with ops := s.ops ++ [.get w false true .start] }
  | .tryRemove => some { s with ops := s.ops ++ [.get .zero true true .start] }
  | .add => some { s with ops := s.ops ++ [.add s.nextId false .start], nextId := s.nextId + 1 }
  | .tryAdd => some { s with ops := s.ops ++ [.add s.nextId true .start], nextId := s.nextId + 1 }
  | .ret id =>
    if id ∈ s.hands then some { s with ops := s.ops ++ [.ret id .push], hands := s.hands.erase id }
    else none
  | .take id =>
    if id ∈ s.hands then
      some { s with ops := s.ops ++ [.take id .size false], hands := s.hands.erase id }
    else none
  | .close => some { s with ops := s.ops ++ [.close .sem] }
  | .status => some { s with ops := s.ops ++ [.status] }

def stepOp (s : State) (i : Nat) (oc : Outcome) : Option State :=
  match s.ops[i]? with
  | none => none
  | some op =>
    match op with
    | .get w t r pc => stepGet s i w t r pc oc
    | .add id t pc => stepAdd s i id t pc oc
    | .ret id pc => if oc == .run then stepRet s i id pc else none
    | .take id pc v => if oc == .run then stepTake s i id pc v else none
    | .close pc => if oc == .run then stepClose s i pc else none
    | .status =>
      if oc == .run then
        let st := status s
        some ((s.setOp i .done).emit [.status i st.1 st.2.1 st.2.2.1 st.2.2.2])
      else none
    | .done => none

def step (s : State) (a : Action) : Option State :=
  match a with
  | .start sp => startOp s sp
  | .step i oc => stepOp s i oc

def run (s : State) (as : List Action) : State :=
  as.foldl (fun s a => (step s a).getD s) s

theorem run_cons (s : State) (a : Action) (as : List Action) :
    run s (a :: as) = run ((step s a).getD s) as := rfl

def run? (s : State) : List Action → Option State
  | [] => some s
  | a :: as => (step s a).bind (run? · as)

def Op.label : Op → String
  | .get _ _ _ .start => "uget.start"
  | .get _ _ _ .queued => "uget.start"
  | .get _ _ _ .pop => "uget.pop"
  | .get _ _ _ (.avail _) => "uget.available"
  | .get _ _ _ (.unwind _) => "uget.unwind"
  | .add _ _ .start => "uadd.start"
  | .add _ _ .queued => "uadd.start"
  | .add _ _ .size => "uadd.size"
  | .add _ _ .push => "uadd.push"
  | .add _ _ .avail => "uadd.available"
  | .add _ _ .addPermits => "uadd.add_permits"
  | .add _ _ .cleanup => "uadd.cleanup"
  | .add _ _ .clear => "ucleanup.clear"
  | .ret _ .push => "uret.push"
  | .ret _ .avail => "uret.available"
  | .ret _ .addPermits => "uret.add_permits"
  | .ret _ .cleanup => "uret.cleanup"
  | .ret _ .clear => "ucleanup.clear"
  | .take _ .size _ => "utake.size"
  | .take _ .addPermits _ => "utake.add_permits"
  | .close .sem => "uclose.sem"
  | .close .sizeSem => "uclose.size_sem"
  | .close .clear => "uclose.clear"
  | .status => "ustatus"
  | .done => "done"

def Op.suspended : Op → Bool
  | .get _ _ _ .queued => true
  | .add _ _ .queued => true
  | _ => false

end U
end DeadpoolVerif
