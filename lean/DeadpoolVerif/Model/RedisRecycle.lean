/-
C17 — `deadpool_redis::Manager::recycle` (`/repo/redis/src/lib.rs`) against a server that may
answer anything, and the sequential driver of the standalone Redis pool used by the
correspondence check.

Import-free apart from the pool model (linked into the `dpmodel` driver).
-/
import DeadpoolVerif.Model.Managed
import DeadpoolVerif.Model.Solo

namespace DeadpoolVerif
namespace RR

/-- what the server does with the pipeline `UNWATCH; PING n` -/
inductive Reply
  /-- echoes a value: `some v` a number, `none` something that is not a number at all -/
  | echo (v : Option Nat)
  | error
  /-- the `UNWATCH` is answered with an error, the `PING` correctly -/
  | unwatchError
  /-- hangs up -/
  | drop
  /-- never answers -/
  | silent
deriving Repr, DecidableEq, Inhabited

/-- commands the server receives on one connection -/
inductive Cmd | unwatch | ping (n : Nat) | watch | other
deriving Repr, DecidableEq, Inhabited

/-- server-side view of one connection -/
structure Conn where
  watched : Bool := false
  log : List Cmd := []
deriving Repr, DecidableEq, Inhabited

/-- `Manager`: the per-manager counter that makes each `PING` unique -/
structure Mgr where
  pingNumber : Nat := 0
deriving Repr, DecidableEq, Inhabited

/-- `Manager::recycle`: take the next ping number, send `UNWATCH` and `PING n` in one pipeline
(the server processes them in order), accept only the echo of `n` -/
def recycle (m : Mgr) (c : Conn) (r : Reply) : Mgr × Conn × Bool :=
  ({ pingNumber := m.pingNumber + 1 },
   { watched := false, log := c.log ++ [.unwatch, .ping m.pingNumber] },
   match r with
   | .echo (some v) => v == m.pingNumber
   | _ => false)

/-- a user `WATCH` on a checked-out connection -/
def Conn.watch (c : Conn) : Conn := { watched := true, log := c.log ++ [.watch] }

def pingsOf (l : List Cmd) : List Nat := l.filterMap fun | .ping n => some n | _ => none

/-- a sequence of recycles on one pool (whatever connections they are on): the ping numbers sent -/
def pingsSent (m : Mgr) : List Reply → List Nat
  | [] => []
  | _ :: rs => m.pingNumber :: pingsSent { pingNumber := m.pingNumber + 1 } rs

/-! ### one connection over its whole life (spec-level, used by the C17 trace theorems) -/

/-- what can happen to one connection between its creation and now: the user who holds it sends
`WATCH` or anything else, or the pool recycles it (with whatever the server answers) -/
inductive ConnOp | watch | other | recycle (r : Reply)
deriving Repr, DecidableEq, Inhabited

def connStep (mc : Mgr × Conn) : ConnOp → Mgr × Conn
  | .watch => (mc.1, mc.2.watch)
  | .other => (mc.1, { mc.2 with log := mc.2.log ++ [.other] })
  | .recycle r => ((recycle mc.1 mc.2 r).1, (recycle mc.1 mc.2 r).2.1)

/-- the watch state the SERVER derives from the commands it received, in order -/
def watchStep (w : Bool) : Cmd → Bool
  | .watch => true
  | .unwatch => false
  | _ => w

def watchedOf (l : List Cmd) : Bool := l.foldl watchStep false

/-! ### sequential driver of the pool (correspondence check) -/

structure Pool where
  pool : State
  mgr : Mgr := {}
  conns : List (Nat × Conn) := []
deriving Inhabited

def Pool.conn (p : Pool) (id : Nat) : Conn :=
  match p.conns.find? (·.1 == id) with
  | some (_, c) => c
  | none => {}

def Pool.setConn (p : Pool) (id : Nat) (c : Conn) : Pool :=
  { p with conns := (id, c) :: p.conns.filter (·.1 != id) }

/-- state of the environment during one get(): the manager, the server-side view of the
connections, the scripted replies still to come, the pings sent so far (connection, value) -/
structure EnvSt where
  mgr : Mgr
  conns : List (Nat × Conn)
  replies : List Reply
  pings : List (Nat × Nat) := []
deriving Inhabited

def connOf (conns : List (Nat × Conn)) (id : Nat) : Conn :=
  match conns.find? (·.1 == id) with
  | some (_, c) => c
  | none => {}

/-- the environment of the sequential driver: internal steps run, `create` and the hooks
succeed, each `Manager::recycle` consumes the next scripted reply (a missing one means the right
echo) and answers what `recycle` decides -/
def env : Solo.Env EnvSt := fun e s i =>
  match Solo.atRecycle s i with
  | some o =>
    let r := e.replies.headD (.echo (some e.mgr.pingNumber))
    let (m', c', ok) := recycle e.mgr (connOf e.conns o.id) r
    some (if ok then .ok else .err,
          { mgr := m', conns := (o.id, c') :: e.conns.filter (·.1 != o.id), replies := e.replies.tail,
            pings := e.pings ++ [(o.id, e.mgr.pingNumber)] })
  | none => (Solo.defaultOutcome (fun _ => true) s i).map fun oc => (oc, e)

/-- run get operation `i` (already started) alone -/
def soloGet (p : Pool) (i : Nat) (replies : List Reply) (fuel : Nat) : Pool × List (Nat × Nat) :=
  let r := Solo.soloWith env { mgr := p.mgr, conns := p.conns, replies := replies } p.pool i fuel
  ({ pool := r.2, mgr := r.1.mgr, conns := r.1.conns }, r.1.pings)

/-- run a non-get operation to its end -/
def soloOther (s : State) (i : Nat) (fuel : Nat) : State :=
  (Solo.soloWith (fun (_ : Unit) s i => (Solo.defaultOutcome (fun _ => true) s i).map fun oc => (oc, ())) () s i fuel).2

end RR
end DeadpoolVerif
