/-
C17 — `deadpool_redis::Manager::recycle` (`/repo/redis/src/lib.rs`) against a server that may
answer anything, and the sequential driver of the standalone Redis pool used by the
correspondence check.

Import-free apart from the pool model (linked into the `dpmodel` driver).
-/
import DeadpoolVerif.Model.Managed

namespace DeadpoolVerif
namespace RR

/-- what the server does with the pipeline `UNWATCH; PING n` -/
inductive Reply
  /-- echoes a value: `some v` a number, `none` something that is not a number at all -/
  | echo (v : Option Nat)
  | error
  /-- the `UNWATCH` is answered with an error, the `PING` correctly -/
  | unwatchError
  /-- hangs up -/
  | drop
  /-- never answers -/
  | silent
deriving Repr, DecidableEq, Inhabited

/-- commands the server receives on one connection -/
inductive Cmd | unwatch | ping (n : Nat) | watch | other
deriving Repr, DecidableEq, Inhabited

/-- server-side view of one connection -/
structure Conn where
  watched : Bool := false
  log : List Cmd := []
deriving Repr, DecidableEq, Inhabited

/-- `Manager`: the per-manager counter that makes each `PING` unique -/
structure Mgr where
  pingNumber : Nat := 0
deriving Repr, DecidableEq, Inhabited

/-- `Manager::recycle`: take the next ping number, send `UNWATCH` and `PING n` in one pipeline
(the server processes them in order), accept only the echo of `n` -/
def recycle (m : Mgr) (c : Conn) (r : Reply) : Mgr × Conn × Bool :=
  ({ pingNumber := m.pingNumber + 1 },
   { watched := false, log := c.log ++ [.unwatch, .ping m.pingNumber] },
   match r with
   | .echo (some v) => v == m.pingNumber
   | _ => false)

/-- a user `WATCH` on a checked-out connection -/
def Conn.watch (c : Conn) : Conn := { watched := true, log := c.log ++ [.watch] }

def pingsOf (l : List Cmd) : List Nat := l.filterMap fun | .ping n => some n | _ => none

/-- a sequence of recycles on one pool (whatever connections they are on): the ping numbers sent -/
def pingsSent (m : Mgr) : List Reply → List Nat
  | [] => []
  | _ :: rs => m.pingNumber :: pingsSent { pingNumber := m.pingNumber + 1 } rs

/-! ### sequential driver of the pool (correspondence check) -/

structure Pool where
  pool : State
  mgr : Mgr := {}
  conns : List (Nat × Conn) := []
deriving Inhabited

def Pool.conn (p : Pool) (id : Nat) : Conn :=
  match p.conns.find? (·.1 == id) with
  | some (_, c) => c
  | none => {}

def Pool.setConn (p : Pool) (id : Nat) (c : Conn) : Pool :=
  { p with conns := (id, c) :: p.conns.filter (·.1 != id) }

/-- run get operation `i` alone: internal steps run, `create` succeeds, each `Manager::recycle`
consumes the next scripted reply (a missing one means the right echo) -/
def soloGet (p : Pool) (i : Nat) (replies : List Reply) : Nat → Pool × List (Nat × Nat)
  | 0 => (p, [])
  | fuel + 1 =>
    match p.pool.ops[i]? with
    | some (.get _ (.recycling k o _)) =>
      if k = p.pool.cfg.pre.length then
        let r := replies.headD (.echo (some p.mgr.pingNumber))
        let n := p.mgr.pingNumber
        let (m', c', ok) := recycle p.mgr (p.conn o.id) r
        match step p.pool (.step i (if ok then .ok else .err)) with
        | some s' =>
          let (p', pings) := soloGet ({ p with pool := s', mgr := m' }.setConn o.id c') i replies.tail fuel
          (p', (o.id, n) :: pings)
        | none => (p, [])
      else
        match step p.pool (.step i .ok) with
        | some s' => soloGet { p with pool := s' } i replies fuel
        | none => (p, [])
    | some (.get _ (.creating _)) | some (.get _ (.postCreate ..)) =>
      match step p.pool (.step i .ok) with
      | some s' => soloGet { p with pool := s' } i replies fuel
      | none => (p, [])
    | some .done | none => (p, [])
    | some _ =>
      match step p.pool (.step i .run) with
      | some s' => soloGet { p with pool := s' } i replies fuel
      | none => (p, [])

/-- run a non-get operation to its end -/
def soloOther (s : State) (i : Nat) : Nat → State
  | 0 => s
  | fuel + 1 =>
    match s.ops[i]? with
    | some .done | none => s
    | some _ =>
      match step s (.step i .run) with
      | some s' => soloOther s' i fuel
      | none => s

end RR
end DeadpoolVerif
