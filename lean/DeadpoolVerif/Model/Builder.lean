/-
Model of `PoolBuilder` (src/managed/builder.rs): the configuration a sequence of builder calls
leaves behind.  Durations are milliseconds (`none` = no timeout); the runtime and the hooks are
not part of this model (`build()`'s runtime check is `buildOk` in `Managed.lean`).

Import-free on purpose (linked into the `dpmodel` driver).
-/
namespace DeadpoolVerif
namespace Bld

structure Tmos where
  wait    : Option Nat := none
  create  : Option Nat := none
  recycle : Option Nat := none
deriving Repr, DecidableEq, Inhabited

/-- `PoolConfig` -/
structure Conf where
  maxSize : Nat
  tmo     : Tmos := {}
  lifo    : Bool := false
deriving Repr, DecidableEq, Inhabited

/-- the configuration calls of `PoolBuilder` -/
inductive Call
  | maxSize (n : Nat)
  | timeouts (t : Tmos)
  | wait (d : Option Nat)
  | create (d : Option Nat)
  | recycle (d : Option Nat)
  | queueMode (lifo : Bool)
  | config (c : Conf)
deriving Repr, DecidableEq, Inhabited

/-- every call writes exactly the field(s) it names -/
def apply (b : Conf) : Call → Conf
  | .maxSize n => { b with maxSize := n }
  | .timeouts t => { b with tmo := t }
  | .wait d => { b with tmo := { b.tmo with wait := d } }
  | .create d => { b with tmo := { b.tmo with create := d } }
  | .recycle d => { b with tmo := { b.tmo with recycle := d } }
  | .queueMode l => { b with lifo := l }
  | .config c => c

/-- `Pool::builder(m)` starts from `PoolConfig::default()`: `dflt` objects (a function of the
machine), no timeouts, Fifo -/
def start (dflt : Nat) : Conf := { maxSize := dflt }

def applyAll (dflt : Nat) (cs : List Call) : Conf := cs.foldl apply (start dflt)

end Bld
end DeadpoolVerif
