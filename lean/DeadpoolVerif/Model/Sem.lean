/-
Model of `tokio::sync::Semaphore` (tokio 1.53.1, `batch_semaphore.rs`) as used by
deadpool: every acquire asks for exactly one permit.

Each API call is one atomic step (tokio serialises them on the waiter-list
lock / a CAS loop on the permit counter).  Waiters are identified by the id of
the pool operation that owns the `Acquire` future.

  permits   the counter (`available_permits`)
  closed    the CLOSED bit
  queue     waiters that still need their permit, oldest first
            (tokio: `push_front` on enqueue, `pop_back` on assignment)
  assigned  waiters that were handed a permit by `add_permits` (their node's
            `state` reached 0, they were removed from the queue and woken) but
            whose `Acquire` future has not been polled since

This file is import-free on purpose (it is linked into the `dpmodel` driver).
-/
namespace DeadpoolVerif

structure Sem where
  permits  : Nat := 0
  closed   : Bool := false
  queue    : List Nat := []
  assigned : List Nat := []
deriving Repr, DecidableEq, Inhabited

inductive TryRes | ok | noPermits | closed
deriving Repr, DecidableEq

inductive PollRes | ok | pending | closed
deriving Repr, DecidableEq

namespace Sem

/-- `Semaphore::new(n)` -/
def new (n : Nat) : Sem := { permits := n }

/-- `try_acquire()` (batch_semaphore.rs `try_acquire`). -/
def tryAcquire (s : Sem) : Sem × TryRes :=
  if s.closed then (s, .closed)
  else if s.permits = 0 then (s, .noPermits)
  else ({ s with permits := s.permits - 1 }, .ok)

/-- `add_permits(n)` / `release(n)`: the `n` permits go to the oldest waiters
first (one each, they leave the queue and are woken), the remainder to the
counter (`add_permits_locked`). -/
def addPermits (s : Sem) (n : Nat) : Sem :=
  let k := min n s.queue.length
  { s with queue := s.queue.drop k
           assigned := s.assigned ++ s.queue.take k
           permits := s.permits + (n - k) }

/-- One poll of the `Acquire` future owned by `me` (`poll_acquire`), including,
for the closed case, the `Acquire::drop` that follows in the same poll of the
enclosing `async` block (it returns a permit that had already been assigned). -/
def pollAcquire (s : Sem) (me : Nat) : Sem × PollRes :=
  if s.closed then
    if me ∈ s.assigned then
      (addPermits { s with assigned := s.assigned.erase me } 1, .closed)
    else
      ({ s with queue := s.queue.erase me }, .closed)
  else if me ∈ s.assigned then
    ({ s with assigned := s.assigned.erase me }, .ok)
  else if s.permits = 0 then
    if me ∈ s.queue then (s, .pending)
    else ({ s with queue := s.queue ++ [me] }, .pending)
  else
    ({ s with permits := s.permits - 1, queue := s.queue.erase me }, .ok)

/-- `Acquire::drop` of a future that is still pending (cancellation, timeout). -/
def dropAcquire (s : Sem) (me : Nat) : Sem :=
  if me ∈ s.assigned then
    addPermits { s with assigned := s.assigned.erase me } 1
  else
    { s with queue := s.queue.erase me }

/-- `close()`: set the bit, wake and remove every queued waiter. -/
def close (s : Sem) : Sem := { s with closed := true, queue := [] }

/-- Tokens this semaphore currently accounts for. -/
def tokens (s : Sem) : Nat := s.permits + s.assigned.length

end Sem
end DeadpoolVerif
