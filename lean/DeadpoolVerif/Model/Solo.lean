/-
Sequential use of the pool model: one operation at a time, run from its start to its end, with
an *environment* that answers the callbacks (create, hooks, `Manager::recycle`) from a state of
its own.  The backend correspondence checks (C15, C16, C17) drive the pool model this way.

`soloWith` is nothing but a particular way of choosing actions: `soloWith_run` (Lemmas/Solo2)
shows that its result is `run?` of the action list `soloActs`, so every theorem about all
action lists covers what these drivers do.

Import-free apart from the pool model (linked into the `dpmodel` driver).
-/
import DeadpoolVerif.Model.Managed

namespace DeadpoolVerif
namespace Solo

/-- the environment: from its own state and the pool state it decides what happens next to
operation `i` (`none`: nothing more, the operation is left as it is) -/
abbrev Env (σ : Type) := σ → State → Nat → Option (Outcome × σ)

/-- run operation `i` alone until the environment stops, a step is refused, or the fuel is used up -/
def soloWith {σ : Type} (env : Env σ) (e : σ) (s : State) (i : Nat) : Nat → σ × State
  | 0 => (e, s)
  | fuel + 1 =>
    match env e s i with
    | none => (e, s)
    | some (oc, e') =>
      match step s (.step i oc) with
      | some s' => soloWith env e' s' i fuel
      | none => (e, s)

/-- the actions `soloWith` takes -/
def soloActs {σ : Type} (env : Env σ) (e : σ) (s : State) (i : Nat) : Nat → List Action
  | 0 => []
  | fuel + 1 =>
    match env e s i with
    | none => []
    | some (oc, e') =>
      match step s (.step i oc) with
      | some s' => .step i oc :: soloActs env e' s' i fuel
      | none => []

/-- the default answers when one caller uses the pool: internal steps run, `create` and the
hooks succeed; `recycle` is what the caller of this function says about the object -/
def defaultOutcome (recycleOk : Obj → Bool) (s : State) (i : Nat) : Option Outcome :=
  match s.ops[i]? with
  | some (.get _ (.recycling k o _)) =>
    some (if k = s.cfg.pre.length then (if recycleOk o then .ok else .err) else .ok)
  | some (.get _ (.creating _)) => some .ok
  | some (.get _ (.postCreate ..)) => some .ok
  | some .done => none
  | some _ => some .run
  | none => none

/-- the object whose `Manager::recycle` is being answered at this point, if that is where
operation `i` stands -/
def atRecycle (s : State) (i : Nat) : Option Obj :=
  match s.ops[i]? with
  | some (.get _ (.recycling k o _)) => if k = s.cfg.pre.length then some o else none
  | _ => none

/-- start an operation and run it to its end -/
def soloOp {σ : Type} (env : Env σ) (e : σ) (s : State) (sp : Spec) (fuel : Nat := 200) :
    Option (σ × State × Nat) :=
  match step s (.start sp) with
  | some s' => let r := soloWith env e s' s.ops.length fuel; some (r.1, r.2, s.ops.length)
  | none => none

end Solo
end DeadpoolVerif
