/-
Model of `deadpool_sync::SyncWrapper` (`/repo/sync/src/lib.rs`) on top of
`deadpool_runtime::Runtime::spawn_blocking` (`/repo/runtime/src/lib.rs`).

The wrapper is `Arc<Mutex<Option<T>>>` plus a runtime handle.  Every `interact()` spawns a
blocking task that locks the mutex, runs the closure on the value and unlocks; dropping the
wrapper spawns a blocking task that locks the mutex (poisoned or not) and takes the value out,
which runs its destructor.  Dropping an `interact()` future does not stop its task.

What the blocking pool does is the environment: *when* a spawned task gets the mutex, and on
which pool thread, is chosen by the action sequence (`begin i`, `destroy`).  The contract
assumed of `spawn_blocking` — the closure runs on a pool thread, never on the caller's — is
recorded in `Thr` and checked against the real run by the correspondence harness.

Import-free on purpose (linked into the `dpmodel` driver).
-/
namespace DeadpoolVerif
namespace Sy

/-- what a closure does when it runs -/
inductive Beh | ok | panic
deriving Repr, DecidableEq, Inhabited

/-- result of `interact()` -/
inductive Res | ok | panic | aborted
deriving Repr, DecidableEq, Inhabited

/-- which kind of thread something ran on -/
inductive Thr
  | blocking   -- a thread of the blocking pool
  | caller     -- the thread that awaited / dropped the wrapper
deriving Repr, DecidableEq, Inhabited

inductive TPc
  | spawned                 -- `spawn_blocking` called, closure not yet past `arc.lock()`
  | running                 -- holds the mutex, user closure executing
  | done (r : Res)
deriving Repr, DecidableEq, Inhabited

structure Task where
  beh : Beh
  pc : TPc := .spawned
  /-- the `interact()` future was dropped -/
  cancelled : Bool := false
  /-- the `interact()` future returned -/
  delivered : Option Res := none
deriving Repr, DecidableEq, Inhabited

/-- everything that touches the wrapped value, with the thread it happened on -/
inductive Ev
  | create (t : Thr)
  | begin (i : Nat) (t : Thr)
  | finish (i : Nat) (panicked : Bool)
  | destroy (t : Thr)
deriving Repr, DecidableEq, Inhabited

structure State where
  /-- the `SyncWrapper` has not been dropped -/
  alive : Bool := true
  /-- the mutex holds `Some(value)` -/
  value : Bool := true
  /-- closure task holding the mutex -/
  lock : Option Nat := none
  poisoned : Bool := false
  tasks : List Task := []
  /-- the drop task was spawned and has not run -/
  dropPending : Bool := false
  /-- destructor runs so far -/
  destroyed : Nat := 0
  /-- oldest first -/
  log : List Ev := []
deriving Repr, DecidableEq, Inhabited

/-- after `SyncWrapper::new` succeeded (the constructor closure ran on a pool thread) -/
def init : State := { log := [.create .blocking] }

inductive Action
  /-- `interact(f)` polled for the first time: the task is spawned -/
  | call (b : Beh)
  /-- task `i` got the mutex and enters the user closure -/
  | begin (i : Nat)
  /-- the closure of task `i` returns (or panics, as its behaviour says); mutex released -/
  | finish (i : Nat)
  /-- the `interact()` future of task `i` is dropped -/
  | cancel (i : Nat)
  /-- the `interact()` future of task `i` returns `r` -/
  | result (i : Nat) (r : Res)
  /-- the wrapper is dropped: the drop task is spawned -/
  | dropw
  /-- the drop task got the mutex and takes the value out -/
  | destroy
deriving Repr, DecidableEq, Inhabited

def setTask (s : State) (i : Nat) (t : Task) : State := { s with tasks := s.tasks.set i t }

/-- no `interact()` future borrows the wrapper any more (Rust's borrow rules demand this of
whoever drops it) -/
def noFutures (s : State) : Bool := s.tasks.all fun t => t.cancelled || t.delivered.isSome

/-- what a task that never entered its closure reports: the mutex was poisoned when it locked
(`lock().unwrap()` panics) or the value was already gone (`Aborted`) -/
def spawnedOutcome (s : State) : Option Res :=
  if s.poisoned then some .panic else if !s.value && s.lock.isNone then some .aborted else none

def step (s : State) (a : Action) : Option State :=
  match a with
  | .call b => if s.alive then some { s with tasks := s.tasks ++ [{ beh := b }] } else none
  | .begin i =>
    match s.tasks[i]? with
    | some t =>
      if t.pc = .spawned ∧ s.lock = none ∧ s.poisoned = false ∧ s.value = true then
        some { setTask s i { t with pc := .running } with lock := some i, log := s.log ++ [.begin i .blocking] }
      else none
    | none => none
  | .finish i =>
    match s.tasks[i]? with
    | some t =>
      if t.pc = .running ∧ s.lock = some i then
        match t.beh with
        | .ok => some { setTask s i { t with pc := .done .ok } with lock := none, log := s.log ++ [.finish i false] }
        | .panic => some { setTask s i { t with pc := .done .panic } with
                            lock := none, poisoned := true, log := s.log ++ [.finish i true] }
      else none
    | none => none
  | .cancel i =>
    match s.tasks[i]? with
    | some t => if t.delivered.isNone ∧ !t.cancelled then some (setTask s i { t with cancelled := true }) else none
    | none => none
  | .result i r =>
    match s.tasks[i]? with
    | some t =>
      if t.cancelled ∨ t.delivered.isSome then none else
      match t.pc with
      | .done r' => if r = r' then some (setTask s i { t with delivered := some r }) else none
      | .spawned =>
        if spawnedOutcome s = some r then some (setTask s i { t with pc := .done r, delivered := some r }) else none
      | .running => none
    | none => none
  | .dropw =>
    if s.alive ∧ noFutures s then some { s with alive := false, dropPending := true } else none
  | .destroy =>
    if s.dropPending ∧ s.lock = none then
      some { s with dropPending := false,
                    destroyed := if s.value then s.destroyed + 1 else s.destroyed,
                    value := false,
                    log := if s.value then s.log ++ [.destroy .blocking] else s.log }
    else none

def run? : State → List Action → Option State
  | s, [] => some s
  | s, a :: as => (step s a).bind fun s' => run? s' as

/-! ### the specification of a good event history -/

inductive Phase
  | idle
  | inClosure (i : Nat)
  | gone
deriving Repr, DecidableEq, Inhabited

/-- one event against the phase: closures never overlap each other or the destructor, nothing
touches the value after the destructor, the destructor runs at most once, and everything runs
on a pool thread -/
def Phase.next : Phase → Ev → Option Phase
  | .idle, .begin i .blocking => some (.inClosure i)
  | .inClosure i, .finish j _ => if i = j then some .idle else none
  | .idle, .destroy .blocking => some .gone
  | _, _ => none

def scan : Phase → List Ev → Option Phase
  | p, [] => some p
  | p, e :: es => (p.next e).bind fun p' => scan p' es

/-- a history is good when it starts with the construction on a pool thread and the rest scans -/
def goodLog : List Ev → Option Phase
  | .create .blocking :: es => scan .idle es
  | _ => none

end Sy
end DeadpoolVerif
