/-
Models for C19: the `(url(s), connection(s))` decision of the three redis `Config`
flavours, the conversions between deadpool-redis' connection descriptions and the redis
crate's, and the serialised form of `PoolConfig` / `Timeouts` / `QueueMode`.

Strings are opaque tokens.  Import-free on purpose (linked into the `dpmodel` driver).
-/
namespace DeadpoolVerif
namespace Rd

/-! ### the decision -/

inductive Decision (α β : Type)
  | urlAndConnectionSpecified
  | useUrls (u : α)
  | useConnections (c : β)
  | useDefault
deriving Repr, DecidableEq

/-- `builder()` of `Config` (standalone: one url / one connection; cluster and sentinel:
lists) -/
def decide {α β : Type} (urls : Option α) (conns : Option β) : Decision α β :=
  match urls, conns with
  | some u, none => .useUrls u
  | none, some c => .useConnections c
  | none, none => .useDefault
  | some _, some _ => .urlAndConnectionSpecified

/-- a server a pool may talk to: one of the explicitly named ones or the default local server -/
inductive Server
  | named (n : Nat)
  | dflt
deriving Repr, DecidableEq, Inhabited

inductive BuildResult
  | errBoth
  | errRedis
  | ok (servers : List Server) (maxSize : Nat)
deriving Repr, DecidableEq, Inhabited

/-- `Config::builder()` + `build()` of all three flavours.  `urls`: `none` entries are urls the
redis crate cannot parse.  `acceptU` / `acceptC`: whether the redis crate's client constructor
accepts the parsed url list / the connection list (a parameter: e.g. the cluster client rejects
an empty list, unix sockets and differing passwords).  `pool` is the optional pool section,
`dfltMax` what `PoolConfig::default()` says on this machine. -/
def builder (urls : Option (List (Option Server))) (conns : Option (List Server))
    (acceptU acceptC : Bool) (pool : Option Nat) (dfltMax : Nat) : BuildResult :=
  match decide urls conns with
  | .urlAndConnectionSpecified => .errBoth
  | .useUrls us =>
    if us.all Option.isSome && acceptU then .ok (us.filterMap id) (pool.getD dfltMax)
    else .errRedis
  | .useConnections cs =>
    if acceptC then .ok cs (pool.getD dfltMax) else .errRedis
  | .useDefault => .ok [Server.dflt] (pool.getD dfltMax)

/-! ### connection descriptions -/

inductive Proto | resp2 | resp3
deriving Repr, DecidableEq, Inhabited

/-- `RedisConnectionInfo` (identical fields on both sides) -/
structure RInfo where
  db : Int
  username : Option String
  password : Option String
  protocol : Proto
deriving Repr, DecidableEq, Inhabited

/-- `deadpool_redis::ConnectionAddr` -/
inductive Addr
  | tcp (host : String) (port : Nat)
  | tcpTls (host : String) (port : Nat) (insecure : Bool)
  | unix (path : String)
deriving Repr, DecidableEq, Inhabited

/-- `redis::ConnectionAddr` (`tlsParams`: whether `tls_params` is `Some`) -/
inductive RAddr
  | tcp (host : String) (port : Nat)
  | tcpTls (host : String) (port : Nat) (insecure : Bool) (tlsParams : Bool)
  | unix (path : String)
deriving Repr, DecidableEq, Inhabited

structure Info where
  addr : Addr
  redis : RInfo
deriving Repr, DecidableEq, Inhabited

structure RedisInfo where
  addr : RAddr
  redis : RInfo
deriving Repr, DecidableEq, Inhabited

def Addr.toRedis : Addr → RAddr
  | .tcp h p => .tcp h p
  | .tcpTls h p i => .tcpTls h p i false
  | .unix p => .unix p

def RAddr.toOurs : RAddr → Addr
  | .tcp h p => .tcp h p
  | .tcpTls h p i _ => .tcpTls h p i
  | .unix p => .unix p

/-- forgetting `tls_params` (the documented loss of the conversion from the redis crate) -/
def RAddr.eraseTls : RAddr → RAddr
  | .tcpTls h p i _ => .tcpTls h p i false
  | a => a

def Info.toRedis (i : Info) : RedisInfo := { addr := i.addr.toRedis, redis := i.redis }
def RedisInfo.toOurs (i : RedisInfo) : Info := { addr := i.addr.toOurs, redis := i.redis }

inductive TlsMode | secure | insecure
deriving Repr, DecidableEq, Inhabited

inductive ServerType | master | replica
deriving Repr, DecidableEq, Inhabited

/-- `SentinelNodeConnectionInfo` (both sides have the same shape) -/
structure NodeInfo where
  tlsMode : Option TlsMode
  redis : Option RInfo
deriving Repr, DecidableEq, Inhabited

/-- both directions map field by field -/
def NodeInfo.conv (n : NodeInfo) : NodeInfo := { tlsMode := n.tlsMode, redis := n.redis }

/-! ### sentinel: what reaches the monitored server -/

/-- what `sentinel::Config::builder()` hands to `Manager::new` as the description of the
connections to the monitored servers: the configured node info, converted - on every route
that builds a manager (`none`: no manager is built) -/
def sentinelNode {α β : Type} (urls : Option α) (conns : Option β) (node : Option NodeInfo) :
    Option (Option NodeInfo) :=
  match decide urls conns with
  | .urlAndConnectionSpecified => none
  | .useUrls _ => some (node.map NodeInfo.conv)
  | .useConnections _ => some (node.map NodeInfo.conv)
  | .useDefault => some (node.map NodeInfo.conv)

/-- set-up commands of a connection to a monitored server (behaviour of the redis crate, a
parameter of the model): `AUTH [user] pass` when a password is configured, `SELECT db` when
the database is not 0 -/
structure Wire where
  auth : Option (Option String × String)
  db : Int
deriving Repr, DecidableEq, Inhabited

def nodeWire (n : Option NodeInfo) : Wire :=
  match n.bind (·.redis) with
  | none => { auth := none, db := 0 }
  | some r => { auth := r.password.map (fun p => (r.username, p)), db := r.db }

/-! ### whole `Config` values read from a document -/

inductive Flavour | redis | cluster | sentinel
deriving Repr, DecidableEq, Inhabited

/-- which top-level keys a document for a whole `Config` carries (values are opaque except
where a default is documented) -/
structure WholeDoc where
  /-- `url` / `urls` -/
  urls : Bool := false
  /-- `connection` / `connections` -/
  conns : Bool := false
  /-- `pool.max_size` of a `pool` section -/
  pool : Option Nat := none
  /-- cluster: `read_from_replicas`; sentinel: `server_type` is `replica` -/
  flag : Option Bool := none
  /-- sentinel: `master_name` -/
  name : Option String := none
deriving Repr, DecidableEq, Inhabited

/-- the `Config` a document deserialises to -/
structure Whole where
  urls : Bool
  conns : Bool
  pool : Option Nat
  flag : Bool
  name : String
deriving Repr, DecidableEq, Inhabited

/-- documented defaults of omitted keys: no url(s), no connection(s), no pool section,
`read_from_replicas = false`, `server_type = master`, `master_name = "mymaster"` -/
def decodeWhole (f : Flavour) (d : WholeDoc) : Whole :=
  { urls := d.urls, conns := d.conns, pool := d.pool,
    flag := d.flag.getD false,
    name := match f with
      | .sentinel => d.name.getD "mymaster"
      | _ => "" }

/-- what `builder()` says about the deserialised config (the listed servers are fine) -/
def Whole.decision (w : Whole) : Decision Unit Unit :=
  decide (if w.urls then some () else none) (if w.conns then some () else none)

/-! ### PoolConfig and its serialised form -/

inductive QueueMode | fifo | lifo
deriving Repr, DecidableEq, Inhabited

structure Dur where
  secs : Nat
  nanos : Nat
deriving Repr, DecidableEq, Inhabited

structure Timeouts where
  wait : Option Dur := none
  create : Option Dur := none
  recycle : Option Dur := none
deriving Repr, DecidableEq, Inhabited

structure PoolConfig where
  maxSize : Nat
  timeouts : Timeouts := {}
  queueMode : QueueMode := .fifo
deriving Repr, DecidableEq, Inhabited

/-- a JSON-like tree (what serde sees) -/
inductive Tree
  | null
  | num (n : Nat)
  | str (s : String)
  | obj (fields : List (String × Tree))
deriving Repr, Inhabited

def Tree.get (t : Tree) (k : String) : Option Tree :=
  match t with
  | .obj fs => (fs.find? (·.1 == k)).map (·.2)
  | _ => none

def encDur (d : Dur) : Tree := .obj [("secs", .num d.secs), ("nanos", .num d.nanos)]

def encOptDur : Option Dur → Tree
  | none => .null
  | some d => encDur d

def encTimeouts (t : Timeouts) : Tree :=
  .obj [("wait", encOptDur t.wait), ("create", encOptDur t.create), ("recycle", encOptDur t.recycle)]

def encQueueMode : QueueMode → Tree
  | .fifo => .str "Fifo"
  | .lifo => .str "Lifo"

/-- `serde::Serialize` for `PoolConfig` -/
def encode (p : PoolConfig) : Tree :=
  .obj [("max_size", .num p.maxSize), ("timeouts", encTimeouts p.timeouts),
        ("queue_mode", encQueueMode p.queueMode)]

/-- a number leaf.  Typed sources (JSON) demand a number; string-typed sources (environment
variables read through the `config` crate) deliver every leaf as a string and the number is
parsed from it. -/
def asNum (stringly : Bool) : Tree → Option Nat
  | .num n => if stringly then none else some n
  | .str s => if stringly then s.toNat? else none
  | _ => none

def decDur (stringly : Bool) (t : Tree) : Option Dur :=
  match (t.get "secs").bind (asNum stringly), (t.get "nanos").bind (asNum stringly) with
  | some s, some n => some { secs := s, nanos := n }
  | _, _ => none

/-- `Option<Duration>`: `null` or a missing key is `None` -/
def decOptDur (stringly : Bool) : Option Tree → Option (Option Dur)
  | none => some none
  | some .null => some none
  | some t => (decDur stringly t).map some

def decTimeouts (stringly : Bool) (t : Tree) : Option Timeouts :=
  match decOptDur stringly (t.get "wait"), decOptDur stringly (t.get "create"),
        decOptDur stringly (t.get "recycle") with
  | some w, some c, some r => some { wait := w, create := c, recycle := r }
  | _, _, _ => none

def decQueueMode : Tree → Option QueueMode
  | .str "Fifo" => some .fifo
  | .str "Lifo" => some .lifo
  | _ => none

/-- `serde::Deserialize` for `PoolConfig`: `timeouts` and `queue_mode` are `#[serde(default)]` -/
def decodeWith (stringly : Bool) (t : Tree) : Option PoolConfig :=
  match (t.get "max_size").bind (asNum stringly) with
  | some m =>
    let timeouts := match t.get "timeouts" with
      | none => some ({} : Timeouts)
      | some tt => decTimeouts stringly tt
    let mode := match t.get "queue_mode" with
      | none => some QueueMode.fifo
      | some q => decQueueMode q
    match timeouts, mode with
    | some ts, some m' => some { maxSize := m, timeouts := ts, queueMode := m' }
    | _, _ => none
  | _ => none

/-- typed source (serde_json) -/
def decode (t : Tree) : Option PoolConfig := decodeWith false t

/-! the environment-style rendering: every leaf a string, `None` left out -/

def encDurStr (d : Dur) : Tree := .obj [("secs", .str (toString d.secs)), ("nanos", .str (toString d.nanos))]

def encTimeoutsStr (t : Timeouts) : Tree :=
  .obj ((t.wait.toList.map fun d => ("wait", encDurStr d)) ++
        (t.create.toList.map fun d => ("create", encDurStr d)) ++
        (t.recycle.toList.map fun d => ("recycle", encDurStr d)))

def encodeStr (p : PoolConfig) : Tree :=
  .obj [("max_size", .str (toString p.maxSize)), ("timeouts", encTimeoutsStr p.timeouts),
        ("queue_mode", encQueueMode p.queueMode)]

/-- compact JSON text, keys in declaration order (what `serde_json::to_string` prints) -/
partial def render : Tree → String
  | .null => "null"
  | .num n => toString n
  | .str s => "\"" ++ s ++ "\""
  | .obj fs => "{" ++ ",".intercalate (fs.map fun (k, v) => "\"" ++ k ++ "\":" ++ render v) ++ "}"

end Rd
end DeadpoolVerif
