/-
Small-step model of the managed pool (`/repo/src/managed/mod.rs`).

One `step` = one maximal code region between two accesses to shared pool state
(one slots-mutex region, one atomic RMW on `users`, one semaphore call, one
user callback).  The region boundaries are the `verif_point!` labels in the
source; `label` below gives the label an operation is parked at.

The environment (manager, hooks, retain predicates, timers, cancellation) is
not code: its choice is the `Outcome` carried by the action, so a statement
about all action lists quantifies over all schedules and all environment
behaviours.  Time is the number of actions executed so far.

Import-free on purpose (linked into the `dpmodel` driver).
-/
import DeadpoolVerif.Model.Sem

namespace DeadpoolVerif

inductive QueueMode | fifo | lifo
deriving Repr, DecidableEq, Inhabited

/-- `Option<Duration>` up to what the code distinguishes. -/
inductive Tmo | none | zero | finite
deriving Repr, DecidableEq, Inhabited

structure Timeouts where
  wait    : Tmo := .none
  create  : Tmo := .none
  recycle : Tmo := .none
deriving Repr, DecidableEq, Inhabited

structure Cfg where
  maxSize : Nat
  mode    : QueueMode := .fifo
  /-- one entry per registered hook, `true` = `Hook::AsyncFn` -/
  pre     : List Bool := []
  postR   : List Bool := []
  postC   : List Bool := []
  /-- a runtime was given to the builder -/
  rt      : Bool := false
deriving Repr, DecidableEq, Inhabited

/-- A pooled object together with its `Metrics`. -/
structure Obj where
  id       : Nat
  created  : Nat
  recycled : Option Nat := none
  rc       : Nat := 0
  /-- ghost: number of times the object has been handed out (not observable) -/
  handouts : Nat := 0
  /-- ghost: when the object was last put into the idle queue (not observable) -/
  idleSince : Nat := 0
deriving Repr, DecidableEq, Inhabited

/-- `Metrics::age()` read at instant `now`: time since creation -/
def Obj.age (o : Obj) (now : Nat) : Nat := now - o.created

/-- `Metrics::last_used()` read at instant `now`: time since the last hand-out after a reuse,
since creation before the first reuse -/
def Obj.lastUsed (o : Obj) (now : Nat) : Nat := now - o.recycled.getD o.created

/-- How a `get()` ended. -/
inductive Res
  | ok (id : Nat)
  | timeoutWait | timeoutCreate | timeoutRecycle
  | closed | noRuntime | backend | postCreateHook
  | cancelled | panicked
deriving Repr, DecidableEq, Inhabited

/-- What follows after an `UnreadyObject` has been dropped. -/
inductive Cont
  | retry            -- recycle rejected: loop, same permit
  | fail (r : Res)   -- error / cancellation / panic: unwind
deriving Repr, DecidableEq, Inhabited

/-- Program counter of `timeout_get`. `susp = true` means the whole future is
suspended inside the callback (it answered `Pending`). -/
inductive GPc
  | enter | acquire | queued | pop
  | recycling (k : Nat) (o : Obj) (susp : Bool)
  | creating (susp : Bool)
  | createSize (o : Obj)
  | postCreate (k : Nat) (o : Obj) (susp : Bool)
  | unreadyLock (o : Obj) (c : Cont)
  | unreadyDetach (o : Obj) (c : Cont)
  | dropPermit (r : Res)
  | dropUsers (r : Res)
deriving Repr, DecidableEq, Inhabited

inductive RPc | users | lock | addPermits | detach
deriving Repr, DecidableEq, Inhabited

inductive TPc | users | lock | addPermits | detach
deriving Repr, DecidableEq, Inhabited

inductive ZPc | enter | lock | shrink | grow
deriving Repr, DecidableEq, Inhabited

inductive Op
  | get (t : Timeouts) (pc : GPc)
  | ret (pc : RPc) (o : Obj)
  | take (pc : TPc) (o : Obj) (add : Bool)
  /-- `resize n` (`isClose = false`) or `close()` (`isClose = true`, `n = 0`) -/
  | resize (n : Nat) (isClose : Bool) (pc : ZPc) (old : Nat)
  | retain (keep : List Bool)
  | status
  | done
deriving Repr, DecidableEq, Inhabited

inductive Phase | pre | recycle | postR | postC
deriving Repr, DecidableEq, Inhabited

/-- Observable events (calls into user code, destruction, results). -/
inductive Ev
  | createCall (op : Nat)
  | call (op : Nat) (ph : Phase) (k : Nat) (o : Obj)
  | detach (op : Nat) (id : Nat)
  | destroy (op : Nat) (id : Nat)
  | handout (op : Nat) (o : Obj)
  | result (op : Nat) (r : Res)
  | returned (op : Nat) (id : Nat)
  | taken (op : Nat) (id : Nat)
  | pred (op : Nat) (k : Nat) (o : Obj) (keep : Bool)
  | retained (op : Nat) (kept : Nat) (removed : List Nat)
  | status (op : Nat) (maxSize size available waiting : Nat)
  | resized (op : Nat) (n : Nat)
  | closedEv (op : Nat)
  /-- a non-get operation (return, take) ended in a panic raised by user code -/
  | opPanic (op : Nat)
deriving Repr, DecidableEq, Inhabited

inductive Fault | underflow
deriving Repr, DecidableEq, Inhabited

structure State where
  cfg     : Cfg
  sem     : Sem
  /-- owner of the slots mutex while it is held across steps (resize / close) -/
  lock    : Option Nat := none
  idle    : List Obj := []
  size    : Nat := 0
  maxSize : Nat
  users   : Nat := 0
  /-- objects in callers' hands -/
  out     : List Obj := []
  ops     : List Op := []
  nextId  : Nat := 0
  now     : Nat := 0
  log     : List Ev := []
  fault   : Option Fault := none
  /-- ghost: capacity tokens in existence beyond `maxSize` (a shrink could not
  collect them yet). Never read by the transition function except to update
  it; not observable. -/
  debt    : Nat := 0
deriving Repr, DecidableEq, Inhabited

/-- `Pool::builder(m).config(cfg)…build()` -/
def init (cfg : Cfg) : State :=
  { cfg := cfg, sem := Sem.new cfg.maxSize, maxSize := cfg.maxSize }

/-- `PoolBuilder::build()`: timeouts configured on the pool require a runtime -/
def buildOk (rt : Bool) (t : Timeouts) : Bool :=
  rt || (t.wait == .none && t.create == .none && t.recycle == .none)

inductive Outcome | run | ok | err | pending | panic | deadline | cancel
deriving Repr, DecidableEq, Inhabited

inductive Spec
  | get (t : Timeouts)
  | ret (id : Nat)
  | take (id : Nat)
  | resize (n : Nat)
  | close
  | retain (keep : List Bool)
  | status
deriving Repr, DecidableEq, Inhabited

inductive Action
  | start (sp : Spec)
  | step (i : Nat) (oc : Outcome)
deriving Repr, DecidableEq, Inhabited

/-! ### helpers -/

/-- checked decrement: sticky fault on underflow (Rust: panic / wrap) -/
def decFault (f : Option Fault) (x k : Nat) : Option Fault :=
  match f with
  | some e => some e
  | none => if x < k then some .underflow else none

namespace State

def emit (s : State) (es : List Ev) : State := { s with log := s.log ++ es }

def setOp (s : State) (i : Nat) (op : Op) : State := { s with ops := s.ops.set i op }

/-- the slots mutex can be taken by operation `i` -/
def lockFree (s : State) (i : Nat) : Bool :=
  match s.lock with
  | none => true
  | some j => j == i

end State

/-- number of callbacks of the recycle sequence: pre hooks, `Manager::recycle`, post hooks -/
def Cfg.nRecycle (c : Cfg) : Nat := c.pre.length + 1 + c.postR.length

def Cfg.recyclePhase (c : Cfg) (k : Nat) : Phase × Nat :=
  if k < c.pre.length then (.pre, k)
  else if k = c.pre.length then (.recycle, 0)
  else (.postR, k - c.pre.length - 1)

/-- may callback `k` of the recycle sequence answer `Pending`? -/
def Cfg.recycleAsync (c : Cfg) (k : Nat) : Bool :=
  if k < c.pre.length then c.pre.getD k false
  else if k = c.pre.length then true
  else c.postR.getD (k - c.pre.length - 1) false

/-- operation `i` arrives at callback `k` of the recycle sequence with object `o` -/
def arriveRecycle (s : State) (i : Nat) (t : Timeouts) (k : Nat) (o : Obj) : State :=
  let (ph, j) := s.cfg.recyclePhase k
  (s.setOp i (.get t (.recycling k o false))).emit [.call i ph j o]

/-- successful end of `try_recycle` / `try_create`: the object is handed out -/
def handOut (s : State) (i : Nat) (o : Obj) : State :=
  let o := { o with handouts := o.handouts + 1 }
  ({ s with out := s.out ++ [o] }.setOp i .done).emit [.handout i o, .result i (.ok o.id)]

def arrivePostCreate (s : State) (i : Nat) (t : Timeouts) (k : Nat) (o : Obj) : State :=
  if k < s.cfg.postC.length then
    (s.setOp i (.get t (.postCreate k o false))).emit [.call i .postC k o]
  else handOut s i o

/-- `pop_front` (Fifo) / `pop_back` (Lifo) -/
def popIdle (m : QueueMode) (idle : List Obj) : Option (Obj × List Obj) :=
  match m with
  | .fifo =>
    match idle with
    | o :: rest => some (o, rest)
    | [] => none
  | .lifo =>
    match idle.getLast? with
    | some o => some (o, idle.dropLast)
    | none => none

/-- the op enters the unwind chain at the permit (no object in hand) -/
def failPermit (s : State) (i : Nat) (t : Timeouts) (r : Res) : State :=
  s.setOp i (.get t (.dropPermit r))

/-! ### `timeout_get` -/

def stepGet (s : State) (i : Nat) (t : Timeouts) (pc : GPc) (oc : Outcome) : Option State :=
  match pc, oc with
  -- 322: a recycle timeout cannot be enforced without a runtime (checked first); `users += 1`
  | .enter, .run =>
    if !s.cfg.rt && t.recycle != .none then
      some ((s.setOp i .done).emit [.result i .noRuntime])
    else
      some ({ s with users := s.users + 1 }.setOp i (.get t .acquire))
  -- 327-351: obtain a permit
  | .acquire, .run =>
    match t.wait with
    | .zero =>
      match s.sem.tryAcquire with
      | (sem, .ok) => some ({ s with sem := sem }.setOp i (.get t .pop))
      | (_, .noPermits) => some (s.setOp i (.get t (.dropUsers .timeoutWait)))
      | (_, .closed) => some (s.setOp i (.get t (.dropUsers .closed)))
    | w =>
      if w == .finite && !s.cfg.rt then
        some (s.setOp i (.get t (.dropUsers .noRuntime)))
      else
        match s.sem.pollAcquire i with
        | (sem, .ok) => some ({ s with sem := sem }.setOp i (.get t .pop))
        | (sem, .pending) => some ({ s with sem := sem }.setOp i (.get t .queued))
        | (sem, .closed) => some ({ s with sem := sem }.setOp i (.get t (.dropUsers .closed)))
  -- suspended in `Semaphore::acquire`
  | .queued, .run =>
    match s.sem.pollAcquire i with
    | (sem, .ok) => some ({ s with sem := sem }.setOp i (.get t .pop))
    | (sem, .pending) => some ({ s with sem := sem }.setOp i (.get t .queued))
    | (sem, .closed) => some ({ s with sem := sem }.setOp i (.get t (.dropUsers .closed)))
  | .queued, .cancel =>
    some ({ s with sem := s.sem.dropAcquire i }.setOp i (.get t (.dropUsers .cancelled)))
  | .queued, .deadline =>
    -- `tokio::time::timeout` polls the inner future first: a permit that was
    -- already assigned (or became free) wins over the deadline
    if t.wait == .finite && s.cfg.rt then
      match s.sem.pollAcquire i with
      | (sem, .ok) => some ({ s with sem := sem }.setOp i (.get t .pop))
      | (sem, .pending) =>
        some ({ s with sem := sem.dropAcquire i }.setOp i (.get t (.dropUsers .timeoutWait)))
      | (sem, .closed) => some ({ s with sem := sem }.setOp i (.get t (.dropUsers .closed)))
    else none
  -- 354-357: pop an idle object
  | .pop, .run =>
    if !s.lockFree i then none else
    match popIdle s.cfg.mode s.idle with
    | some (o, rest) => some (arriveRecycle { s with idle := rest } i t 0 o)
    | none =>
      -- nothing idle: `try_create`
      if !s.cfg.rt && t.create != .none then
        some (failPermit s i t .noRuntime)
      else
        some ((s.setOp i (.get t (.creating false))).emit [.createCall i])
  -- 391-418: the recycle sequence
  | .recycling k o susp, oc =>
    match oc with
    | .ok =>
      if k + 1 < s.cfg.nRecycle then some (arriveRecycle s i t (k + 1) o)
      else some (handOut s i { o with rc := o.rc + 1, recycled := some s.now })
    | .err => some (s.setOp i (.get t (.unreadyLock o .retry)))
    | .pending =>
      if !s.cfg.recycleAsync k then none
      else if k == s.cfg.pre.length && t.recycle == .zero then
        -- zero timeout with a runtime: one poll, then `Elapsed`
        some (s.setOp i (.get t (.unreadyLock o .retry)))
      else some (s.setOp i (.get t (.recycling k o true)))
    | .deadline =>
      if susp && k == s.cfg.pre.length && t.recycle == .finite then
        some (s.setOp i (.get t (.unreadyLock o .retry)))
      else none
    | .panic => some (s.setOp i (.get t (.unreadyLock o (.fail .panicked))))
    | .cancel =>
      if susp then some (s.setOp i (.get t (.unreadyLock o (.fail .cancelled)))) else none
    | .run => none
  -- 430-436: `Manager::create`
  | .creating susp, oc =>
    match oc with
    | .ok =>
      let o : Obj := { id := s.nextId, created := s.now }
      some ({ s with nextId := s.nextId + 1 }.setOp i (.get t (.createSize o)))
    | .err => some (failPermit s i t .backend)
    | .pending =>
      if t.create == .zero then some (failPermit s i t .timeoutCreate)
      else some (s.setOp i (.get t (.creating true)))
    | .deadline =>
      if susp && t.create == .finite then some (failPermit s i t .timeoutCreate) else none
    | .panic => some (failPermit s i t .panicked)
    | .cancel => if susp then some (failPermit s i t .cancelled) else none
    | .run => none
  -- 442: `size += 1`
  | .createSize o, .run =>
    if !s.lockFree i then none else
    some (arrivePostCreate { s with size := s.size + 1 } i t 0 o)
  -- 445-453: post_create hooks
  | .postCreate k o susp, oc =>
    match oc with
    | .ok => some (arrivePostCreate s i t (k + 1) o)
    | .err => some (s.setOp i (.get t (.unreadyLock o (.fail .postCreateHook))))
    | .pending =>
      if s.cfg.postC.getD k false then some (s.setOp i (.get t (.postCreate k o true))) else none
    | .panic => some (s.setOp i (.get t (.unreadyLock o (.fail .panicked))))
    | .cancel =>
      if susp then some (s.setOp i (.get t (.unreadyLock o (.fail .cancelled)))) else none
    | _ => none
  -- 166: `UnreadyObject::drop`: `size -= 1`
  | .unreadyLock o c, .run =>
    if !s.lockFree i then none else
    some ({ s with size := s.size - 1, fault := decFault s.fault s.size 1 }.setOp i
      (.get t (.unreadyDetach o c)))
  -- 167: `Manager::detach`, then the object is destroyed
  | .unreadyDetach o c, .run =>
    let s := s.emit [.detach i o.id, .destroy i o.id]
    match c with
    | .retry => some (s.setOp i (.get t .pop))
    | .fail r => some (s.setOp i (.get t (.dropPermit r)))
  -- 167: `Manager::detach` panics (not while unwinding already - that would abort): the object is
  -- destroyed by the unwinding, which also runs the RAII steps below; the call ends in a panic
  | .unreadyDetach o c, .panic =>
    if c == .fail .panicked then none else
    some ((s.emit [.detach i o.id, .destroy i o.id]).setOp i (.get t (.dropPermit .panicked)))
  -- RAII: the permit goes back
  | .dropPermit r, .run =>
    some ({ s with sem := s.sem.addPermits 1 }.setOp i (.get t (.dropUsers r)))
  -- RAII: `users -= 1`
  | .dropUsers r, .run =>
    some (({ s with users := s.users - 1, fault := decFault s.fault s.users 1 }.setOp i .done).emit
      [.result i r])
  | _, _ => none

/-! ### `Object::drop` → `return_object` -/

def stepRet (s : State) (i : Nat) (pc : RPc) (o : Obj) : Option State :=
  match pc with
  | .users =>
    some ({ s with users := s.users - 1, fault := decFault s.fault s.users 1 }.setOp i (.ret .lock o))
  | .lock =>
    if !s.lockFree i then none else
    if s.size ≤ s.maxSize then
      let o := { o with idleSince := s.now }
      some (({ s with idle := s.idle ++ [o] }.setOp i (.ret .addPermits o)).emit [.returned i o.id])
    else
      -- surplus after a shrink: the object is discarded and its token with it
      some ({ s with size := s.size - 1, fault := decFault s.fault s.size 1,
                     debt := s.debt - 1 }.setOp i (.ret .detach o))
  | .addPermits => some ({ s with sem := s.sem.addPermits 1 }.setOp i .done)
  | .detach => some ((s.setOp i .done).emit [.detach i o.id, .destroy i o.id])

/-! ### `Object::take` → `detach_object` -/

def stepTake (s : State) (i : Nat) (pc : TPc) (o : Obj) (add : Bool) : Option State :=
  match pc with
  | .users =>
    some ({ s with users := s.users - 1, fault := decFault s.fault s.users 1 }.setOp i
      (.take .lock o add))
  | .lock =>
    if !s.lockFree i then none else
    let add := decide (s.size ≤ s.maxSize)
    some ({ s with size := s.size - 1, fault := decFault s.fault s.size 1,
                   debt := if add then s.debt else s.debt - 1 }.setOp i
      (.take (if add then .addPermits else .detach) o add))
  | .addPermits => some ({ s with sem := s.sem.addPermits 1 }.setOp i (.take .detach o add))
  | .detach => some ((s.setOp i .done).emit [.detach i o.id, .taken i o.id])

/-- `Manager::detach` panics inside `Object::take`: the books are already done, the value is
destroyed by the unwinding instead of being handed to the caller -/
def stepTakePanic (s : State) (i : Nat) (o : Obj) : Option State :=
  some ((s.setOp i .done).emit [.detach i o.id, .destroy i o.id, .opPanic i])

/-- `Manager::detach` panics on the surplus path of `return_object`: the books are already
done, the object is destroyed by the unwinding, `drop` ends in a panic -/
def stepRetPanic (s : State) (i : Nat) (o : Obj) : Option State :=
  some ((s.setOp i .done).emit [.detach i o.id, .destroy i o.id, .opPanic i])

/-! ### `resize` / `close` -/

/-- `resize` releases the slots mutex and returns -/
def finishResize (s : State) (i : Nat) (n : Nat) : State :=
  ({ s with lock := none }.setOp i .done).emit [.resized i n]

/-- `Manager::detach` + drop of every object drained by `close()`, front to back -/
def drainEvs (i : Nat) : List Obj → List Ev
  | [] => []
  | o :: rest => .detach i o.id :: .destroy i o.id :: drainEvs i rest

def stepResize (s : State) (i : Nat) (n : Nat) (isClose : Bool) (pc : ZPc) (old : Nat) :
    Option State :=
  match pc with
  | .enter =>
    -- function entry up to the acquisition of the slots mutex: nothing shared is touched
    some (s.setOp i (.resize n isClose .lock old))
  | .lock =>
    match s.lock with
    | some _ => none
    | none =>
      if isClose then
        -- `close()`: one critical section: `Semaphore::close()`, `max_size = 0`, every idle
        -- object released and detached
        some ((({ s with sem := s.sem.close, maxSize := 0, idle := [],
                         size := s.size - s.idle.length,
                         fault := decFault s.fault s.size s.idle.length,
                         debt := s.debt + s.maxSize }).setOp i .done).emit
          (drainEvs i s.idle ++ [Ev.closedEv i]))
      else if s.sem.closed then
        -- `resize` on a closed pool (checked under the mutex): nothing happens
        some ((s.setOp i .done).emit [.resized i n])
      else
        let old := s.maxSize
        let s := { s with maxSize := n, lock := some i, debt := s.debt + (old - n) }
        if n < old then some (s.setOp i (.resize n isClose .shrink old))
        else if n > old then some (s.setOp i (.resize n isClose .grow old))
        else some (finishResize s i n)
  | .shrink =>
    if s.size > s.maxSize then
      match s.sem.tryAcquire with
      | (sem, .ok) =>
        -- permit forgotten; one idle object (if any) released and detached
        match s.idle with
        | o :: rest =>
          some ({ s with sem := sem, idle := rest, size := s.size - 1, debt := s.debt - 1,
                         fault := decFault s.fault s.size 1 }.emit [.detach i o.id, .destroy i o.id])
        | [] => some { s with sem := sem, debt := s.debt - 1 }
      | (_, _) => some (finishResize s i n)
    else some (finishResize s i n)
  | .grow =>
    some (finishResize { s with sem := s.sem.addPermits (n - old) } i n)

/-! ### `retain` -/

/-- the `while` loop of `retain` (`k` = predicate call index): objects kept -/
def retainKept (keep : List Bool) : Nat → List Obj → List Obj
  | _, [] => []
  | k, o :: rest =>
    if keep.getD k true then o :: retainKept keep (k + 1) rest else retainKept keep (k + 1) rest

/-- objects removed (handed to the caller) -/
def retainRemoved (keep : List Bool) : Nat → List Obj → List Obj
  | _, [] => []
  | k, o :: rest =>
    if keep.getD k true then retainRemoved keep (k + 1) rest
    else o :: retainRemoved keep (k + 1) rest

/-- predicate calls and `detach` calls, in order -/
def retainEvs (i : Nat) (keep : List Bool) : Nat → List Obj → List Ev
  | _, [] => []
  | k, o :: rest =>
    if keep.getD k true then .pred i k o true :: retainEvs i keep (k + 1) rest
    else .pred i k o false :: .detach i o.id :: retainEvs i keep (k + 1) rest

def stepRetain (s : State) (i : Nat) (keep : List Bool) : Option State :=
  if !s.lockFree i then none else
  let kept := retainKept keep 0 s.idle
  let removed := retainRemoved keep 0 s.idle
  some (({ s with idle := kept, size := s.size - removed.length,
                  fault := decFault s.fault s.size removed.length }.setOp i .done).emit
    (retainEvs i keep 0 s.idle ++ [Ev.retained i kept.length (removed.map Obj.id)]))

/-! ### `status` -/

/-- what `Pool::status()` computes: `(max_size, size, available, waiting)` -/
def State.status (s : State) : Nat × Nat × Nat × Nat :=
  if s.users < s.size then (s.maxSize, s.size, s.size - s.users, 0)
  else (s.maxSize, s.size, 0, s.users - s.size)

def stepStatus (s : State) (i : Nat) : Option State :=
  if !s.lockFree i then none else
  let st := s.status
  some ((s.setOp i .done).emit [.status i st.1 st.2.1 st.2.2.1 st.2.2.2])

/-! ### the transition function -/

def findOut (out : List Obj) (id : Nat) : Option Obj := out.find? (·.id == id)

def startOp (s : State) (sp : Spec) : Option State :=
  match sp with
  | .get t => some { s with ops := s.ops ++ [.get t .enter] }
  | .ret id =>
    match findOut s.out id with
    | some o => some { s with ops := s.ops ++ [.ret .users o], out := s.out.erase o }
    | none => none
  | .take id =>
    match findOut s.out id with
    | some o =>
      some { s with ops := s.ops ++ [.take .users o false], out := s.out.erase o }
    | none => none
  | .resize n => some { s with ops := s.ops ++ [.resize n false .enter 0] }
  | .close => some { s with ops := s.ops ++ [.resize 0 true .enter 0] }
  | .retain keep => some { s with ops := s.ops ++ [.retain keep] }
  | .status => some { s with ops := s.ops ++ [.status] }

def stepOp (s : State) (i : Nat) (oc : Outcome) : Option State :=
  match s.ops[i]? with
  | none => none
  | some op =>
    match op with
    | .get t pc => stepGet s i t pc oc
    | .ret pc o =>
      if oc == .run then stepRet s i pc o
      else if oc == .panic && pc == .detach then stepRetPanic s i o
      else none
    | .take pc o add =>
      if oc == .run then stepTake s i pc o add
      else if oc == .panic && pc == .detach then stepTakePanic s i o
      else none
    | .resize n c pc old => if oc == .run then stepResize s i n c pc old else none
    | .retain keep => if oc == .run then stepRetain s i keep else none
    | .status => if oc == .run then stepStatus s i else none
    | .done => none

/-- One action; `none` = the action is not enabled in this state. -/
def step (s : State) (a : Action) : Option State :=
  let r := match a with
    | .start sp => startOp s sp
    | .step i oc => stepOp s i oc
  r.map fun s' => { s' with now := s'.now + 1 }

/-- Run a list of actions, skipping those that are not enabled. -/
def run (s : State) (as : List Action) : State :=
  as.foldl (fun s a => (step s a).getD s) s

theorem run_nil (s : State) : run s [] = s := rfl

theorem run_cons (s : State) (a : Action) (as : List Action) :
    run s (a :: as) = run ((step s a).getD s) as := rfl

theorem run_append (s : State) (as bs : List Action) :
    run s (as ++ bs) = run (run s as) bs := by
  simp [run, List.foldl_append]

/-- Run a list of actions; `none` if one of them is not enabled. -/
def run? (s : State) : List Action → Option State
  | [] => some s
  | a :: as => (step s a).bind (run? · as)

/-! ### derived views -/

/-- the object an operation has in hand (alive, neither idle nor in a caller's hands) -/
def Op.held : Op → Option Obj
  | .get _ (.recycling _ o _) => some o
  | .get _ (.createSize o) => some o
  | .get _ (.postCreate _ o _) => some o
  | .get _ (.unreadyLock o _) => some o
  | .get _ (.unreadyDetach o _) => some o
  | .ret .users o | .ret .lock o | .ret .detach o => some o
  | .take _ o _ => some o
  | _ => none

/-- every object that exists and has not been handed over to a caller for good -/
def State.live (s : State) : List Obj := s.idle ++ s.out ++ s.ops.filterMap Op.held

def Spec.isResize : Spec → Bool
  | .resize _ | .close => true
  | _ => false

def Action.isResize : Action → Bool
  | .start sp => sp.isResize
  | _ => false

/-! ### labels (the `verif_point!` names in the source) -/

def Phase.name : Phase → String
  | .pre => "pre_recycle"
  | .recycle => "recycle"
  | .postR => "post_recycle"
  | .postC => "post_create"

def GPc.label (c : Cfg) : GPc → String
  | .enter => "get.enter"
  | .acquire => "get.acquire"
  | .queued => "get.acquire"
  | .pop => "get.pop"
  | .recycling k _ _ =>
    let (ph, j) := c.recyclePhase k
    if ph == .recycle then "recycle" else s!"{ph.name}[{j}]"
  | .creating _ => "create"
  | .createSize _ => "create.size"
  | .postCreate k _ _ => s!"post_create[{k}]"
  | .unreadyLock .. => "unready.lock"
  | .unreadyDetach .. => "unready.detach"
  | .dropPermit _ => "drop.permit"
  | .dropUsers _ => "drop.users"

def GPc.suspended : GPc → Bool
  | .queued => true
  | .recycling _ _ s => s
  | .creating s => s
  | .postCreate _ _ s => s
  | _ => false

def Op.label (c : Cfg) : Op → String
  | .get _ pc => pc.label c
  | .ret .users _ => "ret.users"
  | .ret .lock _ => "ret.lock"
  | .ret .addPermits _ => "ret.add_permits"
  | .ret .detach _ => "ret.detach"
  | .take .users .. => "take.users"
  | .take .lock .. => "take.lock"
  | .take .addPermits .. => "take.add_permits"
  | .take .detach .. => "take.detach"
  | .resize _ false .enter _ => "resize.enter"
  | .resize _ true .enter _ => "close.enter"
  | .resize _ false .lock _ => "resize.lock"
  | .resize _ true .lock _ => "close.lock"
  | .resize _ _ .shrink _ => "resize.shrink"
  | .resize _ _ .grow _ => "resize.grow"
  | .retain _ => "retain"
  | .status => "status"
  | .done => "done"

def Op.suspended : Op → Bool
  | .get _ pc => pc.suspended
  | _ => false

end DeadpoolVerif
