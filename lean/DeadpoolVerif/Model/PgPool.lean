/-
C16 — deadpool-postgres at run time (`/repo/postgres/src/lib.rs`): what `Manager::recycle`
decides, the per-client `StatementCache`, and the manager's `StatementCaches` registry.

Import-free apart from the pool model and the config model (linked into the `dpmodel` driver).
-/
import DeadpoolVerif.Model.Managed
import DeadpoolVerif.Model.PgConfig
import DeadpoolVerif.Model.Solo

namespace DeadpoolVerif
namespace PgP

/-! ### `Manager::recycle` -/

/-- what the server does with the check query -/
inductive QueryReply | ok | error | disconnect
deriving Repr, DecidableEq, Inhabited

/-- `recycle`: a closed client is rejected without sending anything; otherwise the method's
query (if it has one) is sent as a simple query and its failure rejects the client.
Result: (query sent, accepted). -/
def recycle (closed : Bool) (m : Pg.RecyclingMethod) (r : QueryReply) : Option String × Bool :=
  if closed then (none, false) else
  match m.query with
  | none => (none, true)
  | some sql => (some sql, r == .ok)

/-- state of the environment of the sequential driver during one get(): which clients are
closed, the scripted replies still to come, the check queries sent so far (client, sql) -/
structure EnvSt where
  closed : List Nat
  replies : List QueryReply
  queries : List (Nat × String) := []
deriving Inhabited

/-- the environment of the sequential driver: internal steps run, `create` and the hooks
succeed, `Manager::recycle` answers what `recycle` decides; a check query on an open client
consumes the next scripted reply (a missing one means success), a disconnect closes the client -/
def env (m : Pg.RecyclingMethod) : Solo.Env EnvSt := fun e s i =>
  match Solo.atRecycle s i with
  | some o =>
    let closed := e.closed.contains o.id
    let sends := !closed && m.query.isSome
    let r := if sends then e.replies.headD .ok else .ok
    let res := recycle closed m r
    some (if res.2 then .ok else .err,
          { closed := if sends && r == .disconnect then o.id :: e.closed else e.closed,
            replies := if sends then e.replies.tail else e.replies,
            queries := e.queries ++ (match res.1 with | some q => [(o.id, q)] | none => []) })
  | none => (Solo.defaultOutcome (fun _ => true) s i).map fun oc => (oc, e)

/-! ### `StatementCache` -/

/-- cache key: query text and parameter types (type OIDs) -/
structure Key where
  query : String
  types : List Nat
deriving Repr, DecidableEq, Inhabited

/-- a prepared statement: which connection prepared it, for which key, and its number among the
statements prepared on that connection -/
structure Stmt where
  conn : Nat
  key : Key
  serial : Nat
deriving Repr, DecidableEq, Inhabited

structure Cache where
  conn : Nat
  map : List (Key × Stmt) := []
  /-- the separate `AtomicUsize` -/
  size : Nat := 0
deriving Repr, DecidableEq, Inhabited

/-- the map as an association list with at most one entry per key -/
def lookup (k : Key) : List (Key × Stmt) → Option Stmt
  | [] => none
  | e :: rest => if e.1 = k then some e.2 else lookup k rest

def replace (k : Key) (st : Stmt) : List (Key × Stmt) → List (Key × Stmt)
  | [] => []
  | e :: rest => if e.1 = k then (k, st) :: rest else e :: replace k st rest

def erase (k : Key) : List (Key × Stmt) → List (Key × Stmt)
  | [] => []
  | e :: rest => if e.1 = k then rest else e :: erase k rest

def Cache.get (c : Cache) (k : Key) : Option Stmt := lookup k c.map

/-- `insert`: `size += 1` only when the key was absent -/
def Cache.insert (c : Cache) (k : Key) (st : Stmt) : Cache :=
  if (c.get k).isSome then { c with map := replace k st c.map }
  else { c with map := c.map ++ [(k, st)], size := c.size + 1 }

/-- `remove`: `size -= 1` only when the key was present -/
def Cache.remove (c : Cache) (k : Key) : Cache :=
  if (c.get k).isSome then { c with map := erase k c.map, size := c.size - 1 } else c

def Cache.clear (c : Cache) : Cache := { c with map := [], size := 0 }

/-- the atomic accesses to one cache; a `prepare_typed` is a `get` (read only) followed — after
the round trip to the server, during which anything else may happen — by an `insert` -/
inductive COp
  | insert (k : Key) (serial : Nat)
  | remove (k : Key)
  | clear
deriving Repr, DecidableEq, Inhabited

def Cache.apply (c : Cache) : COp → Cache
  | .insert k n => c.insert k { conn := c.conn, key := k, serial := n }
  | .remove k => c.remove k
  | .clear => c.clear

/-- `prepare_typed` run without interference: a hit returns the cached statement and costs no
round trip; a miss prepares on the server (statement number `next`) and caches it.
Result: (cache, statement, round trips to the server). -/
def Cache.prepareTyped (c : Cache) (next : Nat) (k : Key) : Cache × Stmt × Nat :=
  match c.get k with
  | some st => (c, st, 0)
  | none =>
    let st : Stmt := { conn := c.conn, key := k, serial := next }
    (c.insert k st, st, 1)

/-! ### the registry -/

/-- `StatementCaches`: a cache is attached inside `create` (the moment the id is allocated) and
detached by `Manager::detach`: registered = allocated and never detached -/
def registered (s : State) (id : Nat) : Bool :=
  decide (id < s.nextId) && !s.log.any fun | .detach _ j => j == id | _ => false

end PgP
end DeadpoolVerif
