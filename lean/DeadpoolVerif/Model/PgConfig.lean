/-
Model of `deadpool_postgres::Config::get_pg_config` (`/repo/postgres/src/config.rs`) and of
`RecyclingMethod::query`.

Strings are opaque tokens (the harness sends them hex-encoded and never needs them decoded);
only emptiness and the first byte (a host that starts with `/` is a Unix socket directory)
matter.  `base` is whatever `tokio_postgres::Config::from_str(url)` returned, read back
through the getters of `tokio_postgres::Config` (or `Config::new()` when no url is given):
URL parsing itself is tokio-postgres' and is a parameter here.

Import-free on purpose (linked into the `dpmodel` driver).
-/
namespace DeadpoolVerif
namespace Pg

/-- a host as `tokio_postgres::config::Host`: hex token and whether it is a Unix path -/
structure Host where
  unix : Bool
  name : String
deriving Repr, DecidableEq, Inhabited

/-- mirror of the getters of `tokio_postgres::Config` -/
structure PgCfg where
  user : Option String := none
  password : Option String := none
  dbname : Option String := none
  options : Option String := none
  appName : Option String := none
  sslMode : String := "prefer"
  hosts : List Host := []
  hostaddrs : List String := []
  ports : List Nat := []
  connectTimeout : Option Nat := none
  keepalives : Bool := true
  keepalivesIdle : Nat := 0
  targetSessionAttrs : String := "any"
  channelBinding : String := "prefer"
  loadBalanceHosts : String := "disable"
deriving Repr, DecidableEq, Inhabited

/-- mirror of `deadpool_postgres::Config` (without `manager` / `pool`) -/
structure Config where
  /-- a url was given -/
  url : Bool := false
  user : Option String := none
  password : Option String := none
  dbname : Option String := none
  options : Option String := none
  appName : Option String := none
  sslMode : Option String := none
  host : Option String := none
  hosts : Option (List String) := none
  hostaddr : Option String := none
  hostaddrs : Option (List String) := none
  port : Option Nat := none
  ports : Option (List Nat) := none
  connectTimeout : Option Nat := none
  keepalives : Option Bool := none
  keepalivesIdle : Option Nat := none
  targetSessionAttrs : Option String := none
  channelBinding : Option String := none
  loadBalanceHosts : Option String := none
deriving Repr, DecidableEq, Inhabited

inductive ConfigError | invalidUrl | dbnameMissing | dbnameEmpty
deriving Repr, DecidableEq, Inhabited

/-- `Config::host(h)`: a name starting with `/` (hex `2f`) is a Unix socket directory -/
def mkHost (h : String) : Host := { unix := h.startsWith "2f", name := h }

/-- hex of "/run/postgresql", "/var/run/postgresql", "/tmp" -/
def defaultHosts : List Host :=
  [ { unix := true, name := "2f72756e2f706f737467726573716c" },
    { unix := true, name := "2f7661722f72756e2f706f737467726573716c" },
    { unix := true, name := "2f746d70" } ]

def nonEmpty (s : Option String) : Option String := s.filter (· ≠ "")

def setIf {α : Type} (o : Option α) (cur : α) : α := o.getD cur

/-- "if the field is set use it, else keep what the url said" for optional values -/
def orE {α : Type} (a b : Option α) : Option α :=
  match a with
  | some x => some x
  | none => b

/-- the user name in effect: the field (unless empty), else the url's (unless empty), else
`$USER` if it is set (even if empty), else whatever the url said -/
def effUser (field urlUser envUser : Option String) : Option String :=
  let u1 := orE (nonEmpty field) urlUser
  match nonEmpty u1 with
  | some _ => u1
  | none => orE envUser u1

/-- `hosts`: the url's, then the singular field, then the plural field; the platform's default
socket directories only when that is empty -/
def effHosts (b : List Host) (host : Option String) (hosts : Option (List String)) : List Host :=
  let given := b ++ (host.toList.map mkHost) ++ ((hosts.getD []).map mkHost)
  if given.isEmpty then defaultHosts else given

/-- `get_pg_config()`.  `base = none`: the url did not parse. -/
def getPgConfig (base : Option PgCfg) (envUser : Option String) (c : Config) :
    Except ConfigError PgCfg :=
  match base with
  | none => .error .invalidUrl
  | some b =>
    match orE (nonEmpty c.dbname) b.dbname with
    | none => .error .dbnameMissing
    | some d =>
      if d = "" then .error .dbnameEmpty else
      .ok { user := effUser c.user b.user envUser
            password := orE c.password b.password
            dbname := some d
            options := orE c.options b.options
            appName := orE c.appName b.appName
            sslMode := setIf c.sslMode b.sslMode
            hosts := effHosts b.hosts c.host c.hosts
            hostaddrs := b.hostaddrs ++ c.hostaddr.toList ++ c.hostaddrs.getD []
            ports := b.ports ++ c.port.toList ++ c.ports.getD []
            connectTimeout := orE c.connectTimeout b.connectTimeout
            keepalives := setIf c.keepalives b.keepalives
            keepalivesIdle := setIf c.keepalivesIdle b.keepalivesIdle
            targetSessionAttrs := setIf c.targetSessionAttrs b.targetSessionAttrs
            channelBinding := setIf c.channelBinding b.channelBinding
            loadBalanceHosts := setIf c.loadBalanceHosts b.loadBalanceHosts }

/-- `RecyclingMethod` and the check each method issues when a client is recycled -/
inductive RecyclingMethod
  | fast | verified | clean | custom (sql : String)
deriving Repr, DecidableEq, Inhabited

def discardSql : String :=
  "CLOSE ALL; SET SESSION AUTHORIZATION DEFAULT; RESET ALL; UNLISTEN *; SELECT pg_advisory_unlock_all(); DISCARD TEMP; DISCARD SEQUENCES;"

/-- `RecyclingMethod::query` -/
def RecyclingMethod.query : RecyclingMethod → Option String
  | .fast => none
  | .verified => some ""
  | .clean => some discardSql
  | .custom s => some s

end Pg
end DeadpoolVerif
