/-
C15 — the pools built on `SyncWrapper` (`deadpool-sqlite`, `deadpool-r2d2`, `deadpool-diesel`).

Each of them is the managed pool of `Model/Managed.lean` with a `Manager` whose `recycle`
inspects the connection.  This file models what those three `recycle` functions decide
(`/repo/sqlite/src/lib.rs`, `/repo/r2d2/src/manager.rs`, `/repo/diesel/src/manager.rs`), says
what it means for the environment of the pool model to answer `Manager::recycle` the way such
a manager does (`Honest`), and gives the sequential driver used by the correspondence check.

Import-free apart from the pool model (linked into the `dpmodel` driver).
-/
import DeadpoolVerif.Model.Managed
import DeadpoolVerif.Model.Solo

namespace DeadpoolVerif
namespace SP

inductive Kind | sqlite | r2d2 | diesel
deriving Repr, DecidableEq, Inhabited

/-- what is wrong with a connection -/
structure Conn where
  /-- a closure panicked on it: the wrapper's mutex is poisoned -/
  poisoned : Bool := false
  /-- r2d2: `has_broken`; diesel: the transaction manager is broken -/
  broken : Bool := false
  /-- r2d2: `is_valid` fails; diesel / sqlite: the check query fails -/
  invalid : Bool := false
deriving Repr, DecidableEq, Inhabited

def Conn.spoiled (c : Conn) : Bool := c.poisoned || c.broken || c.invalid

/-- backend calls `recycle` makes on the blocking thread, in order -/
inductive Check | hasBroken | isValid | txBroken | ping | roundTrip
deriving Repr, DecidableEq, Inhabited

/-- `RecyclingMethod` of deadpool-diesel (`fast`: no query) -/
inductive DieselMethod | fast | verified
deriving Repr, DecidableEq, Inhabited

/-- which checks `Manager::recycle` performs: none on a poisoned wrapper (it is rejected before
anything is sent to the blocking pool); r2d2 asks `is_valid` only if `has_broken` said no; diesel
looks at the transaction manager first and pings only with `Verified` -/
def checks (k : Kind) (m : DieselMethod) (c : Conn) : List Check :=
  if c.poisoned then [] else
  match k with
  | .sqlite => [.roundTrip]
  | .r2d2 => if c.broken then [.hasBroken] else [.hasBroken, .isValid]
  | .diesel =>
    if c.broken then [.txBroken] else
    match m with
    | .fast => [.txBroken]
    | .verified => [.txBroken, .ping]

/-- does a check pass on this connection -/
def Check.passes (c : Conn) : Check → Bool
  | .hasBroken | .txBroken => !c.broken
  | .isValid | .ping | .roundTrip => !c.invalid

/-- `Manager::recycle`: `Ok` iff the wrapper is not poisoned and every check it performs passes -/
def recycleOk (k : Kind) (m : DieselMethod) (c : Conn) : Bool :=
  !c.poisoned && (checks k m c).all (Check.passes c)

/-! ### an environment that answers `Manager::recycle` like these managers -/

/-- `spoiled id n`: connection `id` was spoiled by the end of its `n`-th hand-out -/
abbrev Spoiled := Nat → Nat → Bool

/-- the answer `ok` to the `Manager::recycle` callback (index `pre.length` of the recycle
sequence) is allowed only for a connection that is not spoiled -/
def okAllowed (sp : Spoiled) (s : State) : Action → Bool
  | .step i .ok =>
    match s.ops[i]? with
    | some (.get _ (.recycling k o _)) => if k = s.cfg.pre.length then !sp o.id o.handouts else true
    | _ => true
  | _ => true

/-- every action of the history respects `okAllowed` in the state it is taken in -/
def Honest (sp : Spoiled) : State → List Action → Prop
  | _, [] => True
  | s, a :: as => okAllowed sp s a = true ∧ Honest sp ((step s a).getD s) as

instance Honest.dec (sp : Spoiled) : ∀ (s : State) (acts : List Action), Decidable (Honest sp s acts)
  | _, [] => isTrue trivial
  | s, a :: as =>
    have := Honest.dec sp ((step s a).getD s) as
    show Decidable (okAllowed sp s a = true ∧ Honest sp ((step s a).getD s) as) from inferInstance

/-! ### sequential driver (correspondence check) -/

/-- the environment of the sequential driver: internal steps run, `create` and all hooks
succeed, `Manager::recycle` answers with the manager's verdict on the connection (no state of
its own) -/
def env (verdict : Obj → Bool) : Solo.Env Unit :=
  fun _ s i => (Solo.defaultOutcome verdict s i).map fun oc => (oc, ())

/-- start an operation and run it to the end -/
def solo (verdict : Obj → Bool) (s : State) (sp : Spec) (fuel : Nat := 200) : Option (State × Nat) :=
  (Solo.soloOp (env verdict) () s sp fuel).map fun r => (r.2.1, r.2.2)

end SP
end DeadpoolVerif
