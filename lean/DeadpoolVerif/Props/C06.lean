/-
C06 — close() is prompt, final and leaves nothing behind.

Most of the property holds of the pinned code and is proved here.  Two clauses do not hold
in rare interleavings (genuine defects, recorded as known findings, see known_findings.txt /
DESIGN.md): (1) "a closed pool keeps no idle objects": an object whose return overlaps
close() can stay in the queue (`C06_witness_idle_retained`, replayed on the real code:
corpus/C06/close_window_retains_idle.trace); (2) "status() reports max_size 0": a resize()
that passed its closed-check before close() ran can set max_size afterwards
(`C06_witness_max_size`).  The provable part is named `…_partial`.

Property theorems only; helper lemmas live in `Lemmas/`.
-/
import DeadpoolVerif.Lemmas.Reach
import DeadpoolVerif.Lemmas.Frame

namespace DeadpoolVerif

/-- the closed flag is never reset: `is_closed()` stays true -/
theorem step_closed_mono {s s' : State} {a : Action} (l : Link s) (h : step s a = some s')
    (hc : s.sem.closed = true) : s'.sem.closed = true := by
  -- every transition lemma of `Link` carries closedness forward; redo it directly
  unfold step at h
  cases a with
  | start sp =>
    simp only [Option.map_eq_some_iff] at h
    obtain ⟨s1, h1, rfl⟩ := h
    cases sp
    all_goals simp only [startOp] at h1
    all_goals repeat' split at h1
    all_goals first | (simp at h1; done) | skip
    all_goals (simp only [Option.some.injEq] at h1; subst h1; exact hc)
  | step i oc =>
    simp only [Option.map_eq_some_iff] at h
    obtain ⟨s1, h1, rfl⟩ := h
    show s1.sem.closed = true
    unfold stepOp at h1
    split at h1
    · simp at h1
    · rename_i op hop
      cases op with
      | get t pc =>
        simp only at h1
        unfold stepGet at h1
        simp only [arriveRecycle, arrivePostCreate, handOut, failPermit] at h1
        repeat' split at h1
        all_goals first | (simp at h1; done) | skip
        all_goals (simp only [Option.some.injEq] at h1; subst h1)
        all_goals try (have t1 := (l.wf.tryAcquire ‹Sem.tryAcquire _ = _›).2.2)
        all_goals try (have t2 := (l.wf.pollAcquire ‹Sem.pollAcquire _ _ = _›).2.2.1)
        all_goals first
          | exact hc
          | exact t1.trans hc
          | exact t2.trans hc
          | exact ((l.wf.dropAcquire _).2.2).trans hc
          | exact (((l.wf.pollAcquire ‹Sem.pollAcquire _ _ = _›).1.dropAcquire _).2.2).trans (t2.trans hc)
      | ret pc o =>
        simp only at h1
        split at h1
        · cases pc
          all_goals simp only [stepRet] at h1
          all_goals repeat' split at h1
          all_goals first | (simp at h1; done) | skip
          all_goals (simp only [Option.some.injEq] at h1; subst h1; exact hc)
        · simp at h1
      | take pc o add =>
        simp only at h1
        split at h1
        · cases pc
          all_goals simp only [stepTake] at h1
          all_goals repeat' split at h1
          all_goals first | (simp at h1; done) | skip
          all_goals (simp only [Option.some.injEq] at h1; subst h1; exact hc)
        · simp at h1
      | resize n c pc old =>
        simp only at h1
        split at h1
        · cases pc
          all_goals simp only [stepResize, finishResize, returnResize] at h1
          all_goals repeat' split at h1
          all_goals first | (simp at h1; done) | skip
          all_goals (simp only [Option.some.injEq] at h1; subst h1)
          all_goals try (have t1 := (l.wf.tryAcquire ‹Sem.tryAcquire _ = _›).2.2)
          all_goals first
            | exact hc
            | rfl
            | exact t1.trans hc
        · simp at h1
      | retain keep =>
        simp only at h1
        split at h1
        · unfold stepRetain at h1
          split at h1
          · simp at h1
          · simp only [Option.some.injEq] at h1; subst h1; exact hc
        · simp at h1
      | status =>
        simp only at h1
        split at h1
        · unfold stepStatus at h1
          split at h1
          · simp at h1
          · simp only [Option.some.injEq] at h1; subst h1; exact hc
        · simp at h1
      | done => simp at h1

/-- **C06 (closed forever).** Once the semaphore is closed it stays closed along every
continuation: `is_closed()` stays true. -/
theorem C06_closed_forever (cfg : Cfg) (acts more : List Action)
    (hc : (run (init cfg) acts).sem.closed = true) :
    (run (init cfg) (acts ++ more)).sem.closed = true := by
  rw [run_append]
  have r := reach_run cfg acts
  generalize run (init cfg) acts = s at *
  induction more generalizing s with
  | nil => exact hc
  | cons a more ih =>
    rw [run_cons]
    cases hst : step s a with
    | none => exact ih s hc r
    | some s1 => exact ih s1 (step_closed_mono r.link hst hc) (r.step hst)

/-- **C06 (every get fails with Closed).** On a closed pool the acquisition step of a get —
blocking, with a wait timeout, or non-blocking; fresh or already waiting; on re-poll or when
its deadline fires — ends in `Closed` (or in `NoRuntimeSpecified` for a finite wait timeout
without runtime, which is decided before the semaphore is touched) and never obtains a
slot, hence never yields an object. -/
theorem C06_get_after_close_fails (s s' : State) (i : Nat) (t : Timeouts) (pc : GPc) (oc : Outcome)
    (hc : s.sem.closed = true) (hpc : pc = .acquire ∨ pc = .queued)
    (hoc : oc = .run ∨ oc = .deadline) (h : stepGet s i t pc oc = some s') :
    s'.ops = s.ops.set i (.get t (.dropUsers .closed)) ∨
    s'.ops = s.ops.set i (.get t (.dropUsers .noRuntime)) := by
  have hp : ∀ sem r, s.sem.pollAcquire i = (sem, r) → r = .closed := by
    intro sem r hp
    unfold Sem.pollAcquire at hp
    simp only [hc, if_true] at hp
    split at hp <;> (simp only [Prod.mk.injEq] at hp; exact hp.2.symm)
  have ht : ∀ sem r, s.sem.tryAcquire = (sem, r) → r = .closed := by
    intro sem r hp
    unfold Sem.tryAcquire at hp
    simp only [hc, if_true, Prod.mk.injEq] at hp
    exact hp.2.symm
  rcases hpc with rfl | rfl <;> rcases hoc with rfl | rfl <;> simp only [stepGet] at h
  all_goals repeat' split at h
  all_goals first | (simp at h; done) | skip
  all_goals (simp only [Option.some.injEq] at h; subst h)
  all_goals try (have q := hp _ _ ‹Sem.pollAcquire _ _ = _›)
  all_goals try (have q := ht _ _ ‹Sem.tryAcquire _ = _›)
  all_goals first
    | (exact Or.inl rfl)
    | (exact Or.inr rfl)
    | (exact absurd q (by simp))

/-- close() wakes every caller waiting for a slot: the queue is empty afterwards (each of
them completes with `Closed` at its next poll, `C02_woken_completes`) -/
theorem C06_close_wakes_all (s s' : State) (i n old : Nat)
    (h : stepResize s i n true .closeSem old = some s') :
    s'.sem.closed = true ∧ s'.sem.queue = [] := by
  simp only [stepResize, Option.some.injEq] at h
  subst h
  exact ⟨rfl, rfl⟩

/-- **C06 (resize has no effect on a closed pool).** -/
theorem C06_resize_noop_after_close (s s' : State) (i n : Nat)
    (hc : s.sem.closed = true) (h : stepResize s i n false .check 0 = some s') :
    s' = (s.setOp i .done).emit [.resized i n] := by
  simp only [stepResize, hc, if_true, returnResize, Bool.false_eq_true, if_false,
    Option.some.injEq] at h
  exact h.symm

/-- **C06 (objects returned to a closed pool are discarded).** After close() has set
`max_size = 0`, an object coming back takes the discard branch of `return_object`: it is
detached and destroyed, never queued. -/
theorem C06_return_after_close_discards (s s' : State) (i : Nat) (o : Obj)
    (hm : s.maxSize = 0) (hs : 0 < s.size) (hl : s.lockFree i = true)
    (h : stepRet s i .lock o = some s') :
    s'.idle = s.idle ∧ s'.ops = s.ops.set i (.ret .detach o) := by
  have : ¬ s.size ≤ s.maxSize := by omega
  simp only [stepRet, hl, Bool.not_true, Bool.false_eq_true, if_false, this, Option.some.injEq] at h
  subst h
  exact ⟨rfl, rfl⟩

/-- **C06 (no idle objects, partial).** When a closed pool is at rest and its shrink
collected everything (`debt = 0`, `max_size = 0`), it holds no idle object and no object
at all besides those still in callers' hands.  (Without `debt = 0` see
`C06_witness_idle_retained`.) -/
theorem C06_no_idle_after_close_partial (cfg : Cfg) (acts : List Action)
    (hd : ∀ op ∈ (run (init cfg) acts).ops, op = Op.done)
    (hm : (run (init cfg) acts).maxSize = 0) (hdebt : (run (init cfg) acts).debt = 0) :
    (run (init cfg) acts).idle = [] ∧ (run (init cfg) acts).out = [] := by
  have a := run_acct cfg acts
  generalize run (init cfg) acts = s at *
  have p0 : sumW Op.permW s.ops = 0 := sumW_zero _ _ (fun x hx => by rw [hd x hx]; rfl)
  have o0 : sumW Op.objW s.ops = 0 := sumW_zero _ _ (fun x hx => by rw [hd x hx]; rfl)
  have t := a.tok
  have c := a.cov
  rw [hm, hdebt, p0] at t
  rw [p0, o0] at c
  constructor
  · apply List.eq_nil_of_length_eq_zero; omega
  · apply List.eq_nil_of_length_eq_zero; omega

/-- the interleaving in which a closed pool keeps an idle object: the return of object 0
has pushed it back but not yet released its permit when close()'s shrink looks for one -/
def C06_trace_idle : List Action :=
  [ .start (.get {}), .step 0 .run, .step 0 .run, .step 0 .run, .step 0 .ok, .step 0 .run,
    .start (.ret 0), .step 1 .run, .step 1 .run,
    .start .close, .step 2 .run, .step 2 .run, .step 2 .run,
    .step 1 .run, .step 2 .run ]

theorem C06_witness_idle_retained :
    let s := run (init { maxSize := 1 }) C06_trace_idle
    (run? (init { maxSize := 1 }) C06_trace_idle).isSome = true ∧
    s.sem.closed = true ∧ (∀ op ∈ s.ops, op = Op.done) ∧ s.idle.length = 1 ∧ s.debt = 1 := by
  refine ⟨by decide, by decide, by decide, by decide, by decide⟩

/-- a resize() that passed its closed-check before close() ran sets `max_size` afterwards -/
def C06_trace_max : List Action :=
  [ .start (.resize 3), .step 0 .run,
    .start .close, .step 1 .run, .step 1 .run, .step 1 .run, .step 1 .run,
    .step 0 .run, .step 0 .run ]

theorem C06_witness_max_size :
    let s := run (init { maxSize := 1 }) C06_trace_max
    (run? (init { maxSize := 1 }) C06_trace_max).isSome = true ∧
    s.sem.closed = true ∧ (∀ op ∈ s.ops, op = Op.done) ∧ s.maxSize = 3 := by
  refine ⟨by decide, by decide, by decide, by decide⟩

end DeadpoolVerif
