/-
C06 — close() is prompt, final and leaves nothing behind.

The whole property is proved of the current code.  Two clauses did not hold of the pinned
code in rare interleavings (genuine defects, repaired in /repo, see known_findings.txt /
DESIGN.md §11.2): (1) "a closed pool keeps no idle objects": an object whose return
overlapped close() could stay in the queue; (2) "status() reports max_size 0": a resize()
that passed its closed-check before close() ran could set max_size afterwards.  The
schedules that exhibited them are kept as `C06_regression_idle` / `C06_regression_max`.

Property theorems only; helper lemmas live in `Lemmas/`.
-/
import DeadpoolVerif.Lemmas.Closed
import DeadpoolVerif.Lemmas.NoSlot
import DeadpoolVerif.Lemmas.Frame

namespace DeadpoolVerif

/-- the closed flag is never reset: `is_closed()` stays true -/
theorem step_closed_mono {s s' : State} {a : Action} (l : Link s) (h : step s a = some s')
    (hc : s.sem.closed = true) : s'.sem.closed = true := by
  -- every transition lemma of `Link` carries closedness forward; redo it directly
  unfold step at h
  cases a with
  | start sp =>
    simp only [Option.map_eq_some_iff] at h
    obtain ⟨s1, h1, rfl⟩ := h
    cases sp
    all_goals simp only [startOp] at h1
    all_goals repeat' split at h1
    all_goals first | (simp at h1; done) | skip
    all_goals (simp only [Option.some.injEq] at h1; subst h1; exact hc)
  | step i oc =>
    simp only [Option.map_eq_some_iff] at h
    obtain ⟨s1, h1, rfl⟩ := h
    show s1.sem.closed = true
    unfold stepOp at h1
    split at h1
    · simp at h1
    · rename_i op hop
      cases op with
      | get t pc =>
        simp only at h1
        unfold stepGet at h1
        simp only [arriveRecycle, arrivePostCreate, handOut, failPermit] at h1
        repeat' split at h1
        all_goals first | (simp at h1; done) | skip
        all_goals (simp only [Option.some.injEq] at h1; subst h1)
        all_goals try (have t1 := (l.wf.tryAcquire ‹Sem.tryAcquire _ = _›).2.2)
        all_goals try (have t2 := (l.wf.pollAcquire ‹Sem.pollAcquire _ _ = _›).2.2.1)
        all_goals first
          | exact hc
          | exact t1.trans hc
          | exact t2.trans hc
          | exact ((l.wf.dropAcquire _).2.2).trans hc
          | exact (((l.wf.pollAcquire ‹Sem.pollAcquire _ _ = _›).1.dropAcquire _).2.2).trans (t2.trans hc)
      | ret pc o =>
        simp only at h1
        split at h1
        · cases pc
          all_goals simp only [stepRet] at h1
          all_goals repeat' split at h1
          all_goals first | (simp at h1; done) | skip
          all_goals (simp only [Option.some.injEq] at h1; subst h1; exact hc)
        · split at h1
          · simp only [stepRetPanic, Option.some.injEq] at h1; subst h1; exact hc
          · simp at h1
      | take pc o add =>
        simp only at h1
        split at h1
        · cases pc
          all_goals simp only [stepTake] at h1
          all_goals repeat' split at h1
          all_goals first | (simp at h1; done) | skip
          all_goals (simp only [Option.some.injEq] at h1; subst h1; exact hc)
        · split at h1
          · simp only [stepTakePanic, Option.some.injEq] at h1; subst h1; exact hc
          · simp at h1
      | resize n c pc old =>
        simp only at h1
        split at h1
        · cases pc
          all_goals simp only [stepResize, finishResize] at h1
          all_goals repeat' split at h1
          all_goals first | (simp at h1; done) | skip
          all_goals (simp only [Option.some.injEq] at h1; subst h1)
          all_goals try (have t1 := (l.wf.tryAcquire ‹Sem.tryAcquire _ = _›).2.2)
          all_goals first
            | exact hc
            | rfl
            | exact t1.trans hc
        · simp at h1
      | retain keep =>
        simp only at h1
        split at h1
        · unfold stepRetain at h1
          split at h1
          · simp at h1
          · simp only [Option.some.injEq] at h1; subst h1; exact hc
        · simp at h1
      | status =>
        simp only at h1
        split at h1
        · unfold stepStatus at h1
          split at h1
          · simp at h1
          · simp only [Option.some.injEq] at h1; subst h1; exact hc
        · simp at h1
      | done => simp at h1

/-- **C06 (closed forever).** Once the semaphore is closed it stays closed along every
continuation: `is_closed()` stays true. -/
theorem C06_closed_forever (cfg : Cfg) (acts more : List Action)
    (hc : (run (init cfg) acts).sem.closed = true) :
    (run (init cfg) (acts ++ more)).sem.closed = true := by
  rw [run_append]
  have r := reach_run cfg acts
  generalize run (init cfg) acts = s at *
  induction more generalizing s with
  | nil => exact hc
  | cons a more ih =>
    rw [run_cons]
    cases hst : step s a with
    | none => exact ih s hc r
    | some s1 => exact ih s1 (step_closed_mono r.link hst hc) (r.step hst)

/-- **C06 (every get fails with Closed).** On a closed pool the acquisition step of a get —
blocking, with a wait timeout, or non-blocking; fresh or already waiting; on re-poll or when
its deadline fires — ends in `Closed` (or in `NoRuntimeSpecified` for a finite wait timeout
without runtime, which is decided before the semaphore is touched) and never obtains a
slot, hence never yields an object. -/
theorem C06_get_after_close_fails (s s' : State) (i : Nat) (t : Timeouts) (pc : GPc) (oc : Outcome)
    (hc : s.sem.closed = true) (hpc : pc = .acquire ∨ pc = .queued)
    (hoc : oc = .run ∨ oc = .deadline) (h : stepGet s i t pc oc = some s') :
    s'.ops = s.ops.set i (.get t (.dropUsers .closed)) ∨
    s'.ops = s.ops.set i (.get t (.dropUsers .noRuntime)) := by
  have hp : ∀ sem r, s.sem.pollAcquire i = (sem, r) → r = .closed := by
    intro sem r hp
    unfold Sem.pollAcquire at hp
    simp only [hc, if_true] at hp
    split at hp <;> (simp only [Prod.mk.injEq] at hp; exact hp.2.symm)
  have ht : ∀ sem r, s.sem.tryAcquire = (sem, r) → r = .closed := by
    intro sem r hp
    unfold Sem.tryAcquire at hp
    simp only [hc, if_true, Prod.mk.injEq] at hp
    exact hp.2.symm
  rcases hpc with rfl | rfl <;> rcases hoc with rfl | rfl <;> simp only [stepGet] at h
  all_goals repeat' split at h
  all_goals first | (simp at h; done) | skip
  all_goals (simp only [Option.some.injEq] at h; subst h)
  all_goals try (have q := hp _ _ ‹Sem.pollAcquire _ _ = _›)
  all_goals try (have q := ht _ _ ‹Sem.tryAcquire _ = _›)
  all_goals first
    | (exact Or.inl rfl)
    | (exact Or.inr rfl)
    | (exact absurd q (by simp))

/-- **C06 (never yields an object, along every continuation).** Take any history after
which the pool is closed and any operation `i` that at that point is not a get() owning a
capacity token — a get() still waiting for a slot or not yet at the semaphore, any other
kind of operation, or an operation that has not even started (every later get()).  Then in
*every* continuation, however long and however scheduled, operation `i` is never handed an
object: no `handout i o` event is ever added to the log. -/
theorem C06_no_object_after_close (cfg : Cfg) (acts more : List Action) (i : Nat)
    (hc : (run (init cfg) acts).sem.closed = true)
    (hi : ∀ op, (run (init cfg) acts).ops[i]? = some op → op.noSlot = true) (o : Obj)
    (h : Ev.handout i o ∈ (run (init cfg) (acts ++ more)).log) :
    Ev.handout i o ∈ (run (init cfg) acts).log := by
  rw [run_append] at h
  have r := reach_run cfg acts
  have k : NoSlotAt i (run (init cfg) acts) := ⟨hc, hi⟩
  generalize run (init cfg) acts = s at *
  induction more generalizing s with
  | nil => exact h
  | cons a more ih =>
    rw [run_cons] at h
    cases hst : step s a with
    | none => rw [hst] at h; exact ih s hc hi h r k
    | some s1 =>
      rw [hst] at h
      have hc1 := step_closed_mono r.link hst k.closed
      obtain ⟨k1, hev⟩ := k.step hc1 hst
      exact hev o (ih s1 hc1 k1.noSlot h (r.step hst) k1)

/-- the premises of `C06_no_object_after_close` are met by a caller that was waiting for a
slot when close() ran, and by one that arrives later; both end with `Closed` -/
def C06_trace_waiter : List Action :=
  [ .start (.get {}), .step 0 .run, .step 0 .run, .step 0 .run, .step 0 .ok, .step 0 .run,
    .start (.get {}), .step 1 .run, .step 1 .run,
    .start .close, .step 2 .run, .step 2 .run ]

example :
    let s := run (init { maxSize := 1 }) C06_trace_waiter
    (run? (init { maxSize := 1 }) C06_trace_waiter).isSome = true ∧ s.sem.closed = true ∧
    s.ops[1]? = some (.get {} .queued) ∧ (Op.get {} GPc.queued).noSlot = true ∧ s.ops[3]? = none ∧
    Ev.result 1 .closed ∈ (run s [.step 1 .run, .step 1 .run]).log ∧
    Ev.result 3 .closed ∈
      (run s [.start (.get {}), .step 3 .run, .step 3 .run, .step 3 .run]).log := by
  refine ⟨by decide, by decide, by decide, by decide, by decide, by decide, by decide⟩

/-- **C06 (close is one step).** close() runs as one critical section: it closes the
semaphore — which wakes every caller waiting for a slot: the queue is empty afterwards and
each of them completes with `Closed` at its next poll (`C02_woken_completes`) —, sets
`max_size` to 0 and releases and detaches every idle object, front to back. -/
theorem C06_close_effect (s s' : State) (i n old : Nat)
    (h : stepResize s i n true .lock old = some s') :
    s'.sem.closed = true ∧ s'.sem.queue = [] ∧ s'.maxSize = 0 ∧ s'.idle = [] ∧
    s'.size = s.size - s.idle.length ∧ s'.lock = none ∧
    s'.log = s.log ++ (drainEvs i s.idle ++ [.closedEv i]) ∧ s'.ops = s.ops.set i .done := by
  simp only [stepResize] at h
  split at h
  · simp at h
  · rename_i hl
    simp only [if_true, Option.some.injEq] at h
    subst h
    exact ⟨rfl, rfl, rfl, rfl, rfl, hl, rfl, rfl⟩

/-- every drained object is detached and then destroyed, in queue order -/
theorem C06_drain_events (i : Nat) (l : List Obj) :
    drainEvs i l = l.flatMap (fun o => [.detach i o.id, .destroy i o.id]) := by
  induction l with
  | nil => rfl
  | cons o rest ih => simp [drainEvs, ih]

/-- **C06 (resize has no effect on a closed pool).**  The check is made under the mutex
that close() holds throughout, so there is no window between check and effect. -/
theorem C06_resize_noop_after_close (s s' : State) (i n : Nat)
    (hc : s.sem.closed = true) (h : stepResize s i n false .lock 0 = some s') :
    s' = (s.setOp i .done).emit [.resized i n] := by
  simp only [stepResize] at h
  split at h
  · simp at h
  · simp only [Bool.false_eq_true, if_false, hc, if_true, Option.some.injEq] at h
    exact h.symm

/-- **C06 (a closed pool keeps nothing, in every reachable state).** Whenever the pool is
closed — at rest or with any number of operations in progress, after any history —
`max_size` is 0 (so `status()` reports 0), the idle queue is empty, and nobody is inside
the critical section of `resize`. -/
theorem C06_closed_pool_keeps_nothing (cfg : Cfg) (acts : List Action)
    (hc : (run (init cfg) acts).sem.closed = true) :
    (run (init cfg) acts).maxSize = 0 ∧ (run (init cfg) acts).idle = [] ∧
    (run (init cfg) acts).status.1 = 0 ∧ (run (init cfg) acts).lock = none := by
  have k := run_closedInv cfg acts
  refine ⟨k.max hc, k.idle hc, ?_, k.nolock hc⟩
  unfold State.status
  split <;> exact k.max hc

/-- **C06 (objects returned to a closed pool are discarded).** In every reachable state of
a closed pool an object coming back takes the discard branch of `return_object`: it is
detached and destroyed, never queued. -/
theorem C06_return_after_close_discards (cfg : Cfg) (acts : List Action) (s' : State) (i : Nat)
    (o : Obj) (hc : (run (init cfg) acts).sem.closed = true)
    (hop : (run (init cfg) acts).ops[i]? = some (.ret .lock o))
    (h : stepRet (run (init cfg) acts) i .lock o = some s') :
    s'.idle = [] ∧ s'.ops = (run (init cfg) acts).ops.set i (.ret .detach o) ∧
    s'.size = (run (init cfg) acts).size - 1 := by
  have k := run_closedInv cfg acts
  have a := run_acct cfg acts
  generalize run (init cfg) acts = s at *
  have b := sumW_mem_le Op.sizeW _ _ _ hop
  simp only [Op.sizeW] at b
  have az := a.siz
  have hm := k.max hc
  have : ¬ s.size ≤ s.maxSize := by omega
  have hl : s.lockFree i = true := by simp [State.lockFree, k.nolock hc]
  simp only [stepRet, hl, Bool.not_true, Bool.false_eq_true, if_false, this, Option.some.injEq] at h
  subst h
  exact ⟨k.idle hc, rfl, rfl⟩

/-- **C06 (nothing left behind).** When a closed pool is at rest, the only objects that
still exist are those in callers' hands: `size` equals their number and the queue is empty. -/
theorem C06_closed_at_rest (cfg : Cfg) (acts : List Action)
    (hd : ∀ op ∈ (run (init cfg) acts).ops, op = Op.done)
    (hc : (run (init cfg) acts).sem.closed = true) :
    (run (init cfg) acts).idle = [] ∧
    (run (init cfg) acts).size = (run (init cfg) acts).out.length ∧
    (run (init cfg) acts).status = (0, (run (init cfg) acts).out.length, 0, 0) := by
  have k := run_closedInv cfg acts
  have a := run_acct cfg acts
  generalize run (init cfg) acts = s at *
  have s0 : sumW Op.sizeW s.ops = 0 := sumW_zero _ _ (fun x hx => by rw [hd x hx]; rfl)
  have u0 : sumW Op.usersW s.ops = 0 := sumW_zero _ _ (fun x hx => by rw [hd x hx]; rfl)
  have hi := k.idle hc
  have az := a.siz
  have au := a.usr
  rw [hi, s0] at az
  rw [u0] at au
  simp only [List.length_nil, Nat.zero_add, Nat.add_zero] at az au
  refine ⟨hi, az, ?_⟩
  unfold State.status
  rw [k.max hc, az, au]
  simp

/-- the interleaving in which the pinned code kept an idle object in the closed pool: the
return of object 0 has pushed it back but not yet released its permit when close() runs.
Now close() drains the queue regardless of permits. -/
def C06_trace_idle : List Action :=
  [ .start (.get {}), .step 0 .run, .step 0 .run, .step 0 .run, .step 0 .ok, .step 0 .run,
    .start (.ret 0), .step 1 .run, .step 1 .run,
    .start .close, .step 2 .run, .step 2 .run,
    .step 1 .run ]

theorem C06_regression_idle :
    let s := run (init { maxSize := 1 }) C06_trace_idle
    (run? (init { maxSize := 1 }) C06_trace_idle).isSome = true ∧
    s.sem.closed = true ∧ (∀ op ∈ s.ops, op = Op.done) ∧ s.idle = [] ∧ s.size = 0 ∧
    Ev.destroy 2 0 ∈ s.log := by
  refine ⟨by decide, by decide, by decide, by decide, by decide, by decide⟩

/-- a resize() that was about to take the mutex when close() ran takes it afterwards: it sees the closed
flag under the mutex and leaves `max_size` at 0 -/
def C06_trace_max : List Action :=
  [ .start (.resize 3), .step 0 .run, .start .close, .step 1 .run, .step 1 .run, .step 0 .run ]

theorem C06_regression_max :
    let s := run (init { maxSize := 1 }) C06_trace_max
    (run? (init { maxSize := 1 }) C06_trace_max).isSome = true ∧
    s.sem.closed = true ∧ (∀ op ∈ s.ops, op = Op.done) ∧ s.maxSize = 0 ∧ s.sem.permits = 1 := by
  refine ⟨by decide, by decide, by decide, by decide, by decide⟩

end DeadpoolVerif
