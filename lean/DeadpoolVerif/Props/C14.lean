/-
C14 — SyncWrapper keeps blocking work and destruction off the async thread.

Property theorems only.  `run? init acts = some s` ranges over every history of interact calls
(completing, panicking, cancelled before or while the closure runs), every order in which the
blocking pool lets the spawned tasks at the mutex, and a drop of the wrapper at any time.
-/
import DeadpoolVerif.Lemmas.Sync

namespace DeadpoolVerif
namespace Sy

/-- **C14 (the history is good).** Whatever happens, the events that touch the wrapped value
form a history accepted by `goodLog`: construction on a pool thread, then closures one at a
time, each on a pool thread and each ended before anything else touches the value, then at
most one destructor run, on a pool thread and not inside any closure, and nothing after it. -/
theorem C14_history_good (acts : List Action) (s : State) (h : run? init acts = some s) :
    goodLog s.log = some (phaseOf s) := by
  obtain ⟨es, hl, hsc⟩ := (reach_inv h).scanned
  rw [hl]; exact hsc

/-! what `goodLog` accepting a history means, spelled out -/

theorem scan_split (p : Phase) (pre post : List Ev) (e : Ev) (q : Phase)
    (h : scan p (pre ++ e :: post) = some q) :
    ∃ p1 p2, scan p pre = some p1 ∧ p1.next e = some p2 ∧ scan p2 post = some q := by
  induction pre generalizing p with
  | nil =>
    simp only [List.nil_append, scan] at h
    cases hx : p.next e with
    | none => simp [hx] at h
    | some p2 => simp [hx] at h; exact ⟨p, p2, rfl, hx, h⟩
  | cons x xs ih =>
    simp only [List.cons_append, scan] at h
    cases hx : p.next x with
    | none => simp [hx] at h
    | some p' =>
      simp [hx] at h
      obtain ⟨p1, p2, h1, h2, h3⟩ := ih p' h
      exact ⟨p1, p2, by simp [scan, hx, h1], h2, h3⟩

theorem scan_gone (es : List Ev) (q : Phase) (h : scan .gone es = some q) : es = [] := by
  cases es with
  | nil => rfl
  | cons e es => simp [scan, Phase.next] at h

theorem log_split {acts : List Action} {s : State} (h : run? init acts = some s)
    (pre post : List Ev) (e : Ev) (hl : s.log = pre ++ e :: post) (hne : pre ≠ []) :
    ∃ pre' p1 p2, pre = .create .blocking :: pre' ∧ scan .idle pre' = some p1 ∧ p1.next e = some p2 ∧
      scan p2 post = some (phaseOf s) := by
  obtain ⟨es, hlog, hsc⟩ := (reach_inv h).scanned
  cases pre with
  | nil => exact absurd rfl hne
  | cons x pre' =>
    rw [hlog] at hl
    simp only [List.cons_append, List.cons.injEq] at hl
    obtain ⟨rfl, rfl⟩ := hl
    obtain ⟨p1, p2, h1, h2, h3⟩ := scan_split _ _ _ _ _ hsc
    exact ⟨pre', p1, p2, rfl, h1, h2, h3⟩

/-- **C14 (destruction).** The destructor runs on a pool thread; when it runs no closure is
using the value (every closure that began has ended — see `C14_closure_exclusive`), and nothing
touches the value afterwards: it is the last event of the history. -/
theorem C14_destroy_last (acts : List Action) (s : State) (h : run? init acts = some s)
    (pre post : List Ev) (t : Thr) (hl : s.log = pre ++ .destroy t :: post) :
    t = .blocking ∧ post = [] ∧ s.value = false := by
  have hne : pre ≠ [] := by
    intro hp; subst hp
    obtain ⟨es, hlog, _⟩ := (reach_inv h).scanned
    rw [hlog] at hl; simp at hl
  obtain ⟨pre', p1, p2, _, _, h2, h3⟩ := log_split h pre post _ hl hne
  cases p1 <;> cases t <;> simp [Phase.next] at h2
  subst h2
  have hpost := scan_gone _ _ h3
  subst hpost
  simp [scan] at h3
  refine ⟨rfl, rfl, ?_⟩
  cases hv : s.value with
  | false => rfl
  | true => simp [phaseOf, hv] at h3; split at h3 <;> cases h3

/-- **C14 (closures).** A closure runs on a pool thread, and the next thing that happens to the
value is the end of that same closure: no other closure and no destructor overlaps it —
whether or not its `interact()` future was cancelled in the meantime. -/
theorem C14_closure_exclusive (acts : List Action) (s : State) (h : run? init acts = some s)
    (pre post : List Ev) (i : Nat) (t : Thr) (hl : s.log = pre ++ .begin i t :: post) :
    t = .blocking ∧ (post = [] ∧ s.lock = some i ∨ ∃ p rest, post = .finish i p :: rest) := by
  have hne : pre ≠ [] := by
    intro hp; subst hp
    obtain ⟨es, hlog, _⟩ := (reach_inv h).scanned
    rw [hlog] at hl; simp at hl
  obtain ⟨pre', p1, p2, _, _, h2, h3⟩ := log_split h pre post _ hl hne
  cases p1 <;> cases t <;> simp [Phase.next] at h2
  subst h2
  refine ⟨rfl, ?_⟩
  cases post with
  | nil =>
    left
    simp [scan] at h3
    refine ⟨rfl, ?_⟩
    unfold phaseOf at h3
    split at h3
    · split at h3
      · rename_i j hj; cases h3; exact hj
      · cases h3
    · cases h3
  | cons e rest =>
    right
    simp only [scan] at h3
    cases e with
    | finish j p =>
      by_cases hij : i = j
      · subst hij; exact ⟨p, rest, rfl⟩
      · simp [Phase.next, hij] at h3
    | create _ => simp [Phase.next] at h3
    | «begin» _ _ => simp [Phase.next] at h3
    | destroy _ => simp [Phase.next] at h3

/-- **C14 (exactly once).** The destructor has run at most once; it has run exactly when the
value is gone; and once the wrapper is dropped it is never lost: either it has run, or the drop
task is pending and the blocking pool can always make progress towards it (the mutex is free
and the drop task can take it, or the closure holding it can finish). -/
theorem C14_destroy_exactly_once (acts : List Action) (s : State) (h : run? init acts = some s) :
    s.destroyed ≤ 1 ∧ (s.destroyed = 1 ↔ s.value = false) ∧
    (s.alive = false →
      s.destroyed = 1 ∨
      (s.destroyed = 0 ∧ s.dropPending = true ∧
        ((s.lock = none ∧ ∃ s', step s .destroy = some s' ∧ s'.destroyed = 1) ∨
         (∃ i s', s.lock = some i ∧ step s (.finish i) = some s' ∧ s'.lock = none ∧ s'.dropPending = true)))) := by
  have inv := reach_inv h
  have hd := inv.destroyedCount
  refine ⟨by rw [hd]; split <;> omega, by rw [hd]; cases s.value <;> simp, ?_⟩
  intro ha
  rcases inv.deadPending ha with hp | hv
  · right
    obtain ⟨hv, _⟩ := inv.pendingValue hp
    refine ⟨by simp [hd, hv], hp, ?_⟩
    cases hl : s.lock with
    | none =>
      left
      refine ⟨rfl, ?_⟩
      simp [step, hp, hl, hv, hd]
    | some i =>
      right
      obtain ⟨t, ht, hr⟩ := (inv.lockRunning i).mp hl
      refine ⟨i, ?_⟩
      cases hb : t.beh <;> simp [step, ht, hr, hl, hb, setTask, hp]
  · left; simp [hd, hv]

/-- **C14 (panics).** A closure that panicked is reported as `InteractError::Panic` (its future,
unless dropped, can only return `Panic`), `Ok` is only ever reported for a closure that returned
normally, and `Aborted` is never reported. -/
theorem C14_panic_reported (acts : List Action) (s : State) (h : run? init acts = some s)
    (i : Nat) (t : Task) (ht : s.tasks[i]? = some t) :
    (Ev.finish i true ∈ s.log → t.pc = .done .panic ∧ (∀ r, t.delivered = some r → r = .panic)) ∧
    (t.delivered = some .ok → t.beh = .ok ∧ Ev.finish i false ∈ s.log) ∧
    t.delivered ≠ some .aborted := by
  have inv := reach_inv h
  refine ⟨?_, ?_, ?_⟩
  · intro hf
    obtain ⟨u, hu, hd⟩ := inv.finished i true hf
    rw [ht] at hu; cases hu
    refine ⟨hd, ?_⟩
    intro r hr
    have := inv.delivered i t r ht hr
    rw [hd] at this; cases this; rfl
  · intro hd
    exact inv.doneOk i t ht (inv.delivered i t .ok ht hd)
  · intro hd
    exact inv.notAborted i t ht (inv.delivered i t .aborted ht hd)

/-- **C14 (poisoned from then on).** `is_mutex_poisoned()` is true exactly when some closure has
panicked so far; since the history only grows it stays true, no later closure is run on the
value, and every later `interact()` reports `Panic`. -/
theorem C14_poisoned_from_then_on (acts : List Action) (s : State) (h : run? init acts = some s) :
    (s.poisoned = true ↔ ∃ i, Ev.finish i true ∈ s.log) ∧
    (s.poisoned = true → ∀ a s', step s a = some s' →
        s'.poisoned = true ∧ (∀ i, a ≠ .begin i) ∧
        (∀ i r t, a = .result i r → s.tasks[i]? = some t → t.pc = .spawned → r = .panic)) := by
  have inv := reach_inv h
  refine ⟨⟨inv.poisonedWhy, inv.panicked⟩, ?_⟩
  intro hp a s' hs
  refine ⟨?_, ?_, ?_⟩
  · have inv' := step_inv inv hs
    apply inv'.panicked
    obtain ⟨i, hi⟩ := inv.poisonedWhy hp
    refine ⟨i, ?_⟩
    -- the history only grows
    cases a <;> simp only [step] at hs <;> (repeat' split at hs) <;>
      first
      | (simp at hs; done)
      | (simp only [Option.some.injEq] at hs; subst hs; first | exact hi | exact List.mem_append_left _ hi)
  · intro i ha; subst ha
    simp only [step] at hs
    split at hs
    · split at hs
      · rename_i hc; simp [hp] at hc
      · simp at hs
    · simp at hs
  · intro i r t ha ht hpc; subst ha
    simp only [step, ht] at hs
    split at hs
    · simp at hs
    · simp only [hpc] at hs
      split at hs
      · rename_i hso; simp [spawnedOutcome, hp] at hso; exact hso.symm
      · simp at hs

/-- **C14 (cancellation changes nothing).** Dropping an `interact()` future does not touch the
value, the mutex, the history or the pending tasks: what the blocking pool may do next is the
same as if the future had been kept. -/
theorem C14_cancel_frame (s s' : State) (i : Nat) (h : step s (.cancel i) = some s') :
    s'.log = s.log ∧ s'.lock = s.lock ∧ s'.value = s.value ∧ s'.poisoned = s.poisoned ∧
    s'.destroyed = s.destroyed ∧ s'.dropPending = s.dropPending ∧
    s'.tasks.map (fun t => (t.beh, t.pc)) = s.tasks.map (fun t => (t.beh, t.pc)) := by
  simp only [step] at h
  split at h
  · rename_i t ht
    split at h
    · simp at h; subst h
      refine ⟨rfl, rfl, rfl, rfl, rfl, rfl, ?_⟩
      simp only [setTask]
      apply List.ext_getElem?
      intro j
      simp only [List.getElem?_map, List.getElem?_set]
      by_cases hij : i = j
      · subst hij
        obtain ⟨hlt, heq⟩ := List.getElem?_eq_some_iff.mp ht
        simp [hlt, ← heq]
      · simp [hij]
    · simp at h
  · simp at h

/-! Non-vacuity: a history with a panicking closure, a closure cancelled while it runs, a call
on the poisoned wrapper, the drop, and the destructor -/
example : ∃ s, run? init [.call .ok, .call .panic, .begin 0, .cancel 0, .finish 0, .begin 1, .finish 1,
    .result 1 .panic, .call .ok, .result 2 .panic, .dropw, .destroy] = some s ∧
    s.destroyed = 1 ∧ s.poisoned = true ∧
    s.log = [.create .blocking, .begin 0 .blocking, .finish 0 false, .begin 1 .blocking, .finish 1 true,
             .destroy .blocking] := by
  refine ⟨_, rfl, ?_, ?_, ?_⟩ <;> decide

/-- a cancelled closure that was still queued when the wrapper was dropped may run before the
destructor — and the destructor then waits for it -/
example : ∃ s, run? init [.call .ok, .cancel 0, .dropw, .begin 0] = some s ∧
    step s .destroy = none ∧ (step s (.finish 0)).isSome := by
  refine ⟨_, rfl, ?_, ?_⟩ <;> decide

end Sy
end DeadpoolVerif
