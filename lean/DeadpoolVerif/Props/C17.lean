/-
C17 — the Redis pool hands out only clean, synchronised connections.

Property theorems only.
-/
import DeadpoolVerif.Model.RedisRecycle
import DeadpoolVerif.Props.C04
import DeadpoolVerif.Lemmas.SyncPools

namespace DeadpoolVerif
namespace RR

/-- **C17 (the check).** `recycle` accepts the connection exactly when the server echoed the
very number it sent; an error reply, a failing `UNWATCH`, a disconnect, silence, a stale or
otherwise different value all reject it. -/
theorem C17_recycle_ok_iff (m : Mgr) (c : Conn) (r : Reply) :
    (recycle m c r).2.2 = true ↔ r = .echo (some m.pingNumber) := by
  cases r with
  | echo v =>
    cases v with
    | none => simp [recycle]
    | some v => simp [recycle]
  | _ => simp [recycle]

/-- **C17 (what the server has seen).** Whatever the answer, the server has received an
`UNWATCH` and then the `PING` on that connection, after everything the previous user sent, and
the connection's watch state is cleared — leftover `WATCH`es of the previous user included. -/
theorem C17_unwatch_then_ping (m : Mgr) (c : Conn) (r : Reply) :
    (recycle m c r).2.1.log = c.log ++ [.unwatch, .ping m.pingNumber] ∧
    (recycle m c r).2.1.watched = false ∧
    (recycle m c.watch r).2.1.watched = false ∧
    (recycle m c r).1.pingNumber = m.pingNumber + 1 := by
  simp [recycle]

theorem pingsSent_eq (m : Mgr) (rs : List Reply) :
    pingsSent m rs = List.range' m.pingNumber rs.length := by
  induction rs generalizing m with
  | nil => rfl
  | cons r rs ih => simp [pingsSent, ih, List.range'_succ]

/-- **C17 (fresh values).** Over any sequence of recycles on one pool — whichever connections
they are on and however the server answers — the ping values are pairwise distinct: each one
has not been used before on that pool. -/
theorem C17_ping_fresh (m : Mgr) (rs : List Reply) :
    (pingsSent m rs).Nodup ∧ ∀ n ∈ pingsSent m rs, m.pingNumber ≤ n := by
  rw [pingsSent_eq]
  refine ⟨List.nodup_range', ?_⟩
  intro n hn
  simp [List.mem_range'] at hn
  omega

/-- consequently a stale echo — the value of any earlier ping on the pool — is never accepted -/
theorem C17_stale_rejected (m : Mgr) (c : Conn) (v : Nat) (h : v < m.pingNumber) :
    (recycle m c (.echo (some v))).2.2 = false := by
  simp [recycle]; omega

/-- **C17 (reuse only after the check).** In the pool, a reused connection reaches a caller only
by the step in which the last callback of the recycle sequence answered `ok`
(`C04_handout_requires_all_ok`); `Manager::recycle` is one of those callbacks, so its answer was
`ok`, i.e. the server echoed the fresh ping after the `UNWATCH`.  A rejected connection is
discarded and the get goes on to the next idle connection or creates one
(`C04_recycle_failure_discards`). -/
theorem C17_reuse_requires_recycle_ok (s s' : State) (i : Nat) (t : Timeouts) (k : Nat) (o : Obj)
    (susp : Bool) (oc : Outcome) (h : stepGet s i t (.recycling k o susp) oc = some s')
    (hout : s'.out ≠ s.out) : oc = .ok ∧ s.cfg.nRecycle ≤ k + 1 := by
  rcases C04_handout_requires_all_ok s s' i t _ oc h hout with
    ⟨k', o', susp', hpc, hoc, hk, _⟩ | ⟨k', o', susp', hpc, _⟩ | ⟨o', hpc, _⟩
  · cases hpc; exact ⟨hoc, hk⟩
  · cases hpc
  · cases hpc

/-- **C17 (never reissued, all histories).** Let `unsync id n` say that connection `id`, at the
recycle after its `n`-th hand-out, does not get the echo of the fresh ping (error, stale or
other value, silence, disconnect).  In every history of the pool in which `Manager::recycle`
is answered `Ok` only on the right echo — `C17_recycle_ok_iff` — no hand-out is the `(n+1)`-th
hand-out of such a connection. -/
theorem C17_unsynchronised_never_reissued (cfg : Cfg) (unsync : SP.Spoiled) (acts : List Action)
    (h : SP.Honest unsync (init cfg) acts) (i : Nat) (o : Obj)
    (ho : Ev.handout i o ∈ (run (init cfg) acts).log) (hn : 1 < o.handouts) :
    unsync o.id (o.handouts - 1) = false :=
  ((SP.J.init unsync cfg).run h).log _ ho hn

/-! ### one connection over its whole life -/

/-- invariant of one connection's life: the model's watch flag is what the server derives from
the commands it received; every ping value in the server's log is below the manager's counter
(so the next one is new on this connection as well); the ping values on the connection increase
strictly -/
structure ConnInv (mc : Mgr × Conn) : Prop where
  flag : mc.2.watched = watchedOf mc.2.log
  below : ∀ n ∈ pingsOf mc.2.log, n < mc.1.pingNumber
  incr : (pingsOf mc.2.log).Pairwise (· < ·)

theorem watchedOf_append (l : List Cmd) (c : Cmd) :
    watchedOf (l ++ [c]) = watchStep (watchedOf l) c := by
  simp [watchedOf, List.foldl_append]

theorem pingsOf_append (l l' : List Cmd) : pingsOf (l ++ l') = pingsOf l ++ pingsOf l' := by
  simp [pingsOf, List.filterMap_append]

theorem ConnInv.step {mc : Mgr × Conn} (h : ConnInv mc) (op : ConnOp) : ConnInv (connStep mc op) := by
  obtain ⟨hf, hb, hi⟩ := h
  cases op with
  | watch =>
    refine ⟨?_, ?_, ?_⟩
    · simp [connStep, Conn.watch, watchedOf_append, watchStep]
    · simpa [connStep, Conn.watch, pingsOf_append, pingsOf] using hb
    · simpa [connStep, Conn.watch, pingsOf_append, pingsOf] using hi
  | other =>
    refine ⟨?_, ?_, ?_⟩
    · simp [connStep, watchedOf_append, watchStep, hf]
    · simpa [connStep, pingsOf_append, pingsOf] using hb
    · simpa [connStep, pingsOf_append, pingsOf] using hi
  | recycle r =>
    refine ⟨?_, ?_, ?_⟩
    · have : mc.2.log ++ [Cmd.unwatch, Cmd.ping mc.1.pingNumber]
          = (mc.2.log ++ [Cmd.unwatch]) ++ [Cmd.ping mc.1.pingNumber] := by simp
      simp only [connStep, recycle]
      rw [this, watchedOf_append, watchedOf_append]
      simp [watchStep]
    · intro n hn
      simp [connStep, recycle, pingsOf_append, pingsOf] at hn
      rcases hn with hn | hn
      · have := hb n (by simpa [pingsOf] using hn)
        simp [connStep, recycle]; omega
      · simp [connStep, recycle]; omega
    · simp only [connStep, recycle, pingsOf_append]
      rw [List.pairwise_append]
      refine ⟨hi, by simp [pingsOf], ?_⟩
      intro a ha b hb'
      simp [pingsOf] at hb'
      have := hb a ha
      omega

theorem ConnInv.init (m : Mgr) : ConnInv (m, {}) := by
  refine ⟨by simp [watchedOf], by simp [pingsOf], by simp [pingsOf]⟩

theorem ConnInv.run (m : Mgr) (ops : List ConnOp) : ConnInv (ops.foldl connStep (m, {})) := by
  suffices ∀ mc, ConnInv mc → ConnInv (ops.foldl connStep mc) from this _ (ConnInv.init m)
  induction ops with
  | nil => intro mc h; simpa
  | cons op ops ih => intro mc h; exact ih _ (h.step op)

/-- every `PING` the server received is directly preceded by an `UNWATCH` -/
def Guarded (l : List Cmd) : Prop :=
  ∀ i n, l[i]? = some (.ping n) → 0 < i ∧ l[i - 1]? = some .unwatch

theorem Guarded.append_other {l : List Cmd} (h : Guarded l) (c : Cmd) (hc : ∀ n, c ≠ .ping n) :
    Guarded (l ++ [c]) := by
  intro i n hi
  by_cases hlt : i < l.length
  · rw [List.getElem?_append_left hlt] at hi
    obtain ⟨h0, h1⟩ := h i n hi
    refine ⟨h0, ?_⟩
    rw [List.getElem?_append_left (by omega)]; exact h1
  · rw [List.getElem?_append_right (by omega)] at hi
    cases hj : i - l.length with
    | zero => simp [hj] at hi; exact absurd hi (hc n)
    | succ j => simp [hj] at hi

theorem Guarded.append_recycle {l : List Cmd} (h : Guarded l) (k : Nat) :
    Guarded (l ++ [.unwatch, .ping k]) := by
  have h1 : Guarded (l ++ [.unwatch]) := h.append_other _ (by intro n; simp)
  have e : l ++ [Cmd.unwatch, Cmd.ping k] = (l ++ [.unwatch]) ++ [.ping k] := by simp
  rw [e]
  intro i n hi
  by_cases hlt : i < (l ++ [Cmd.unwatch]).length
  · rw [List.getElem?_append_left hlt] at hi
    obtain ⟨h0, h2⟩ := h1 i n hi
    refine ⟨h0, ?_⟩
    rw [List.getElem?_append_left (by omega)]; exact h2
  · have hlen : (l ++ [Cmd.unwatch]).length = l.length + 1 := by simp
    rw [List.getElem?_append_right (by omega)] at hi
    have : i - (l ++ [Cmd.unwatch]).length = 0 := by
      cases hj : i - (l ++ [Cmd.unwatch]).length with
      | zero => rfl
      | succ j => rw [hj] at hi; simp at hi
    have hi' : i = l.length + 1 := by omega
    refine ⟨by omega, ?_⟩
    subst hi'
    rw [List.getElem?_append_left (by simp)]
    simp

/-- **C17 (UNWATCH before every PING, whole life of a connection).** In the server's log of any
connection, after any sequence of user commands and recycles, every `PING` is directly preceded
by an `UNWATCH`: no recycle ever probes a connection without first clearing its watches. -/
theorem C17_every_ping_after_unwatch (m : Mgr) (ops : List ConnOp) : Guarded (ops.foldl connStep (m, {})).2.log := by
  suffices ∀ mc : Mgr × Conn, Guarded mc.2.log → Guarded (ops.foldl connStep mc).2.log from
    this _ (by intro i n hi; simp at hi)
  induction ops with
  | nil => intro mc h; simpa
  | cons op ops ih =>
    intro mc h
    apply ih
    cases op with
    | watch => exact h.append_other _ (by intro n; simp)
    | other => exact h.append_other _ (by intro n; simp)
    | recycle r => exact h.append_recycle _

/-- **C17 (clean at every hand-out, whole life of a connection).** Take any connection, created
when the manager's counter was anything, and ANY sequence of user commands (`WATCH`, anything
else) and recycles with arbitrary server answers.  If the sequence ends with a recycle - the
only step after which the pool may hand the connection out again - then the watch state the
server itself derives from the commands it received is clear, however many `WATCH`es earlier
users left behind; the ping values the server saw on the connection increase strictly (so no
earlier echo that is still in flight can equal the value now awaited), and the model's flag
agrees with the server's view throughout. -/
theorem C17_clean_at_handout (m : Mgr) (ops : List ConnOp) (r : Reply) :
    watchedOf ((ops ++ [ConnOp.recycle r]).foldl connStep (m, {})).2.log = false ∧
    ((ops ++ [ConnOp.recycle r]).foldl connStep (m, {})).2.watched = false ∧
    (pingsOf ((ops ++ [ConnOp.recycle r]).foldl connStep (m, {})).2.log).Pairwise (· < ·) ∧
    ∀ n ∈ pingsOf ((ops ++ [ConnOp.recycle r]).foldl connStep (m, {})).2.log,
      n < ((ops ++ [ConnOp.recycle r]).foldl connStep (m, {})).1.pingNumber := by
  have h := ConnInv.run m (ops ++ [ConnOp.recycle r])
  have hw : ((ops ++ [ConnOp.recycle r]).foldl connStep (m, {})).2.watched = false := by
    simp [List.foldl_append, connStep, recycle]
  exact ⟨by rw [← h.flag]; exact hw, hw, h.incr, h.below⟩

/-- an earlier ping value of the connection's whole life is never accepted by a later recycle -/
theorem C17_old_echo_rejected (m : Mgr) (ops : List ConnOp) (v : Nat)
    (hv : v ∈ pingsOf (ops.foldl connStep (m, {})).2.log) :
    let mc := ops.foldl connStep (m, {})
    (recycle mc.1 mc.2 (.echo (some v))).2.2 = false := by
  intro mc
  exact C17_stale_rejected _ _ _ ((ConnInv.run m ops).below v hv)

example : watchedOf ([ConnOp.watch, .other, .recycle .drop, .watch].foldl connStep (({ pingNumber := 3 } : Mgr), {})).2.log = true ∧
    watchedOf ([ConnOp.watch, .other, .recycle .drop, .watch, .recycle .silent].foldl connStep (({ pingNumber := 3 } : Mgr), {})).2.log = false ∧
    pingsOf ([ConnOp.watch, .recycle .drop, .watch, .recycle .silent].foldl connStep (({ pingNumber := 3 } : Mgr), {})).2.log = [3, 4] := by
  decide

/-! Non-vacuity -/
example : (recycle { pingNumber := 7 } { watched := true } (.echo (some 7))).2.2 = true ∧
    (recycle { pingNumber := 7 } { watched := true } (.echo (some 6))).2.2 = false ∧
    (recycle { pingNumber := 7 } { watched := true } .drop).2.1.watched = false := by decide

end RR
end DeadpoolVerif
