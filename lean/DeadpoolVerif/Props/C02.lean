/-
C02 — no capacity is ever lost, no waiting caller is stranded, get() never panics and
never deadlocks.

Property theorems only; helper lemmas live in `Lemmas/`.
-/
import DeadpoolVerif.Lemmas.NoResize
import DeadpoolVerif.Lemmas.LinkStep

namespace DeadpoolVerif

/-- every operation has finished -/
def State.allDone (s : State) : Prop := ∀ op ∈ s.ops, op = Op.done

theorem allDone_sums {s : State} (h : s.allDone) :
    sumW Op.permW s.ops = 0 ∧ sumW Op.usersW s.ops = 0 ∧ sumW Op.sizeW s.ops = 0 ∧
    sumW Op.objW s.ops = 0 := by
  refine ⟨sumW_zero _ _ ?_, sumW_zero _ _ ?_, sumW_zero _ _ ?_, sumW_zero _ _ ?_⟩ <;>
    (intro a ha; rw [h a ha]; rfl)

theorem allDone_no_waiters {s : State} (l : Link s) (h : s.allDone) : s.sem.waiting = [] := by
  apply List.eq_nil_iff_forall_not_mem.mpr
  intro j hj
  obtain ⟨op, h1, h2⟩ := l.waiters j hj
  have := h op (List.mem_of_getElem? h1)
  subst this
  simp [Op.isQ] at h2

/-- **C02 (capacity).** Whatever mixture of successful, failed, timed-out, cancelled or
panicking gets (and returns, takes, retains, status calls) a pool has served — any list of
actions without resize/close — once every operation has finished and every checked-out
object has been returned or taken, all `max_size` capacity tokens are free again, nobody
is registered as a waiter, and the `users` counter is back to zero. -/
theorem C02_capacity_restored (cfg : Cfg) (acts : List Action) (hn : noResize acts)
    (hd : (run (init cfg) acts).allDone) (ho : (run (init cfg) acts).out = []) :
    (run (init cfg) acts).sem.permits = cfg.maxSize ∧ (run (init cfg) acts).sem.assigned = [] ∧
    (run (init cfg) acts).sem.queue = [] ∧ (run (init cfg) acts).sem.closed = false ∧
    (run (init cfg) acts).users = 0 ∧
    (run (init cfg) acts).size = (run (init cfg) acts).idle.length ∧
    (run (init cfg) acts).idle.length ≤ cfg.maxSize ∧ (run (init cfg) acts).fault = none := by
  have a := run_acct cfg acts
  have n := run_norz cfg acts hn
  have l := run_link cfg acts
  generalize run (init cfg) acts = s at *
  obtain ⟨p0, u0, z0, o0⟩ := allDone_sums hd
  have w := allDone_no_waiters l hd
  simp only [Sem.waiting, List.append_eq_nil_iff] at w
  have t := a.tok
  have c := a.cov
  have sz := a.siz
  have us := a.usr
  rw [n.1.debt, n.1.max, n.2] at t
  simp only [Sem.tokens, w.2, ho, List.length_nil] at t c sz us
  refine ⟨by omega, w.2, w.1, n.1.closed, by omega, by omega, by omega, a.nf⟩

/-- the zero-wait acquisition the capacity probe performs succeeds exactly while a token is free -/
theorem C02_probe_step (s : Sem) (hc : s.closed = false) :
    (0 < s.permits → (s.tryAcquire).2 = .ok) ∧ (s.permits = 0 → (s.tryAcquire).2 = .noPermits) := by
  unfold Sem.tryAcquire
  constructor
  · intro hp
    have : ¬ s.permits = 0 := by omega
    simp [hc, this]
  · intro hp; simp [hc, hp]

/-- **C02 (no stranded waiter).** In every reachable state a caller that is blocked in
`acquire` and has not been woken is blocked for a reason: no token is free and the pool is
not closed. -/
theorem C02_no_stranded (cfg : Cfg) (acts : List Action) (i : Nat)
    (hi : i ∈ (run (init cfg) acts).sem.queue) :
    (run (init cfg) acts).sem.permits = 0 ∧ (run (init cfg) acts).sem.closed = false := by
  have l := run_link cfg acts
  constructor
  · rcases Nat.eq_zero_or_pos (run (init cfg) acts).sem.permits with h | h
    · exact h
    · have := l.wf.free h
      rw [this] at hi; simp at hi
  · cases hc : (run (init cfg) acts).sem.closed with
    | false => rfl
    | true =>
      have := l.wf.closedq hc
      rw [this] at hi; simp at hi

/-- a token that becomes free goes to the caller that has waited longest, at once -/
theorem C02_release_wakes_oldest (s : Sem) (i : Nat) (rest : List Nat) (h : s.queue = i :: rest) :
    i ∈ (s.addPermits 1).assigned ∧ (s.addPermits 1).queue = rest := by
  simp [Sem.addPermits, h]

/-- **C02 (woken waiters complete).** A caller suspended in `acquire` that is no longer in
the queue (it was handed a token, or the pool was closed) completes the acquisition at
its next poll: it proceeds with the token or fails with `Closed`. -/
theorem C02_woken_completes (cfg : Cfg) (acts : List Action) (i : Nat) (t : Timeouts)
    (hq : (run (init cfg) acts).ops[i]? = some (.get t .queued))
    (hnq : i ∉ (run (init cfg) acts).sem.queue) :
    ∃ s', stepOp (run (init cfg) acts) i .run = some s' ∧
      (s'.ops[i]? = some (.get t .pop) ∨ s'.ops[i]? = some (.get t (.dropUsers .closed))) := by
  have l := run_link cfg acts
  generalize run (init cfg) acts = s at *
  have hw := l.queued i _ hq rfl
  simp only [stepOp, hq, stepGet]
  have key : ∀ sem r, s.sem.pollAcquire i = (sem, r) → r ≠ .pending := by
    intro sem r hp hr
    subst hr
    have := (l.wf.pollAcquire hp).2.2.2.1 rfl
    rcases hw with hw | hw
    · simp only [Sem.waiting, List.mem_append] at hw
      rcases hw with hw | hw
      · exact hnq hw
      · -- assigned and not closed: the poll succeeds
        unfold Sem.pollAcquire at hp
        simp [this.2.2, hw] at hp
    · rw [this.2.2] at hw; simp at hw
  rcases hp : s.sem.pollAcquire i with ⟨sem, r⟩
  cases r with
  | ok => exact ⟨_, rfl, Or.inl (getElem?_set_self' hq)⟩
  | pending => exact absurd rfl (key _ _ hp)
  | closed => exact ⟨_, rfl, Or.inr (getElem?_set_self' hq)⟩

/-- **C02 (get never panics on its own).** No counter ever underflows / wraps in any
reachable state; the only panics are those the scripted environment injects. -/
theorem C02_no_fault (cfg : Cfg) (acts : List Action) : (run (init cfg) acts).fault = none :=
  (run_acct cfg acts).nf

/-- **C02 (no deadlock).** In every reachable state every unfinished operation can take a
step, or waits for the slots mutex whose owner (a resize in its critical region) can take a
step.  (A queued getter's step is its next poll.) -/
theorem C02_progress (cfg : Cfg) (acts : List Action) (i : Nat) (op : Op)
    (h : (run (init cfg) acts).ops[i]? = some op) (hnd : op ≠ .done) :
    (∃ oc s', stepOp (run (init cfg) acts) i oc = some s') ∨
    (∃ j op', (run (init cfg) acts).lock = some j ∧ j ≠ i ∧
      (run (init cfg) acts).ops[j]? = some op' ∧ op'.holdsLock = true ∧
      ∃ s', stepOp (run (init cfg) acts) j .run = some s') := by
  have l := run_link cfg acts
  generalize run (init cfg) acts = s at *
  -- the owner of the mutex, if any, is enabled
  have owner : ∀ j, s.lock = some j → ∃ op', s.ops[j]? = some op' ∧ op'.holdsLock = true ∧
      ∃ s', stepOp s j .run = some s' := by
    intro j hj
    obtain ⟨op', h1, h2⟩ := (l.lockOwner j).mp hj
    refine ⟨op', h1, h2, ?_⟩
    cases op' with
    | resize n c pc old =>
      cases pc <;> simp only [Op.holdsLock, Bool.false_eq_true] at h2
      · simp only [stepOp, h1, stepResize, BEq.rfl, if_true]
        repeat' split
        all_goals exact ⟨_, rfl⟩
      · simp only [stepOp, h1, stepResize, BEq.rfl, if_true]
        exact ⟨_, rfl⟩
    | _ => simp [Op.holdsLock] at h2
  -- either the mutex is free for `i`, or somebody else owns it
  have lockCase : s.lockFree i = true ∨ ∃ j, s.lock = some j ∧ j ≠ i := by
    unfold State.lockFree
    cases hl : s.lock with
    | none => exact Or.inl rfl
    | some j =>
      by_cases e : j = i
      · subst e; exact Or.inl (by simp)
      · exact Or.inr ⟨j, rfl, e⟩
  have blocked : (∃ j, s.lock = some j ∧ j ≠ i) →
      (∃ j op', s.lock = some j ∧ j ≠ i ∧ s.ops[j]? = some op' ∧ op'.holdsLock = true ∧
        ∃ s', stepOp s j .run = some s') := by
    rintro ⟨j, hj, hne⟩
    obtain ⟨op', h1, h2, h3⟩ := owner j hj
    exact ⟨j, op', hj, hne, h1, h2, h3⟩
  cases op with
  | done => exact absurd rfl hnd
  | status =>
    rcases lockCase with hf | hb
    · exact Or.inl (by refine ⟨.run, ?_⟩; simp only [stepOp, h, stepStatus, hf]; exact ⟨_, rfl⟩)
    · exact Or.inr (blocked hb)
  | retain keep =>
    rcases lockCase with hf | hb
    · exact Or.inl (by refine ⟨.run, ?_⟩; simp only [stepOp, h, stepRetain, hf]; exact ⟨_, rfl⟩)
    · exact Or.inr (blocked hb)
  | resize n c pc old =>
    cases pc
    · left; refine ⟨.run, ?_⟩; simp only [stepOp, h, stepResize, BEq.rfl, if_true]; exact ⟨_, rfl⟩
    · -- resize.lock / close.lock
      cases hl : s.lock with
      | none =>
        left; refine ⟨.run, ?_⟩
        simp only [stepOp, h, stepResize, BEq.rfl, if_true, hl]
        repeat' split
        all_goals exact ⟨_, rfl⟩
      | some j =>
        right
        have hne : j ≠ i := by
          intro e; subst e
          obtain ⟨op', h1, h2⟩ := (l.lockOwner j).mp hl
          rw [h] at h1
          simp only [Option.some.injEq] at h1
          subst h1
          simp [Op.holdsLock] at h2
        have := blocked ⟨j, hl, hne⟩
        rw [hl] at this
        exact this
    · left; refine ⟨.run, ?_⟩
      simp only [stepOp, h, stepResize, BEq.rfl, if_true]
      repeat' split
      all_goals exact ⟨_, rfl⟩
    · left; refine ⟨.run, ?_⟩; simp only [stepOp, h, stepResize, BEq.rfl, if_true]; exact ⟨_, rfl⟩
  | ret pc o =>
    cases pc
    · left; refine ⟨.run, ?_⟩; simp only [stepOp, h, stepRet, BEq.rfl, if_true]; exact ⟨_, rfl⟩
    · rcases lockCase with hf | hb
      · left; refine ⟨.run, ?_⟩
        simp only [stepOp, h, stepRet, BEq.rfl, if_true, hf, Bool.not_true, Bool.false_eq_true,
          if_false]
        split <;> exact ⟨_, rfl⟩
      · exact Or.inr (blocked hb)
    · left; refine ⟨.run, ?_⟩; simp only [stepOp, h, stepRet, BEq.rfl, if_true]; exact ⟨_, rfl⟩
    · left; refine ⟨.run, ?_⟩; simp only [stepOp, h, stepRet, BEq.rfl, if_true]; exact ⟨_, rfl⟩
  | take pc o add =>
    cases pc
    · left; refine ⟨.run, ?_⟩; simp only [stepOp, h, stepTake, BEq.rfl, if_true]; exact ⟨_, rfl⟩
    · rcases lockCase with hf | hb
      · left; refine ⟨.run, ?_⟩; simp only [stepOp, h, stepTake, BEq.rfl, if_true, hf]; exact ⟨_, rfl⟩
      · exact Or.inr (blocked hb)
    · left; refine ⟨.run, ?_⟩; simp only [stepOp, h, stepTake, BEq.rfl, if_true]; exact ⟨_, rfl⟩
    · left; refine ⟨.run, ?_⟩; simp only [stepOp, h, stepTake, BEq.rfl, if_true]; exact ⟨_, rfl⟩
  | get t pc =>
    cases pc with
    | enter =>
      left; refine ⟨.run, ?_⟩
      simp only [stepOp, h, stepGet]
      split <;> exact ⟨_, rfl⟩
    | acquire =>
      left; refine ⟨.run, ?_⟩
      simp only [stepOp, h, stepGet]
      repeat' split
      all_goals exact ⟨_, rfl⟩
    | queued =>
      left; refine ⟨.run, ?_⟩
      simp only [stepOp, h, stepGet]
      repeat' split
      all_goals exact ⟨_, rfl⟩
    | pop =>
      rcases lockCase with hf | hb
      · left; refine ⟨.run, ?_⟩
        simp only [stepOp, h, stepGet, hf]
        repeat' split
        all_goals first | exact ⟨_, rfl⟩ | simp_all
      · exact Or.inr (blocked hb)
    | recycling k o susp =>
      left; refine ⟨.ok, ?_⟩
      simp only [stepOp, h, stepGet]
      split <;> exact ⟨_, rfl⟩
    | creating susp =>
      left; refine ⟨.ok, ?_⟩; simp only [stepOp, h, stepGet]; exact ⟨_, rfl⟩
    | createSize o =>
      rcases lockCase with hf | hb
      · left; refine ⟨.run, ?_⟩; simp only [stepOp, h, stepGet, hf]; exact ⟨_, rfl⟩
      · exact Or.inr (blocked hb)
    | postCreate k o susp =>
      left; refine ⟨.ok, ?_⟩; simp only [stepOp, h, stepGet]; exact ⟨_, rfl⟩
    | unreadyLock o c =>
      rcases lockCase with hf | hb
      · left; refine ⟨.run, ?_⟩; simp only [stepOp, h, stepGet, hf]; exact ⟨_, rfl⟩
      · exact Or.inr (blocked hb)
    | unreadyDetach o c =>
      left; refine ⟨.run, ?_⟩
      simp only [stepOp, h, stepGet]
      split <;> exact ⟨_, rfl⟩
    | dropPermit r => left; refine ⟨.run, ?_⟩; simp only [stepOp, h, stepGet]; exact ⟨_, rfl⟩
    | dropUsers r => left; refine ⟨.run, ?_⟩; simp only [stepOp, h, stepGet]; exact ⟨_, rfl⟩

/-! Non-vacuity -/

def C02_demo_cfg : Cfg := { maxSize := 1, rt := true }

/-- one successful get, a second getter queues and is cancelled, a third one fails in
`create`; then the object comes back -/
def C02_demo : List Action :=
  let g : Spec := .get {}
  [ .start g, .step 0 .run, .step 0 .run, .step 0 .run, .step 0 .ok, .step 0 .run,
    .start g, .step 1 .run, .step 1 .run, .step 1 .cancel, .step 1 .run,
    .start (.ret 0), .step 2 .run, .step 2 .run, .step 2 .run,
    .start g, .step 3 .run, .step 3 .run, .step 3 .run, .step 3 .err,
    .step 3 .run, .step 3 .run, .step 3 .run, .step 3 .err, .step 3 .run, .step 3 .run ]

example : noResize C02_demo := by unfold noResize; decide
example : (run? (init C02_demo_cfg) C02_demo).isSome = true := by decide
example : (run (init C02_demo_cfg) C02_demo).allDone := by unfold State.allDone; decide
example : (run (init C02_demo_cfg) C02_demo).out = [] := by decide
example : (run (init C02_demo_cfg) C02_demo).sem.permits = 1 := by decide

end DeadpoolVerif
