/-
C01 — a managed pool whose max_size is not being changed never has more than
max_size live objects.

Property theorems only; helper lemmas live in `Lemmas/`.
-/
import DeadpoolVerif.Lemmas.NoResize
import DeadpoolVerif.Lemmas.GrowOnly

namespace DeadpoolVerif

/-- the pool's object an operation has in hand: like `Op.held`, but an object that is
past the point of no return of `Object::take` (it is the caller's now) or that is being
discarded as surplus no longer counts -/
def Op.pooled : Op → Option Obj
  | .ret .detach _ => none
  | .take .addPermits .. | .take .detach .. => none
  | op => op.held

/-- objects of the pool that exist: idle, checked out, or in the hands of an operation -/
def State.pooled (s : State) : List Obj := s.idle ++ s.out ++ s.ops.filterMap Op.pooled

/-- the same count from the ghost weights; additionally counts objects *being created* -/
def State.liveCount (s : State) : Nat := s.idle.length + s.out.length + sumW Op.objW s.ops

theorem Op.pooled_le_objW (op : Op) : (op.pooled.toList).length ≤ op.objW := by
  cases op with
  | get t pc => cases pc <;> simp [Op.pooled, Op.held, Op.objW, GPc.objW]
  | ret pc o => cases pc <;> simp [Op.pooled, Op.held, Op.objW]
  | take pc o a => cases pc <;> simp [Op.pooled, Op.held, Op.objW]
  | _ => simp [Op.pooled, Op.held]

theorem pooled_length_le_liveCount (s : State) : s.pooled.length ≤ s.liveCount := by
  have : ∀ ops : List Op, (ops.filterMap Op.pooled).length ≤ sumW Op.objW ops := by
    intro ops
    induction ops with
    | nil => simp
    | cons op ops ih =>
      have h := Op.pooled_le_objW op
      simp only [List.filterMap_cons, sumW_cons]
      cases hp : op.pooled with
      | none => simp only []; omega
      | some o =>
        simp only [hp, Option.toList_some, List.length_cons, List.length_nil] at h
        simp only [List.length_cons]
        omega
  have := this s.ops
  simp only [State.pooled, State.liveCount, List.length_append]
  omega

/-- **C01 (main).** Without resize / close, after *any* list of actions — any number of
tasks, any interleaving of their atomic steps, any outcome (ok, error, pending, panic,
deadline, cancel) of any callback, both queue modes, any hooks, any `max_size` — the
objects that exist or are being created or recycled never exceed `max_size`. -/
theorem C01_live_le_max (cfg : Cfg) (acts : List Action) (h : noResize acts) :
    (run (init cfg) acts).liveCount ≤ cfg.maxSize := by
  have a := run_acct cfg acts
  have n := run_norz cfg acts h
  have c := a.cov
  have t := a.tok
  rw [n.1.debt, n.1.max, n.2] at t
  simp only [State.liveCount]
  omega

/-- the objects that exist (ghost structure, tied to the implementation's ground truth
by the correspondence check) never exceed `max_size` -/
theorem C01_pooled_le_max (cfg : Cfg) (acts : List Action) (h : noResize acts) :
    (run (init cfg) acts).pooled.length ≤ cfg.maxSize :=
  Nat.le_trans (pooled_length_le_liveCount _) (C01_live_le_max cfg acts h)

/-- no more than `max_size` callers hold an object at the same time -/
theorem C01_holders_le_max (cfg : Cfg) (acts : List Action) (h : noResize acts) :
    (run (init cfg) acts).out.length ≤ cfg.maxSize := by
  have := C01_live_le_max cfg acts h
  simp only [State.liveCount] at this
  omega

/-- the manager is never asked to create an object that would take the pool over the
limit: in the state right after any `create` call was issued (or at any other time), the
operations inside `Manager::create` count towards the limit. -/
theorem C01_create_within_limit (cfg : Cfg) (acts : List Action) (h : noResize acts) (n : Nat) :
    (run (init cfg) (acts.take n)).liveCount ≤ cfg.maxSize :=
  C01_live_le_max cfg _ (fun a ha => h a (List.mem_of_mem_take ha))

/-- `size` (what `status()` reports) never exceeds `max_size` either -/
theorem C01_size_le_max (cfg : Cfg) (acts : List Action) (h : noResize acts) :
    (run (init cfg) acts).size ≤ cfg.maxSize := by
  have a := run_acct cfg acts
  have n := run_norz cfg acts h
  have := a.size_le
  rw [n.1.debt, n.1.max, n.2] at this
  omega

/-! Non-vacuity: a concrete history with a rejected recycle, a cancelled and a panicking
get on a pool of size 2 meets the hypothesis and attains the bound. -/

def C01_demo_cfg : Cfg := { maxSize := 2, pre := [false], postC := [true], rt := true }

def C01_demo : List Action :=
  let g : Spec := .get {}
  [ .start g, .step 0 .run, .step 0 .run, .step 0 .run, .step 0 .ok, .step 0 .run, .step 0 .ok,
    .start (.ret 0), .step 1 .run, .step 1 .run, .step 1 .run,
    .start g, .step 2 .run, .step 2 .run, .step 2 .run, .step 2 .err,   -- pre_recycle hook rejects 0
    .step 2 .run, .step 2 .run, .step 2 .run, .step 2 .pending,          -- creating, suspended
    .start g, .step 3 .run, .step 3 .run, .step 3 .run, .step 3 .panic,  -- second creator panics
    .step 2 .ok, .step 2 .run, .step 2 .pending, .step 2 .cancel ]      -- post_create hook cancelled

example : noResize C01_demo := by unfold noResize; decide
example : (run? (init C01_demo_cfg) C01_demo).isSome = true := by decide
/-- after 24 actions two gets are inside `Manager::create` at once: the bound is attained -/
example : (run (init C01_demo_cfg) (C01_demo.take 24)).liveCount = 2 := by decide

/-- **C01 (`max_size` standing still or growing).** The limit is in force whenever
`max_size` is not being lowered: in every history in which no `resize` takes the mutex with a
target below the current `max_size` (calls with the current value and growing calls are
allowed, any number of them, interleaved with everything else) and the pool is not closed,
the objects that exist or are being created never exceed the *current* `max_size`. -/
theorem C01_live_le_max_grow_only (cfg : Cfg) (acts : List Action)
    (h : GrowOnly (init cfg) acts) :
    (run (init cfg) acts).liveCount ≤ (run (init cfg) acts).maxSize := by
  have a := run_acct cfg acts
  have d := run_debt_zero (init cfg) acts rfl h
  have c := a.cov
  have t := a.tok
  simp only [State.liveCount]
  omega

/-- the premise is met by a history with a no-op resize, a grow and gets around them -/
example :
    GrowOnly (init { maxSize := 1 })
      [ .start (.get {}), .step 0 .run, .step 0 .run, .step 0 .run, .step 0 .ok, .step 0 .run,
        .start (.resize 1), .step 1 .run, .step 1 .run,
        .start (.resize 2), .step 2 .run, .step 2 .run, .step 2 .run,
        .start (.get {}), .step 3 .run, .step 3 .run, .step 3 .run, .step 3 .ok, .step 3 .run ] := by
  decide

end DeadpoolVerif
