/-
C03 — abandoning get() at any suspension point is harmless.

Property theorems only; helper lemmas live in `Lemmas/`.
-/
import DeadpoolVerif.Lemmas.SoloStep
import DeadpoolVerif.Lemmas.Reach

namespace DeadpoolVerif

/-- the steps of operation `i` alone, with the given environment outcomes (any mixture of
run / ok / err / pending / panic / deadline / cancel) -/
def soloActs (i : Nat) (ocs : List Outcome) : List Action := ocs.map (Action.step i)

theorem SoloRel.tick {s0 s : State} {i : Nat} {t : Timeouts} {pc : GPc} (r : SoloRel s0 s i t pc)
    (n : Nat) : SoloRel s0 { s with now := n } i t pc :=
  ⟨r.ops, r.sem, r.users, r.out, r.idle, r.size, r.max, r.lock, r.cfg, r.nid⟩

theorem SoloDone.tick {s0 s : State} (d : SoloDone s0 s) (n : Nat) :
    SoloDone s0 { s with now := n } :=
  ⟨d.ops, d.sem, d.users, d.out, d.idle, d.size, d.max, d.lock, d.cfg, d.nid⟩

/-- where a solo run can be -/
inductive SoloAt (s0 s : State) (i : Nat) (t : Timeouts) : Prop
  | running (pc : GPc) (r : SoloRel s0 s i t pc)
  | done (d : SoloDone s0 s)
  | handedOut (o : Obj) (h : s.out = s0.out ++ [o]) (hd : s.ops[i]? = some .done)

theorem solo_run {s0 : State} {t : Timeouts} (w0 : s0.sem.WF)
    (hi : s0.ops.length ∉ s0.sem.waiting) :
    ∀ (ocs : List Outcome) (s s2 : State), Acct s → SoloAt s0 s s0.ops.length t →
      run? s (soloActs s0.ops.length ocs) = some s2 → SoloAt s0 s2 s0.ops.length t ∧ Acct s2 := by
  intro ocs
  induction ocs with
  | nil =>
    intro s s2 a at_ h
    simp only [soloActs, List.map_nil, run?, Option.some.injEq] at h
    subst h; exact ⟨at_, a⟩
  | cons oc ocs ih =>
    intro s s2 a at_ h
    simp only [soloActs, List.map_cons, run?] at h
    cases hst : step s (.step s0.ops.length oc) with
    | none => rw [hst] at h; simp at h
    | some s1 =>
      rw [hst] at h
      simp only [Option.bind_some] at h
      have a1 := step_acct a hst
      refine ih s1 s2 a1 ?_ h
      simp only [step, Option.map_eq_some_iff] at hst
      obtain ⟨s1', hs1, rfl⟩ := hst
      cases at_ with
      | running pc r =>
        have hop : s.ops[s0.ops.length]? = some (.get t pc) := by rw [r.ops]; exact getElem?_append_last
        have hsz : pc.sizeW ≤ s.size := by
          have := sumW_mem_le Op.sizeW _ _ _ hop
          have := a.siz
          simp only [Op.sizeW] at *
          omega
        simp only [stepOp, hop] at hs1
        cases solo_step w0 hi r hsz hs1 with
        | cont pc' r' => exact .running pc' (r'.tick _)
        | done d => exact .done (d.tick _)
        | handout o ho hd =>
          exact .handedOut o ho (by show s1'.ops[_]? = _; rw [hd]; exact getElem?_append_last)
      | done d =>
        have hop : s.ops[s0.ops.length]? = some .done := by rw [d.ops]; exact getElem?_append_last
        simp [stepOp, hop] at hs1
      | handedOut o ho hd =>
        simp [stepOp, hd] at hs1

theorem start_get_solo {s0 s1 : State} {t : Timeouts}
    (h : step s0 (.start (.get t)) = some s1) : SoloRel s0 s1 s0.ops.length t .enter := by
  simp only [step, startOp, Option.map_some, Option.some.injEq] at h
  subst h
  refine ⟨rfl, rfl, by simp [GPc.usersW], rfl, List.Sublist.refl _, by simp [GPc.sizeW], rfl, rfl, rfl,
    Nat.le_refl _⟩

theorem idCnt_sublist {l₁ l₂ : List Obj} (h : l₁.Sublist l₂) (id : Nat) : idCnt id l₁ ≤ idCnt id l₂ := by
  induction h with
  | slnil => simp
  | cons a _ ih => simp only [idCnt_cons]; omega
  | cons_cons a _ ih => simp only [idCnt_cons]; omega

/-- the outcome of a solo get() that ended without handing out an object -/
theorem solo_done {s0 s2 : State} {t : Timeouts} {ocs : List Outcome} (r0 : Reach s0)
    (h : run? s0 (.start (.get t) :: soloActs s0.ops.length ocs) = some s2)
    (hdone : s2.ops[s0.ops.length]? = some .done) (hout : s2.out = s0.out) : SoloDone s0 s2 := by
  have hi : s0.ops.length ∉ s0.sem.waiting := by
    intro hw
    obtain ⟨op, h1, _⟩ := r0.link.waiters _ hw
    simp at h1
  simp only [run?] at h
  cases hst : step s0 (.start (.get t)) with
  | none => rw [hst] at h; simp at h
  | some s1 =>
    rw [hst] at h
    simp only [Option.bind_some] at h
    have r1 := start_get_solo hst
    have a1 := step_acct r0.acct hst
    obtain ⟨at2, a2⟩ := solo_run r0.link.wf hi ocs s1 s2 a1 (.running .enter r1) h
    cases at2 with
    | running pc r =>
      have : s2.ops[s0.ops.length]? = some (.get t pc) := by rw [r.ops]; exact getElem?_append_last
      rw [hdone] at this; simp at this
    | handedOut o ho _ =>
      rw [hout] at ho
      have := congrArg List.length ho
      simp at this
    | done d => exact d

/-- **C03 (as if the call had never been made).** Take any reachable state `s0` (any
preceding history).  Start a get() there and let it run alone through *any* sequence of
environment outcomes — hooks and manager succeeding, failing, staying pending, timing out,
panicking, the caller dropping the future at any suspension point — for as long as one
likes.  If the call ends without handing out an object, then the pool is exactly as before,
except for the idle objects the call discarded:
the semaphore (permits, waiters, assigned tokens, closed flag) is *equal* to what it was — no
slot stays reserved and nobody is left waiting for it; `users` is equal; the objects in
callers' hands are the same; the idle queue is a sub-list of what it was; `size` dropped by
exactly the number of idle objects discarded (so `status()` reports the earlier figures,
reduced only by the objects discarded); `max_size` and the mutex are untouched. -/
theorem C03_as_if_never_called (s0 s2 : State) (r0 : Reach s0) (t : Timeouts) (ocs : List Outcome)
    (h : run? s0 (.start (.get t) :: soloActs s0.ops.length ocs) = some s2)
    (hdone : s2.ops[s0.ops.length]? = some .done) (hout : s2.out = s0.out) :
    s2.sem = s0.sem ∧ s2.users = s0.users ∧ s2.out = s0.out ∧ s2.idle.Sublist s0.idle ∧
    s2.size + (s0.idle.length - s2.idle.length) = s0.size ∧ s2.maxSize = s0.maxSize ∧
    s2.lock = s0.lock ∧ s2.ops = s0.ops ++ [.done] := by
  have d := solo_done r0 h hdone hout
  have hl := d.idle.length_le
  refine ⟨d.sem, d.users, d.out, d.idle, ?_, d.max, d.lock, d.ops⟩
  have := d.size
  omega

/-- the same for the state reached by any history from any configuration -/
theorem C03_as_if_never_called_run (cfg : Cfg) (acts : List Action) (t : Timeouts)
    (ocs : List Outcome) (s2 : State)
    (h : run? (run (init cfg) acts)
      (.start (.get t) :: soloActs (run (init cfg) acts).ops.length ocs) = some s2)
    (hdone : s2.ops[(run (init cfg) acts).ops.length]? = some .done)
    (hout : s2.out = (run (init cfg) acts).out) :
    s2.sem = (run (init cfg) acts).sem ∧ s2.users = (run (init cfg) acts).users ∧
    s2.status.2.1 + ((run (init cfg) acts).idle.length - s2.idle.length) =
      (run (init cfg) acts).status.2.1 ∧
    s2.status.1 = (run (init cfg) acts).status.1 := by
  obtain ⟨h1, h2, _, _, h5, h6, _, _⟩ :=
    C03_as_if_never_called _ s2 (reach_run cfg acts) t ocs h hdone hout
  refine ⟨h1, h2, ?_, ?_⟩
  · simp only [State.status]; split <;> split <;> simpa using h5
  · simp only [State.status]; split <;> split <;> simpa using h6

/-- **C03 (objects).** In the situation of `C03_as_if_never_called`: every object the call
took out of the idle queue and every object it created has been detached from the manager
exactly once during the call, is in nobody's hands, is not idle, and is gone for good (by
`Conserve` a gone id is never placed anywhere again, in particular never handed out). -/
theorem C03_discarded_detached_once (s0 s2 : State) (r0 : Reach s0) (t : Timeouts)
    (ocs : List Outcome)
    (h : run? s0 (.start (.get t) :: soloActs s0.ops.length ocs) = some s2)
    (hdone : s2.ops[s0.ops.length]? = some .done) (hout : s2.out = s0.out) (id : Nat)
    -- an idle object that disappeared, or an object created by the call
    (hcase : (idCnt id s0.idle = 1 ∧ idCnt id s2.idle = 0) ∨ (s0.nextId ≤ id ∧ id < s2.nextId)) :
    detachCnt id s2.log = detachCnt id s0.log + 1 ∧ goneCnt id s2.log = 1 ∧
    idCnt id s2.out = 0 ∧ idCnt id s2.idle = 0 ∧ sumW (Op.heldCnt id) s2.ops = 0 := by
  have d := solo_done r0 h hdone hout
  have c0 := r0.cons
  have c2 := (r0.run? _ h).cons
  have p0 := c0.place id
  have p2 := c2.place id
  have d0 := c0.detach id
  have d2 := c2.detach id
  have hs := idCnt_sublist d.idle id
  have held : sumW (Op.heldCnt id) s2.ops = sumW (Op.heldCnt id) s0.ops := by
    rw [d.ops]; simp [Op.heldCnt, Op.held]
  rw [held, hout] at p2
  rw [held, hout]
  have b1 := ltInd_le_one id s0.nextId
  have b2 := ltInd_le_one id s2.nextId
  have hn := d.nid
  rcases hcase with ⟨h1, h2⟩ | ⟨h1, h2⟩
  · have hlt : ltInd id s0.nextId = 1 := by omega
    have hlt0 : id < s0.nextId := by
      unfold ltInd at hlt; split at hlt
      · assumption
      · omega
    have hlt2 : ltInd id s2.nextId = 1 := by
      have : id < s2.nextId := by omega
      unfold ltInd; simp [this]
    omega
  · have hlt : ltInd id s0.nextId = 0 := by
      have : ¬ id < s0.nextId := by omega
      unfold ltInd; simp [this]
    have hlt2 : ltInd id s2.nextId = 1 := by unfold ltInd; simp [h2]
    omega

/-! Non-vacuity: a get() that rejects the idle object, creates a new one, is suspended in a
`post_create` hook and is then cancelled. -/

def C03_demo_cfg : Cfg := { maxSize := 2, postC := [true] }

def C03_demo_prefix : List Action :=
  let g : Spec := .get {}
  [ .start g, .step 0 .run, .step 0 .run, .step 0 .run, .step 0 .ok, .step 0 .run, .step 0 .ok,
    .start (.ret 0), .step 1 .run, .step 1 .run, .step 1 .run ]

def C03_demo_ocs : List Outcome :=
  [.run, .run, .run, .err, .run, .run, .run, .ok, .run, .pending, .cancel, .run, .run, .run, .run]

example : (run? (run (init C03_demo_cfg) C03_demo_prefix)
    (.start (.get {}) :: soloActs 2 C03_demo_ocs)).isSome = true := by decide
example : ((run? (run (init C03_demo_cfg) C03_demo_prefix)
    (.start (.get {}) :: soloActs 2 C03_demo_ocs)).map (fun s => (s.ops[2]?, s.out, s.idle, s.size))) =
    some (some .done, [], [], 0) := by decide
example : (run (init C03_demo_cfg) C03_demo_prefix).idle.length = 1 := by decide

end DeadpoolVerif
