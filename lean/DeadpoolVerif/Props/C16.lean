/-
C16 — Postgres pool: health checks, statement cache and cache registry are exact.

Property theorems only.  (`C16_recycling_queries` — which query each recycling method issues —
is in `Props/C18.lean` next to the config model it belongs to.)
-/
import DeadpoolVerif.Lemmas.PgPool
import DeadpoolVerif.Lemmas.SyncPools
import DeadpoolVerif.Lemmas.Reach
import DeadpoolVerif.Props.C04
import DeadpoolVerif.Props.C18

namespace DeadpoolVerif
namespace PgP

/-- **C16 (health check).** A closed client is never accepted and nothing is sent for it; an
open one is sent exactly the method's query (nothing for `Fast`) and is accepted exactly when
there is no query or the query succeeded — a server-side error or a disconnect rejects it. -/
theorem C16_recycle_decides (closed : Bool) (m : Pg.RecyclingMethod) (r : QueryReply) :
    (closed = true → recycle closed m r = (none, false)) ∧
    (closed = false → (recycle closed m r).1 = m.query) ∧
    ((recycle closed m r).2 = true ↔ closed = false ∧ (m.query = none ∨ r = .ok)) := by
  cases closed <;> cases hq : m.query <;> cases r <;> simp [recycle, hq]

/-- in the pool, only an accepted client is handed out again (`C04_handout_requires_all_ok`);
a rejected one is discarded and replaced (`C04_recycle_failure_discards`) -/
theorem C16_closed_never_reissued (closed : Bool) (m : Pg.RecyclingMethod) (r : QueryReply)
    (h : closed = true) : (recycle closed m r).2 = false := by simp [recycle, h]

/-- **C16 (never reissued, all histories).** Let `unfit id n` say that client `id` was unfit —
its connection closed, or its check query failing — by the end of its `n`-th hand-out.  In every
history of the pool (any interleaving, any outcomes) in which `Manager::recycle` is never
answered `Ok` for an unfit client — which is what `C16_recycle_decides` says of this manager —
no hand-out is the `(n+1)`-th hand-out of such a client. -/
theorem C16_unfit_never_reissued (cfg : Cfg) (unfit : SP.Spoiled) (acts : List Action)
    (h : SP.Honest unfit (init cfg) acts) (i : Nat) (o : Obj)
    (ho : Ev.handout i o ∈ (run (init cfg) acts).log) (hn : 1 < o.handouts) :
    unfit o.id (o.handouts - 1) = false :=
  ((SP.J.init unfit cfg).run h).log _ ho hn

/-- **C16 (size = number of cached keys).** After any sequence of inserts (the second half of a
`prepare_typed`, whatever happened between its lookup and its insert), removes and clears — i.e.
under every interleaving of concurrent users of one client — `size()` is the number of entries,
no key is cached twice, and every cached statement was prepared on this connection for exactly
its key. -/
theorem C16_cache_exact (conn : Nat) (ops : List COp) :
    WF (ops.foldl Cache.apply { conn := conn }) :=
  (WF.new conn).run ops

/-- **C16 (a hit costs nothing).** If the key is cached, `prepare_typed` returns the cached
statement, makes no round trip to the server and leaves the cache as it is. -/
theorem C16_hit_no_roundtrip (c : Cache) (next : Nat) (k : Key) (st : Stmt) (h : c.get k = some st) :
    c.prepareTyped next k = (c, st, 0) := by
  simp [Cache.prepareTyped, h]

/-- **C16 (a miss prepares once and caches).** If the key is not cached, exactly one statement
is prepared on the server, for this key on this connection; it is returned and cached; `size()`
grows by one; every other key keeps what it had. -/
theorem C16_miss_prepares (c : Cache) (next : Nat) (k : Key) (h : c.get k = none) :
    (c.prepareTyped next k).2.1 = { conn := c.conn, key := k, serial := next } ∧
    (c.prepareTyped next k).2.2 = 1 ∧
    (c.prepareTyped next k).1.get k = some { conn := c.conn, key := k, serial := next } ∧
    (c.prepareTyped next k).1.size = c.size + 1 ∧
    (∀ k', k' ≠ k → (c.prepareTyped next k).1.get k' = c.get k') := by
  have hp : c.prepareTyped next k =
      ({ c with map := c.map ++ [(k, { conn := c.conn, key := k, serial := next })], size := c.size + 1 },
       { conn := c.conn, key := k, serial := next }, 1) := by
    simp [Cache.prepareTyped, h, Cache.insert]
  rw [hp]
  refine ⟨rfl, rfl, ?_, rfl, ?_⟩
  · simp only [Cache.get, lookup_append] at h ⊢
    simp [h, lookup]
  · intro k' hne
    simp only [Cache.get, lookup_append]
    have : ¬ k = k' := fun x => hne x.symm
    simp [lookup, this]

/-- **C16 (the right statement).** In a well-formed cache whatever `prepare_typed` returns was
prepared on this very connection for exactly this query text and these parameter types. -/
theorem C16_returned_matches_key (c : Cache) (hwf : WF c) (next : Nat) (k : Key) :
    (c.prepareTyped next k).2.1.key = k ∧ (c.prepareTyped next k).2.1.conn = c.conn := by
  unfold Cache.prepareTyped
  cases h : c.get k with
  | none => exact ⟨rfl, rfl⟩
  | some st => exact hwf.own _ (lookup_mem k c.map st h)

/-- keys that differ only in their parameter types are different keys: caching one does not
answer for the other -/
theorem C16_types_distinguish (c : Cache) (q : String) (t₁ t₂ : List Nat) (st : Stmt) (h : t₁ ≠ t₂) :
    (c.insert ⟨q, t₁⟩ st).get ⟨q, t₂⟩ = c.get ⟨q, t₂⟩ := by
  have hne : (⟨q, t₂⟩ : Key) ≠ ⟨q, t₁⟩ := by
    intro e; injection e with _ e2; exact h e2.symm
  unfold Cache.insert
  split
  · exact lookup_replace_ne _ _ _ _ hne
  · simp only [Cache.get, lookup_append]
    have : ¬ (⟨q, t₁⟩ : Key) = ⟨q, t₂⟩ := fun x => hne x.symm
    simp [lookup, this]

/-- `remove` and `clear` -/
theorem C16_remove_clear (c : Cache) (hwf : WF c) (k : Key) :
    (c.remove k).get k = none ∧ (∀ k', k' ≠ k → (c.remove k).get k' = c.get k') ∧
    ((c.get k).isSome → (c.remove k).size + 1 = c.size) ∧ ((c.get k) = none → c.remove k = c) ∧
    c.clear.size = 0 ∧ ∀ k', c.clear.get k' = none := by
  refine ⟨?_, ?_, ?_, ?_, rfl, fun _ => rfl⟩
  · unfold Cache.remove; split
    · exact lookup_erase_self k c.map hwf.nodup
    · rename_i h; simp only [Cache.get] at h ⊢
      cases hl : lookup k c.map with
      | none => rfl
      | some _ => simp [hl] at h
  · intro k' hne; unfold Cache.remove; split
    · exact lookup_erase_ne k k' c.map hne
    · rfl
  · intro h
    simp only [Cache.remove, h, if_true]
    have := erase_length k c.map h
    have hs := hwf.size
    show c.size - 1 + 1 = c.size
    omega
  · intro h; simp [Cache.remove, h]

/-- **C16 (the registry is exact).** In every reachable state of the pool the registered caches
are exactly those of the clients the pool owns — idle, checked out, or in the hands of an
operation — each once; a client that was taken, discarded after a failed check or hook,
removed by `retain`, or dropped by `resize` / `close` is not registered, so `clear()` and
`remove()` of the registry reach all of the pool's clients and no others. -/
theorem C16_registry_exact (cfg : Cfg) (acts : List Action) (id : Nat) :
    registered (run (init cfg) acts) id = true ↔
      idCnt id (run (init cfg) acts).idle + idCnt id (run (init cfg) acts).out +
        sumW (Op.heldCnt id) (run (init cfg) acts).ops = 1 := by
  have r := reach_run cfg acts
  generalize run (init cfg) acts = s at r ⊢
  have p := r.cons.place id
  have d := r.cons.detach id
  have b := ltInd_le_one id s.nextId
  have hz := detachCnt_zero_iff id s.log
  unfold registered
  simp only [Bool.and_eq_true, decide_eq_true_eq, Bool.not_eq_true']
  constructor
  · rintro ⟨hlt, hany⟩
    have h0 := hz.mpr hany
    have : ltInd id s.nextId = 1 := by simp [ltInd, hlt]
    omega
  · intro h1
    have hl : ltInd id s.nextId = 1 := by omega
    have hg : detachCnt id s.log = 0 := by omega
    refine ⟨?_, hz.mp hg⟩
    unfold ltInd at hl
    split at hl
    · assumption
    · omega

/-! Non-vacuity -/
example :
    let c0 : Cache := { conn := 3 }
    let (c1, s1, n1) := c0.prepareTyped 0 ⟨"SELECT $1", [23]⟩
    let (c2, s2, n2) := c1.prepareTyped 1 ⟨"SELECT $1", [25]⟩
    let (c3, s3, n3) := c2.prepareTyped 2 ⟨"SELECT $1", [23]⟩
    n1 = 1 ∧ n2 = 1 ∧ n3 = 0 ∧ s3 = s1 ∧ s2 ≠ s1 ∧ c3.size = 2 ∧ (c3.remove ⟨"SELECT $1", [23]⟩).size = 1 := by
  decide

end PgP
end DeadpoolVerif
