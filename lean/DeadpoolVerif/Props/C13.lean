/-
C13 — per-object metrics tell the truth.

Property theorems only; helper lemmas live in `Lemmas/`.
-/
import DeadpoolVerif.Lemmas.ObjInvStep
import DeadpoolVerif.Lemmas.LogMono
import DeadpoolVerif.Lemmas.MetLog

namespace DeadpoolVerif

/-- **C13 (recycle_count, recycled).** In every reachable state, for every object of the
pool wherever it is — idle, in a caller's hands, being returned or taken, or in the middle of
being recycled by a get(): `recycle_count` equals the number of times the object has been
handed out again after its first use (`hand-outs - 1`), the last-recycled instant is absent
exactly as long as `recycle_count = 0`, and `created ≤ recycled ≤ now`.  An object that
was just created and not yet handed out has `recycle_count = 0` and no recycled instant. -/
theorem C13_metrics_truthful (cfg : Cfg) (acts : List Action) :
    (∀ o ∈ (run (init cfg) acts).idle ++ (run (init cfg) acts).out,
      o.rc + 1 = o.handouts ∧ (o.recycled = none ↔ o.rc = 0) ∧
      o.created ≤ (run (init cfg) acts).now ∧
      ∀ r, o.recycled = some r → o.created ≤ r ∧ r ≤ (run (init cfg) acts).now) ∧
    (∀ op ∈ (run (init cfg) acts).ops, op.objOK (run (init cfg) acts).now) := by
  have v := run_objinv cfg acts
  refine ⟨?_, v.ops⟩
  intro o ho
  rcases List.mem_append.mp ho with h | h
  · obtain ⟨⟨h1, h2⟩, h3, _, h5⟩ := v.idle o h
    exact ⟨h1.symm, h2, h3, h5⟩
  · obtain ⟨⟨h1, h2⟩, h3, _, h5⟩ := v.out o h
    exact ⟨h1.symm, h2, h3, h5⟩

/-- **C13 (what callbacks and callers see).** Every metrics value that was ever shown to
user code — to a `pre_recycle` hook, `Manager::recycle`, a `post_recycle` hook, a retain
predicate, or returned with the object (`Object::metrics`) — satisfies `recycle_count =
hand-outs - 1` *for the hand-outs that had happened when it was shown*: hooks and the recycle
check see the values of the previous hand-out (the count is bumped only by the hand-out
itself), `post_create` hooks see a fresh object (`recycle_count = 0`, no recycled instant). -/
theorem C13_shown_metrics (cfg : Cfg) (acts : List Action) :
    ∀ e ∈ (run (init cfg) acts).log, e.metricsOK :=
  (run_objinv cfg acts).log

/-- the bump happens exactly at the hand-out that follows a complete successful recycle:
count + 1, recycled := now (never backwards: `recycled ≤ now` before), created unchanged -/
theorem C13_bump_at_handout (s : State) (i : Nat) (t : Timeouts) (k : Nat) (o : Obj) (susp : Bool)
    (hk : ¬ k + 1 < s.cfg.nRecycle) :
    stepGet s i t (.recycling k o susp) .ok =
      some (handOut s i { o with rc := o.rc + 1, recycled := some s.now }) := by
  simp [stepGet, hk]

/-- a rejected, failed or cancelled recycle never changes the metrics: the object goes down
the discard path as it was -/
theorem C13_no_bump_on_failure (s s' : State) (i : Nat) (t : Timeouts) (k : Nat) (o : Obj)
    (susp : Bool) (oc : Outcome) (hoc : oc ≠ .ok) (h : stepGet s i t (.recycling k o susp) oc = some s') :
    s'.out = s.out ∧ (s'.ops = s.ops.set i (.get t (.recycling k o true)) ∨
      ∃ c, s'.ops = s.ops.set i (.get t (.unreadyLock o c))) := by
  cases oc <;> simp only [stepGet] at h
  all_goals first | (simp at h; done) | (exact absurd rfl hoc) | skip
  all_goals repeat' split at h
  all_goals first | (simp at h; done) | skip
  all_goals (simp only [Option.some.injEq] at h; subst h)
  all_goals first
    | exact ⟨rfl, Or.inl rfl⟩
    | exact ⟨rfl, Or.inr ⟨_, rfl⟩⟩

/-- the object put back by a return is the object the caller held, metrics untouched
(`retain` therefore sees what `Object::metrics()` last reported) -/
theorem C13_return_keeps_metrics (s s' : State) (i : Nat) (o : Obj) (hl : s.lockFree i = true)
    (hsz : s.size ≤ s.maxSize) (h : stepRet s i .lock o = some s') :
    ∃ o', s'.idle = s.idle ++ [o'] ∧ o'.id = o.id ∧ o'.rc = o.rc ∧ o'.created = o.created ∧
      o'.recycled = o.recycled := by
  simp only [stepRet, hl, Bool.not_true, Bool.false_eq_true, if_false, hsz, if_true,
    Option.some.injEq] at h
  subst h
  exact ⟨_, rfl, rfl, rfl, rfl, rfl⟩

/-! Non-vacuity: an object handed out three times has recycle_count 2 -/
example : ({ id := 0, created := 3, recycled := some 40, rc := 2, handouts := 3 } : Obj).used := by
  simp [Obj.used]

/-- **C13 (the accessors tell the same story as the fields).** For every idle or handed-out
object of every reachable state, read at the current instant: `age()` is exactly the time
since `created` (no underflow: `created ≤ now`), `last_used()` is the time since `recycled`
and never exceeds `age()`, and before the first reuse the two coincide. -/
theorem C13_accessors (cfg : Cfg) (acts : List Action) :
    ∀ o ∈ (run (init cfg) acts).idle ++ (run (init cfg) acts).out,
      o.age (run (init cfg) acts).now + o.created = (run (init cfg) acts).now ∧
      o.lastUsed (run (init cfg) acts).now ≤ o.age (run (init cfg) acts).now ∧
      (o.recycled = none → o.lastUsed (run (init cfg) acts).now = o.age (run (init cfg) acts).now) ∧
      (∀ r, o.recycled = some r →
        o.lastUsed (run (init cfg) acts).now + r = (run (init cfg) acts).now) := by
  intro o ho
  obtain ⟨_, _, h3, h4⟩ := (C13_metrics_truthful cfg acts).1 o ho
  refine ⟨?_, ?_, ?_, ?_⟩
  · unfold Obj.age; omega
  · unfold Obj.age Obj.lastUsed
    cases hr : o.recycled with
    | none => simp
    | some r =>
      have := (h4 r hr).1
      simp only [Option.getD_some]
      omega
  · intro hn; unfold Obj.age Obj.lastUsed; simp [hn]
  · intro r hr
    have := (h4 r hr).2
    unfold Obj.lastUsed
    simp only [hr, Option.getD_some]
    omega

theorem mem_hoOf {x : Nat} {log : List Ev} {p : Obj} (h : p ∈ hoOf x log) :
    p.id = x ∧ ∃ i, Ev.handout i p ∈ log := by
  simp only [hoOf, List.mem_filterMap] at h
  obtain ⟨e, he, hp⟩ := h
  cases e with
  | handout i o =>
    simp only [Ev.hoObj] at hp
    split at hp
    · simp only [Option.some.injEq] at hp
      subst hp
      exact ⟨‹_›, i, he⟩
    · simp at hp
  | _ => simp [Ev.hoObj] at hp

/-- **C13 (read off the event log).** Take any history and any object id, and list the
hand-out events of that object in the order they were logged.  The `k`-th of them (counting
from 0) reports `recycle_count = k` — the number of times the object has been handed out again
after its first use — and a last-recycled instant that is absent exactly for `k = 0`; all of
them report the same creation instant; and the last-recycled instants never move backwards
along the list.  (The ghost counter `handouts` of `C13_metrics_truthful` is thereby shown to
be the real number of hand-out events.) -/
theorem C13_handouts_in_log (cfg : Cfg) (acts : List Action) (x : Nat) :
    (∀ k p, (hoOf x (run (init cfg) acts).log)[k]? = some p →
      p.id = x ∧ p.rc = k ∧ (p.recycled = none ↔ k = 0)) ∧
    (∀ p ∈ hoOf x (run (init cfg) acts).log, ∀ q ∈ hoOf x (run (init cfg) acts).log,
      p.created = q.created) ∧
    (hoOf x (run (init cfg) acts).log).Pairwise (fun p q => optLE p.recycled q.recycled) := by
  have m := run_metlog cfg acts
  have v := run_objinv cfg acts
  refine ⟨?_, m.created x, m.mono x⟩
  intro k p hk
  have hmem : p ∈ hoOf x (run (init cfg) acts).log := List.mem_of_getElem? hk
  obtain ⟨hid, i, hev⟩ := mem_hoOf hmem
  have hu : p.used := v.log _ hev
  have hh := m.idx x k p hk
  obtain ⟨h1, h2⟩ := hu
  have hrc : p.rc = k := by omega
  exact ⟨hid, hrc, by rw [h2, hrc]⟩

/-- **C13 (every live object agrees with the log).** In every reachable state, an object that
is idle or in a caller's hands has `recycle_count + 1` equal to the number of hand-out events
of its id in the log, the creation instant every one of those events reported, and a
last-recycled instant not earlier than any of them reported. -/
theorem C13_live_agrees_with_log (cfg : Cfg) (acts : List Action) :
    ∀ o ∈ (run (init cfg) acts).idle ++ (run (init cfg) acts).out,
      o.rc + 1 = (hoOf o.id (run (init cfg) acts).log).length ∧
      ∀ p ∈ hoOf o.id (run (init cfg) acts).log,
        p.created = o.created ∧ optLE p.recycled o.recycled := by
  intro o ho
  have m := run_metlog cfg acts
  have v := run_objinv cfg acts
  have hl : o ∈ (run (init cfg) acts).live := by
    rcases List.mem_append.mp ho with h | h
    · exact live_of_idle h
    · exact live_of_out h
  have hu : o.used := by
    rcases List.mem_append.mp ho with h | h
    · exact (v.idle o h).1
    · exact (v.out o h).1
  obtain ⟨a1, a2⟩ := m.live o hl
  exact ⟨by rw [← a1]; exact hu.1.symm, a2⟩

/-- not vacuous: an object handed out, returned and handed out again has two hand-out events,
the second with `recycle_count = 1` -/
example :
    let acts : List Action :=
      [ .start (.get {}), .step 0 .run, .step 0 .run, .step 0 .run, .step 0 .ok, .step 0 .run,
        .start (.ret 0), .step 1 .run, .step 1 .run, .step 1 .run,
        .start (.get {}), .step 2 .run, .step 2 .run, .step 2 .run, .step 2 .ok ]
    ((hoOf 0 (run (init { maxSize := 1 }) acts).log).map Obj.rc) = [0, 1] := by
  decide

end DeadpoolVerif
