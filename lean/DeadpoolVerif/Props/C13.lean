/-
C13 — per-object metrics tell the truth.

Property theorems only; helper lemmas live in `Lemmas/`.
-/
import DeadpoolVerif.Lemmas.ObjInvStep
import DeadpoolVerif.Lemmas.LogMono

namespace DeadpoolVerif

/-- **C13 (recycle_count, recycled).** In every reachable state, for every object of the
pool wherever it is — idle, in a caller's hands, being returned or taken, or in the middle of
being recycled by a get(): `recycle_count` equals the number of times the object has been
handed out again after its first use (`hand-outs - 1`), the last-recycled instant is absent
exactly as long as `recycle_count = 0`, and `created ≤ recycled ≤ now`.  An object that
was just created and not yet handed out has `recycle_count = 0` and no recycled instant. -/
theorem C13_metrics_truthful (cfg : Cfg) (acts : List Action) :
    (∀ o ∈ (run (init cfg) acts).idle ++ (run (init cfg) acts).out,
      o.rc + 1 = o.handouts ∧ (o.recycled = none ↔ o.rc = 0) ∧
      o.created ≤ (run (init cfg) acts).now ∧
      ∀ r, o.recycled = some r → o.created ≤ r ∧ r ≤ (run (init cfg) acts).now) ∧
    (∀ op ∈ (run (init cfg) acts).ops, op.objOK (run (init cfg) acts).now) := by
  have v := run_objinv cfg acts
  refine ⟨?_, v.ops⟩
  intro o ho
  rcases List.mem_append.mp ho with h | h
  · obtain ⟨⟨h1, h2⟩, h3, _, h5⟩ := v.idle o h
    exact ⟨h1.symm, h2, h3, h5⟩
  · obtain ⟨⟨h1, h2⟩, h3, _, h5⟩ := v.out o h
    exact ⟨h1.symm, h2, h3, h5⟩

/-- **C13 (what callbacks and callers see).** Every metrics value that was ever shown to
user code — to a `pre_recycle` hook, `Manager::recycle`, a `post_recycle` hook, a retain
predicate, or returned with the object (`Object::metrics`) — satisfies `recycle_count =
hand-outs - 1` *for the hand-outs that had happened when it was shown*: hooks and the recycle
check see the values of the previous hand-out (the count is bumped only by the hand-out
itself), `post_create` hooks see a fresh object (`recycle_count = 0`, no recycled instant). -/
theorem C13_shown_metrics (cfg : Cfg) (acts : List Action) :
    ∀ e ∈ (run (init cfg) acts).log, e.metricsOK :=
  (run_objinv cfg acts).log

/-- the bump happens exactly at the hand-out that follows a complete successful recycle:
count + 1, recycled := now (never backwards: `recycled ≤ now` before), created unchanged -/
theorem C13_bump_at_handout (s : State) (i : Nat) (t : Timeouts) (k : Nat) (o : Obj) (susp : Bool)
    (hk : ¬ k + 1 < s.cfg.nRecycle) :
    stepGet s i t (.recycling k o susp) .ok =
      some (handOut s i { o with rc := o.rc + 1, recycled := some s.now }) := by
  simp [stepGet, hk]

/-- a rejected, failed or cancelled recycle never changes the metrics: the object goes down
the discard path as it was -/
theorem C13_no_bump_on_failure (s s' : State) (i : Nat) (t : Timeouts) (k : Nat) (o : Obj)
    (susp : Bool) (oc : Outcome) (hoc : oc ≠ .ok) (h : stepGet s i t (.recycling k o susp) oc = some s') :
    s'.out = s.out ∧ (s'.ops = s.ops.set i (.get t (.recycling k o true)) ∨
      ∃ c, s'.ops = s.ops.set i (.get t (.unreadyLock o c))) := by
  cases oc <;> simp only [stepGet] at h
  all_goals first | (simp at h; done) | (exact absurd rfl hoc) | skip
  all_goals repeat' split at h
  all_goals first | (simp at h; done) | skip
  all_goals (simp only [Option.some.injEq] at h; subst h)
  all_goals first
    | exact ⟨rfl, Or.inl rfl⟩
    | exact ⟨rfl, Or.inr ⟨_, rfl⟩⟩

/-- the object put back by a return is the object the caller held, metrics untouched
(`retain` therefore sees what `Object::metrics()` last reported) -/
theorem C13_return_keeps_metrics (s s' : State) (i : Nat) (o : Obj) (hl : s.lockFree i = true)
    (hsz : s.size ≤ s.maxSize) (h : stepRet s i .lock o = some s') :
    ∃ o', s'.idle = s.idle ++ [o'] ∧ o'.id = o.id ∧ o'.rc = o.rc ∧ o'.created = o.created ∧
      o'.recycled = o.recycled := by
  simp only [stepRet, hl, Bool.not_true, Bool.false_eq_true, if_false, hsz, if_true,
    Option.some.injEq] at h
  subst h
  exact ⟨_, rfl, rfl, rfl, rfl, rfl⟩

/-! Non-vacuity: an object handed out three times has recycle_count 2 -/
example : ({ id := 0, created := 3, recycled := some 40, rc := 2, handouts := 3 } : Obj).used := by
  simp [Obj.used]

end DeadpoolVerif
