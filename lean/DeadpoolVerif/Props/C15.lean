/-
C15 — a connection whose interaction panicked or broke is never reissued.

Property theorems only.  The pools built on `SyncWrapper` are the managed pool (all of C01–C13
applies to them verbatim) with a `Manager::recycle` that inspects the connection.
-/
import DeadpoolVerif.Lemmas.SyncPools
import DeadpoolVerif.Lemmas.SoloRun
import DeadpoolVerif.Props.C04

namespace DeadpoolVerif
namespace SP

/-- **C15 (what the three managers decide).** `recycle` rejects a poisoned wrapper (all three,
before anything is sent to the blocking pool), a connection the backend reports as broken
(r2d2 `has_broken`, diesel's broken transaction manager) and a connection failing its validity
check (sqlite's round trip, r2d2 `is_valid`, diesel's ping with `Verified`); it accepts a
connection with nothing wrong. -/
theorem C15_recycle_decides (k : Kind) (m : DieselMethod) (c : Conn) :
    (c.poisoned = true → recycleOk k m c = false ∧ checks k m c = []) ∧
    (c.broken = true → k ≠ .sqlite → recycleOk k m c = false) ∧
    (c.invalid = true → (k = .diesel → m = .verified) → recycleOk k m c = false) ∧
    (c.spoiled = false → recycleOk k m c = true) := by
  cases k <;> cases m <;> cases c with
  | mk p b i => cases p <;> cases b <;> cases i <;> simp [recycleOk, checks, Check.passes, Conn.spoiled]

/-- r2d2: `is_valid` is consulted only when `has_broken` said no, `has_broken` always first -/
theorem C15_r2d2_check_order (m : DieselMethod) (c : Conn) (h : c.poisoned = false) :
    checks .r2d2 m c = if c.broken then [.hasBroken] else [.hasBroken, .isValid] := by
  simp [checks, h]

/-- **C15 (never reissued).** Let `spoiled id n` say that connection `id` was spoiled (a closure
panicked on it, it broke, it fails its check) by the end of its `n`-th hand-out, and let the
environment answer `Manager::recycle` honestly: never `Ok` for a spoiled connection.  Then in
every history — any interleaving of gets, returns, takes, resizes, retains, cancellations, hook
and manager outcomes — no hand-out is the `(n+1)`-th hand-out of a connection spoiled by the end
of its `n`-th. -/
theorem C15_spoiled_never_reissued (cfg : Cfg) (sp : Spoiled) (acts : List Action)
    (h : Honest sp (init cfg) acts) (i : Nat) (o : Obj)
    (ho : Ev.handout i o ∈ (run (init cfg) acts).log) (hn : 1 < o.handouts) :
    sp o.id (o.handouts - 1) = false :=
  ((J.init sp cfg).run h).log _ ho hn

/-- the same for the connections in callers' hands: whatever is checked out has passed an
honest check after every earlier use — stated on the log because `out` holds exactly the
objects of `handout` events -/
theorem C15_spoiled_never_reissued' (cfg : Cfg) (sp : Spoiled) (acts : List Action)
    (h : Honest sp (init cfg) acts) (n : Nat) (id : Nat) (hsp : sp id n = true) (hn : 0 < n) :
    ∀ i o, Ev.handout i o ∈ (run (init cfg) acts).log → o.id = id → o.handouts ≠ n + 1 := by
  intro i o ho hid hh
  have := C15_spoiled_never_reissued cfg sp acts h i o ho (by omega)
  rw [hid, hh] at this
  simp [hsp] at this

/-- **C15 (discarded and replaced).** When `recycle` rejects the connection, the get that popped
it sends it down the discard path (exactly one `detach`, then destroyed, `size -= 1`) and goes
back to popping with the slot it already holds: it takes another idle connection or creates a
new one — the caller sees no error.  (`C04_recycle_failure_discards`, `C04_discard_path` and
`C04_discarded_never_reissued` are the general statements.) -/
theorem C15_rejected_is_replaced (s : State) (i : Nat) (t : Timeouts) (k : Nat) (o : Obj) (susp : Bool)
    (hl : s.lockFree i = true) :
    stepGet s i t (.recycling k o susp) .err = some (s.setOp i (.get t (.unreadyLock o .retry))) ∧
    stepGet s i t (.unreadyLock o .retry) .run =
      some ({ s with size := s.size - 1, fault := decFault s.fault s.size 1 }.setOp i
        (.get t (.unreadyDetach o .retry))) ∧
    stepGet s i t (.unreadyDetach o .retry) .run =
      some ((s.emit [.detach i o.id, .destroy i o.id]).setOp i (.get t .pop)) := by
  refine ⟨by simp [stepGet], by simp [stepGet, hl], by simp [stepGet]⟩

/-- **C15 (the driver of the correspondence check is covered).** What the sequential driver
does with one operation — start it and run it alone, `Manager::recycle` answered by the
manager's verdict `good` on the connection — is a run of the pool model (`run?` of an explicit
action list), and that history is honest for `spoiled id _ := ¬ good id`: the theorems above
apply to exactly the histories the differential run compares with the real pools. -/
theorem C15_driver_is_honest_run (good : Nat → Bool) (s s' : State) (spec : Spec) (i fuel : Nat)
    (h : solo (fun o => good o.id) s spec fuel = some (s', i)) :
    ∃ acts, run? s acts = some s' ∧ Honest (fun id _ => !good id) s acts := by
  unfold solo Solo.soloOp at h
  cases hst : step s (.start spec) with
  | none => simp [hst] at h
  | some s1 =>
    simp only [hst, Option.map_some, Option.some.injEq, Prod.mk.injEq] at h
    obtain ⟨h1, _⟩ := h
    refine ⟨.start spec :: Solo.soloActs (env fun o => good o.id) () s1 s.ops.length fuel, ?_, ?_⟩
    · simp only [run?, hst, Option.bind_some]
      rw [Solo.soloWith_run]; rw [← h1]
    · refine ⟨rfl, ?_⟩
      simp only [hst, Option.getD_some]
      exact Solo.soloActs_honest _ _ (Solo.sp_env_honest good) () s1 _ fuel

/-! Non-vacuity: a pool of one connection; the connection is handed out, spoiled, returned;
an honest manager rejects it and the next get receives a new connection (id 1), with the
pool's size and permits as before. -/
def exSpoiled : Spoiled := fun id n => id == 0 && decide (n ≥ 1)
def exActs : List Action :=
  [.start (.get {}), .step 0 .run, .step 0 .run, .step 0 .run, .step 0 .ok, .step 0 .run,   -- get: creates 0
   .start (.ret 0), .step 1 .run, .step 1 .run, .step 1 .run,                              -- return it
   .start (.get {}), .step 2 .run, .step 2 .run, .step 2 .run, .step 2 .err,               -- recycle says no
   .step 2 .run, .step 2 .run, .step 2 .run, .step 2 .ok, .step 2 .run]                    -- discard, create 1

example :
    Honest exSpoiled (init { maxSize := 1 }) exActs ∧
    ((run (init { maxSize := 1 }) exActs).out.map (·.id)) = [1] ∧
    (run (init { maxSize := 1 }) exActs).size = 1 ∧
    Ev.destroy 2 0 ∈ (run (init { maxSize := 1 }) exActs).log := by
  decide

end SP
end DeadpoolVerif
