/-
C18 — Postgres Config translation is total, complete and follows the override rules.

Property theorems only.  `base` is whatever `tokio_postgres::Config::from_str(url)` returned
(`none` = the url is invalid; `Config::new()` when no url is given), read back through the
getters: URL parsing itself is tokio-postgres'.
-/
import DeadpoolVerif.Model.PgConfig

namespace DeadpoolVerif
namespace Pg

@[simp] theorem orE_some {α : Type} (x : α) (b : Option α) : orE (some x) b = some x := rfl
@[simp] theorem orE_none {α : Type} (b : Option α) : orE none b = b := rfl
@[simp] theorem setIf_some {α : Type} (x cur : α) : setIf (some x) cur = x := rfl
@[simp] theorem setIf_none {α : Type} (cur : α) : setIf none cur = cur := rfl

/-- the database name that is in effect: the field unless empty, else the url's -/
def effDbname (b : PgCfg) (c : Config) : Option String := orE (nonEmpty c.dbname) b.dbname

/-- what `get_pg_config` returns when it succeeds -/
theorem getPgConfig_ok (b : PgCfg) (env : Option String) (c : Config) (r : PgCfg)
    (h : getPgConfig (some b) env c = .ok r) :
    ∃ d, effDbname b c = some d ∧ d ≠ "" ∧
    r = { user := effUser c.user b.user env
          password := orE c.password b.password
          dbname := some d
          options := orE c.options b.options
          appName := orE c.appName b.appName
          sslMode := setIf c.sslMode b.sslMode
          hosts := effHosts b.hosts c.host c.hosts
          hostaddrs := b.hostaddrs ++ c.hostaddr.toList ++ c.hostaddrs.getD []
          ports := b.ports ++ c.port.toList ++ c.ports.getD []
          connectTimeout := orE c.connectTimeout b.connectTimeout
          keepalives := setIf c.keepalives b.keepalives
          keepalivesIdle := setIf c.keepalivesIdle b.keepalivesIdle
          targetSessionAttrs := setIf c.targetSessionAttrs b.targetSessionAttrs
          channelBinding := setIf c.channelBinding b.channelBinding
          loadBalanceHosts := setIf c.loadBalanceHosts b.loadBalanceHosts } := by
  simp only [getPgConfig] at h
  split at h
  · simp at h
  · rename_i d hd
    split at h
    · simp at h
    · rename_i hne
      simp only [Except.ok.injEq] at h
      exact ⟨d, hd, hne, h.symm⟩

/-- **C18 (total).** For every `Config` value, every parsed or unparsable url and every
environment, `get_pg_config` returns exactly one of: `InvalidUrl` (iff the url does not
parse), `DbnameMissing` (iff neither the field (non-empty) nor the url names a database),
`DbnameEmpty` (iff the name in effect is the empty string), or a configuration. -/
theorem C18_total (base : Option PgCfg) (env : Option String) (c : Config) :
    (getPgConfig base env c = .error .invalidUrl ↔ base = none) ∧
    (∀ b, base = some b → (getPgConfig base env c = .error .dbnameMissing ↔ effDbname b c = none)) ∧
    (∀ b, base = some b → (getPgConfig base env c = .error .dbnameEmpty ↔ effDbname b c = some "")) ∧
    (∀ b, base = some b → (∃ d, effDbname b c = some d ∧ d ≠ "") → ∃ r, getPgConfig base env c = .ok r) := by
  refine ⟨?_, ?_, ?_, ?_⟩
  · cases base with
    | none => simp [getPgConfig]
    | some b =>
      simp only [getPgConfig, reduceCtorEq, iff_false]
      split
      · simp
      · split <;> simp
  · intro b hb; subst hb
    simp only [getPgConfig, effDbname]
    split
    · simp_all
    · rename_i d hd
      split <;> simp_all
  · intro b hb; subst hb
    simp only [getPgConfig, effDbname]
    split
    · simp_all
    · rename_i d hd
      split <;> simp_all
  · intro b hb ⟨d, hd, hne⟩; subst hb
    simp only [getPgConfig, effDbname] at *
    rw [hd]
    simp [hne]

/-- **C18 (every option that is set is in effect: scalar options override the url).** -/
theorem C18_scalar_override (b : PgCfg) (env : Option String) (c : Config) (r : PgCfg)
    (h : getPgConfig (some b) env c = .ok r) :
    (∀ v, c.user = some v → v ≠ "" → r.user = some v) ∧
    (∀ v, c.password = some v → r.password = some v) ∧
    (∀ v, c.dbname = some v → v ≠ "" → r.dbname = some v) ∧
    (∀ v, c.options = some v → r.options = some v) ∧
    (∀ v, c.appName = some v → r.appName = some v) ∧
    (∀ v, c.sslMode = some v → r.sslMode = v) ∧
    (∀ v, c.connectTimeout = some v → r.connectTimeout = some v) ∧
    (∀ v, c.keepalives = some v → r.keepalives = v) ∧
    (∀ v, c.keepalivesIdle = some v → r.keepalivesIdle = v) ∧
    (∀ v, c.targetSessionAttrs = some v → r.targetSessionAttrs = v) ∧
    (∀ v, c.channelBinding = some v → r.channelBinding = v) ∧
    (∀ v, c.loadBalanceHosts = some v → r.loadBalanceHosts = v) := by
  obtain ⟨d, hd, hne, rfl⟩ := getPgConfig_ok b env c r h
  refine ⟨?_, ?_, ?_, ?_, ?_, ?_, ?_, ?_, ?_, ?_, ?_, ?_⟩
  · intro v hv hn
    simp [effUser, hv, nonEmpty, Option.filter, hn]
  · intro v hv; simp [hv]
  · intro v hv hn
    simp only [effDbname, hv, nonEmpty, Option.filter] at hd
    simp [hn] at hd
    simp [hd]
  all_goals (intro v hv; simp [hv])

/-- options that are not set keep the url's value -/
theorem C18_unset_keeps_url (b : PgCfg) (env : Option String) (c : Config) (r : PgCfg)
    (h : getPgConfig (some b) env c = .ok r) :
    (c.password = none → r.password = b.password) ∧ (c.options = none → r.options = b.options) ∧
    (c.appName = none → r.appName = b.appName) ∧ (c.sslMode = none → r.sslMode = b.sslMode) ∧
    (c.connectTimeout = none → r.connectTimeout = b.connectTimeout) ∧
    (c.keepalives = none → r.keepalives = b.keepalives) ∧
    (c.keepalivesIdle = none → r.keepalivesIdle = b.keepalivesIdle) ∧
    (c.targetSessionAttrs = none → r.targetSessionAttrs = b.targetSessionAttrs) ∧
    (c.channelBinding = none → r.channelBinding = b.channelBinding) ∧
    (c.loadBalanceHosts = none → r.loadBalanceHosts = b.loadBalanceHosts) := by
  obtain ⟨d, hd, hne, rfl⟩ := getPgConfig_ok b env c r h
  refine ⟨?_, ?_, ?_, ?_, ?_, ?_, ?_, ?_, ?_, ?_⟩
  all_goals (intro hv; simp [hv])

/-- the user: an empty or absent field falls back to the url's user, and only if that is
absent or empty too to `$USER` -/
theorem C18_user (b : PgCfg) (env : Option String) (c : Config) (r : PgCfg)
    (h : getPgConfig (some b) env c = .ok r) :
    (nonEmpty c.user = none → ∀ u, nonEmpty b.user = some u → r.user = b.user) ∧
    (nonEmpty c.user = none → nonEmpty b.user = none → ∀ u, env = some u → r.user = some u) ∧
    (nonEmpty c.user = none → nonEmpty b.user = none → env = none → r.user = b.user) := by
  obtain ⟨d, hd, hne, rfl⟩ := getPgConfig_ok b env c r h
  refine ⟨?_, ?_, ?_⟩
  · intro h1 u h2; simp [effUser, h1, h2]
  · intro h1 h2 u h3; simp [effUser, h1, h2, h3]
  · intro h1 h2 h3; simp [effUser, h1, h2, h3]

/-- **C18 (hosts, host addresses and ports are the url's followed by the singular then the
plural field; the default socket directories are used only when no host is given).** -/
theorem C18_lists (b : PgCfg) (env : Option String) (c : Config) (r : PgCfg)
    (h : getPgConfig (some b) env c = .ok r) :
    (b.hosts ++ (c.host.toList.map mkHost) ++ ((c.hosts.getD []).map mkHost) ≠ [] →
      r.hosts = b.hosts ++ (c.host.toList.map mkHost) ++ ((c.hosts.getD []).map mkHost)) ∧
    (b.hosts ++ (c.host.toList.map mkHost) ++ ((c.hosts.getD []).map mkHost) = [] →
      r.hosts = defaultHosts) ∧
    r.hostaddrs = b.hostaddrs ++ c.hostaddr.toList ++ c.hostaddrs.getD [] ∧
    r.ports = b.ports ++ c.port.toList ++ c.ports.getD [] := by
  obtain ⟨d, hd, hne, rfl⟩ := getPgConfig_ok b env c r h
  refine ⟨?_, ?_, rfl, rfl⟩
  · intro hg
    simp only [effHosts]
    rw [if_neg]
    simpa [List.isEmpty_iff] using hg
  · intro hg
    simp only [effHosts]
    rw [if_pos]
    simpa [List.isEmpty_iff] using hg

/-- the recycling methods issue exactly their documented check -/
theorem C16_recycling_queries (s : String) :
    RecyclingMethod.fast.query = none ∧ RecyclingMethod.verified.query = some "" ∧
    RecyclingMethod.clean.query = some discardSql ∧ (RecyclingMethod.custom s).query = some s :=
  ⟨rfl, rfl, rfl, rfl⟩

/-! Non-vacuity -/
example : (getPgConfig (some {}) (some "me") { dbname := some "db", targetSessionAttrs := some "read_write" }).toOption.map
    (fun r => (r.user, r.dbname, r.hosts.length, r.targetSessionAttrs)) =
    some (some "me", some "db", 3, "read_write") := by
  decide

end Pg
end DeadpoolVerif
