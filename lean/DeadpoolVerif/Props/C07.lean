/-
C07 — resize() makes the new limit effective in both directions.

The pinned code does NOT satisfy the full property (genuine defect, recorded as a known
finding, see known_findings.txt / DESIGN.md): a shrink can only remove the capacity tokens
that happen to be free; the rest stays in circulation (ghost `debt`) and is only collected
when a surplus object comes back.  This file keeps the full-strength statement visible
(`C07Full`), proves its negation with two concrete histories that are also replayed on the
real code (`corpus/C07/*.trace`), and proves the part that does hold (`…_partial`): whenever
`debt = 0` the limit is effective, `debt` arises only from a shrink that under-collected,
growing adds exactly the requested capacity, waiters first.

Property theorems only; helper lemmas live in `Lemmas/`.
-/
import DeadpoolVerif.Lemmas.Reach
import DeadpoolVerif.Lemmas.GrowOnly
import DeadpoolVerif.Lemmas.NoResize

namespace DeadpoolVerif

/-- objects of the pool that exist or are being created -/
def State.liveN (s : State) : Nat := s.idle.length + s.out.length + sumW Op.objW s.ops

/-- no resize / close is in progress -/
def State.noResizeRunning (s : State) : Prop := ∀ op ∈ s.ops, Op.rzW op = 0 ∨ op = .done

/-- the action hands an object to a caller -/
def handsOut (s : State) (a : Action) : Bool :=
  match step s a with
  | some s' => s'.out.length == s.out.length + 1
  | none => false

instance (s : State) : Decidable s.noResizeRunning := by
  unfold State.noResizeRunning; infer_instance

/-- **C07, full strength (what the property demands).**  Whenever no resize is in
progress, no get() hands out an object while `max_size` or more objects are already in
callers' hands.  (`C07_full_is_false` shows this is false of the pinned code.) -/
def C07Full : Prop :=
  ∀ (cfg : Cfg) (acts : List Action) (a : Action),
    (run (init cfg) acts).noResizeRunning → handsOut (run (init cfg) acts) a = true →
    (run (init cfg) acts).out.length < (run (init cfg) acts).maxSize

/-- (a) `max_size 1`, nothing created yet, `resize(0)`; a zero-wait get then obtains an object -/
def C07_trace_a : List Action :=
  [ .start (.resize 0), .step 0 .run, .step 0 .run, .step 0 .run,
    .start (.get { wait := .zero }), .step 1 .run, .step 1 .run, .step 1 .run, .step 1 .ok ]

/-- (b) `max_size 2`, two objects out, `resize(1)`, `resize(2)`; a third object is admitted -/
def C07_trace_b : List Action :=
  let g : Spec := .get {}
  [ .start g, .step 0 .run, .step 0 .run, .step 0 .run, .step 0 .ok, .step 0 .run,
    .start g, .step 1 .run, .step 1 .run, .step 1 .run, .step 1 .ok, .step 1 .run,
    .start (.resize 1), .step 2 .run, .step 2 .run, .step 2 .run,
    .start (.resize 2), .step 3 .run, .step 3 .run, .step 3 .run,
    .start (.get { wait := .zero }), .step 4 .run, .step 4 .run, .step 4 .run, .step 4 .ok ]

/-- the pinned code violates the property: after `resize(0)` returned, a get is admitted
and a `create` is running although `max_size = 0` -/
theorem C07_witness_a :
    let s := run (init { maxSize := 1 }) C07_trace_a
    (run? (init { maxSize := 1 }) C07_trace_a).isSome = true ∧ s.maxSize = 0 ∧ s.liveN = 1 ∧
    s.debt = 1 ∧ s.noResizeRunning := by
  refine ⟨by decide, by decide, by decide, by decide, by decide⟩

theorem C07_witness_b :
    let s := run (init { maxSize := 2 }) (C07_trace_b ++ [.step 4 .run])
    (run? (init { maxSize := 2 }) (C07_trace_b ++ [.step 4 .run])).isSome = true ∧
    s.maxSize = 2 ∧ s.out.length = 3 ∧ s.noResizeRunning := by
  refine ⟨by decide, by decide, by decide, by decide⟩

/-- the full-strength property is false of the pinned code -/
theorem C07_full_is_false : ¬ C07Full := by
  intro h
  have := h { maxSize := 2 } C07_trace_b (.step 4 .run) (by decide) (by decide)
  revert this
  decide

/-- **C07 (partial — holds on the pinned code).**  In every reachable state the objects
that exist or are being created never exceed `max_size` plus the capacity a shrink could
not collect yet (`debt`); so whenever `debt = 0` — every shrink found enough free tokens,
or the surplus has come back since — the limit is effective for every admission. -/
theorem C07_live_le_max_plus_debt_partial (cfg : Cfg) (acts : List Action) :
    (run (init cfg) acts).liveN ≤ (run (init cfg) acts).maxSize + (run (init cfg) acts).debt := by
  have a := run_acct cfg acts
  have c := a.cov
  have t := a.tok
  simp only [State.liveN]
  omega

theorem C07_effective_when_collected_partial (cfg : Cfg) (acts : List Action)
    (h : (run (init cfg) acts).debt = 0) :
    (run (init cfg) acts).liveN ≤ (run (init cfg) acts).maxSize := by
  have := C07_live_le_max_plus_debt_partial cfg acts
  omega

/-- `status().max_size` is the target as soon as the resize has taken the mutex, and idle
objects are released front first, each detached, one per free token, while `size` exceeds
the new limit -/
theorem C07_max_size_set (s s' : State) (i n old : Nat) (hl : s.lock = none)
    (hc : s.sem.closed = false) (h : stepResize s i n false .lock old = some s') :
    s'.maxSize = n ∧ s'.debt = s.debt + (s.maxSize - n) := by
  simp only [stepResize, hl, hc, Bool.false_eq_true, if_false] at h
  repeat' split at h
  all_goals (simp only [Option.some.injEq] at h; subst h)
  all_goals exact ⟨rfl, rfl⟩

theorem C07_shrink_iteration (s s' : State) (i n old : Nat) (c : Bool) (o : Obj) (rest : List Obj)
    (hsz : s.size > s.maxSize) (hp : 0 < s.sem.permits) (hc : s.sem.closed = false)
    (hi : s.idle = o :: rest) (h : stepResize s i n c .shrink old = some s') :
    s'.idle = rest ∧ s'.size = s.size - 1 ∧ s'.sem.permits + 1 = s.sem.permits ∧
    s'.debt = s.debt - 1 ∧ s'.log = s.log ++ [.detach i o.id, .destroy i o.id] := by
  have hne : ¬ s.sem.permits = 0 := by omega
  simp only [stepResize, hsz, if_true, Sem.tryAcquire, hc, Bool.false_eq_true, if_false, hne, hi,
    Option.some.injEq] at h
  subst h
  refine ⟨rfl, rfl, ?_, rfl, rfl⟩
  simp only [State.emit]
  omega

/-- **C07 (grow is exact).** Growing by `k` hands exactly `k` tokens to the semaphore, the
longest-waiting callers first: `min k |queue|` waiters are woken at once, the rest becomes
free permits. -/
theorem C07_grow_exact (s s' : State) (i n old : Nat) (c : Bool)
    (h : stepResize s i n c .grow old = some s') :
    s'.sem = s.sem.addPermits (n - old) ∧
    s'.sem.tokens = s.sem.tokens + (n - old) ∧
    s'.sem.assigned = s.sem.assigned ++ s.sem.queue.take (min (n - old) s.sem.queue.length) ∧
    s'.sem.permits = s.sem.permits + ((n - old) - min (n - old) s.sem.queue.length) := by
  simp only [stepResize, Option.some.injEq] at h
  subst h
  exact ⟨rfl, Sem.addPermits_tokens _ _, rfl, rfl⟩

/-- **C07 (capacity at rest, partial).** When everything has finished and every object has
come back, the free capacity is `max_size` plus the uncollected `debt`; with `debt = 0`
the pool's capacity is exactly the last resize target. -/
theorem C07_capacity_at_rest_partial (cfg : Cfg) (acts : List Action)
    (hd : ∀ op ∈ (run (init cfg) acts).ops, op = Op.done) (ho : (run (init cfg) acts).out = []) :
    (run (init cfg) acts).sem.permits =
      (run (init cfg) acts).maxSize + (run (init cfg) acts).debt := by
  have a := run_acct cfg acts
  have l := run_link cfg acts
  generalize run (init cfg) acts = s at *
  have p0 : sumW Op.permW s.ops = 0 := sumW_zero _ _ (fun x hx => by rw [hd x hx]; rfl)
  have w : s.sem.waiting = [] := by
    apply List.eq_nil_iff_forall_not_mem.mpr
    intro j hj
    obtain ⟨op, h1, h2⟩ := l.waiters j hj
    have := hd op (List.mem_of_getElem? h1)
    subst this
    simp [Op.isQ] at h2
  simp only [Sem.waiting, List.append_eq_nil_iff] at w
  have t := a.tok
  simp only [Sem.tokens, w.2, ho, List.length_nil, p0] at t
  omega

/-- **C07 (growing is exact, full strength on histories that never shrink).** In every history
in which no `resize` lowers `max_size` and the pool is not closed — any number of grows and
no-op resizes, interleaved with anything — the limit is effective for every admission (live
objects never exceed the current `max_size`), and once everything has finished and every
object has come back the free capacity is exactly the last resize target. -/
theorem C07_grow_only_exact (cfg : Cfg) (acts : List Action) (h : GrowOnly (init cfg) acts) :
    (run (init cfg) acts).liveN ≤ (run (init cfg) acts).maxSize ∧
    ((∀ op ∈ (run (init cfg) acts).ops, op = Op.done) → (run (init cfg) acts).out = [] →
      (run (init cfg) acts).sem.permits = (run (init cfg) acts).maxSize) := by
  have d := run_debt_zero (init cfg) acts rfl h
  refine ⟨C07_effective_when_collected_partial cfg acts d, ?_⟩
  intro hd ho
  have := C07_capacity_at_rest_partial cfg acts hd ho
  omega

end DeadpoolVerif
