/-
C08 — reuse order follows the queue mode; creation is lazy; no background work.

Property theorems only; helper lemmas live in `Lemmas/`.
-/
import DeadpoolVerif.Lemmas.ObjInvStep
import DeadpoolVerif.Lemmas.LogMono

namespace DeadpoolVerif

/-- **C08 (the idle queue is ordered by idle time).** In every reachable state — however
returns, rejected objects, retain() calls, takes, resizes were interleaved before — the
idle queue lists the objects in the order in which they were returned: earlier positions
have been idle at least as long. -/
theorem C08_idle_ordered (cfg : Cfg) (acts : List Action) :
    (run (init cfg) acts).idle.Pairwise (fun a b => a.idleSince ≤ b.idleSince) :=
  (run_objinv cfg acts).sorted

theorem pairwise_head_le {l : List Obj} {o : Obj} {rest : List Obj}
    (h : l.Pairwise (fun a b => a.idleSince ≤ b.idleSince)) (hl : l = o :: rest) :
    ∀ x ∈ l, o.idleSince ≤ x.idleSince := by
  subst hl
  intro x hx
  rcases List.mem_cons.mp hx with rfl | hx'
  · exact Nat.le_refl _
  · exact (List.pairwise_cons.mp h).1 x hx'

/-- **C08 (Fifo offers the object idle longest, Lifo the one returned most recently).**
The object a get() takes out of the queue to try is, among all idle objects, one with the
smallest (Fifo) / largest (Lifo) return time. -/
theorem C08_queue_mode (cfg : Cfg) (acts : List Action) (o : Obj) (rest : List Obj)
    (hp : popIdle (run (init cfg) acts).cfg.mode (run (init cfg) acts).idle = some (o, rest)) :
    ((run (init cfg) acts).cfg.mode = .fifo → ∀ x ∈ (run (init cfg) acts).idle, o.idleSince ≤ x.idleSince) ∧
    ((run (init cfg) acts).cfg.mode = .lifo → ∀ x ∈ (run (init cfg) acts).idle, x.idleSince ≤ o.idleSince) := by
  have hs := C08_idle_ordered cfg acts
  generalize run (init cfg) acts = s at *
  constructor
  · intro hm
    rw [hm] at hp
    simp only [popIdle] at hp
    split at hp
    · simp only [Option.some.injEq, Prod.mk.injEq] at hp
      obtain ⟨rfl, rfl⟩ := hp
      exact pairwise_head_le hs ‹_›
    · simp at hp
  · intro hm
    rw [hm] at hp
    simp only [popIdle] at hp
    split at hp
    · rename_i heq
      simp only [Option.some.injEq, Prod.mk.injEq] at hp
      obtain ⟨rfl, rfl⟩ := hp
      obtain ⟨ys, hys⟩ := List.getLast?_eq_some_iff.mp heq
      rw [hys] at hs ⊢
      intro x hx
      rcases List.mem_append.mp hx with h1 | h1
      · exact (List.pairwise_append.mp hs).2.2 x h1 _ (by simp)
      · simp only [List.mem_singleton] at h1; subst h1; exact Nat.le_refl _
    · simp at hp

/-- a returned object goes to the back of the queue; nothing else is reordered -/
theorem C08_return_appends (s s' : State) (i : Nat) (o : Obj) (hl : s.lockFree i = true)
    (hsz : s.size ≤ s.maxSize) (h : stepRet s i .lock o = some s') :
    s'.idle = s.idle ++ [{ o with idleSince := s.now }] := by
  simp only [stepRet, hl, Bool.not_true, Bool.false_eq_true, if_false, hsz, if_true,
    Option.some.injEq] at h
  subst h; rfl

/-- **C08 (creation is lazy).** `Manager::create` is called only by the step of a get()
that just looked into the idle queue (under the mutex) and found it empty. -/
theorem C08_lazy_create (s s' : State) (i : Nat) (oc : Outcome)
    (h : stepOp s i oc = some s') (hc : ∃ j, Ev.createCall j ∈ s'.log ∧ Ev.createCall j ∉ s.log) :
    ∃ t, s.ops[i]? = some (.get t .pop) ∧ oc = .run ∧ s.idle = [] ∧
      s'.log = s.log ++ [.createCall i] := by
  obtain ⟨j, hin, hnot⟩ := hc
  unfold stepOp at h
  split at h
  · simp at h
  · rename_i op hop
    cases op with
    | get t pc =>
      simp only at h
      unfold stepGet at h
      simp only [arriveRecycle, arrivePostCreate, handOut, failPermit] at h
      repeat' split at h
      all_goals first | (simp at h; done) | skip
      all_goals (simp only [Option.some.injEq] at h; subst h)
      all_goals try (have t7 := popIdle_none ‹popIdle _ _ = none›)
      all_goals first
        | (exfalso; apply hnot; simpa [State.setOp, State.emit] using hin)
        | (refine ⟨t, hop, rfl, List.eq_nil_of_length_eq_zero t7, rfl⟩)
    | ret pc o =>
      simp only at h
      split at h
      · cases pc
        all_goals simp only [stepRet] at h
        all_goals repeat' split at h
        all_goals first | (simp at h; done) | skip
        all_goals (simp only [Option.some.injEq] at h; subst h)
        all_goals (exfalso; apply hnot; simpa [State.setOp, State.emit] using hin)
      · split at h
        · simp only [stepRetPanic, Option.some.injEq] at h; subst h
          exfalso; apply hnot; simpa [State.setOp, State.emit] using hin
        · simp at h
    | take pc o add =>
      simp only at h
      split at h
      · cases pc
        all_goals simp only [stepTake] at h
        all_goals repeat' split at h
        all_goals first | (simp at h; done) | skip
        all_goals (simp only [Option.some.injEq] at h; subst h)
        all_goals (exfalso; apply hnot; simpa [State.setOp, State.emit] using hin)
      · split at h
        · simp only [stepTakePanic, Option.some.injEq] at h; subst h
          exfalso; apply hnot; simpa [State.setOp, State.emit] using hin
        · simp at h
    | resize n c pc old =>
      simp only at h
      split at h
      · cases pc
        all_goals simp only [stepResize, finishResize] at h
        all_goals repeat' split at h
        all_goals first | (simp at h; done) | skip
        all_goals (simp only [Option.some.injEq] at h; subst h)
        all_goals first
          | (exfalso; apply hnot; simpa [State.setOp, State.emit] using hin)
          | (-- close(): the drained objects are detached and destroyed, nothing is created
             exfalso; apply hnot
             simp only [State.setOp, State.emit, List.mem_append, List.mem_cons, List.not_mem_nil,
               or_false, reduceCtorEq] at hin
             rcases hin with h1 | h1
             · exact h1
             · exfalso
               have : ∀ l, Ev.createCall j ∉ drainEvs i l := by
                 intro l
                 induction l with
                 | nil => simp [drainEvs]
                 | cons o rest ih => simp [drainEvs, ih]
               exact this _ h1)
      · simp at h
    | retain keep =>
      simp only at h
      split at h
      · unfold stepRetain at h
        split at h
        · simp at h
        · simp only [Option.some.injEq] at h; subst h
          exfalso; apply hnot
          simp only [State.setOp, State.emit, List.mem_append, List.mem_cons, List.not_mem_nil,
            or_false, reduceCtorEq] at hin
          rcases hin with h1 | h1
          · exact h1
          · exfalso
            have : ∀ k l, Ev.createCall j ∉ retainEvs i keep k l := by
              intro k l
              induction l generalizing k with
              | nil => simp [retainEvs]
              | cons o rest ih =>
                simp only [retainEvs]
                split <;> simp [ih]
            exact this _ _ h1
      · simp at h
    | status =>
      simp only at h
      split at h
      · unfold stepStatus at h
        split at h
        · simp at h
        · simp only [Option.some.injEq] at h; subst h
          exfalso; apply hnot; simpa [State.setOp, State.emit] using hin
      · simp at h
    | done => simp at h

/-- **C08 (building a pool calls nothing; nothing happens in the background).** The log of
a freshly built pool is empty, and the log only ever grows by the events of a step of some
get / return / take / retain / resize / close / status operation: there is no transition
without an operation. -/
theorem C08_no_background (cfg : Cfg) :
    (init cfg).log = [] ∧ (run (init cfg) []).log = [] ∧
    (∀ s a s', step s a = some s' → ∃ es, s'.log = s.log ++ es) ∧
    (∀ s sp s', startOp s sp = some s' → s'.log = s.log) := by
  refine ⟨rfl, rfl, fun s a s' h => step_log h, ?_⟩
  intro s sp s' h
  cases sp
  all_goals simp only [startOp] at h
  all_goals repeat' split at h
  all_goals first | (simp at h; done) | skip
  all_goals (simp only [Option.some.injEq] at h; subst h; rfl)

end DeadpoolVerif
