/-
C05 — the unmanaged pool conserves its objects and respects max_size.

Property theorems only; helper lemmas live in `Lemmas/`.
-/
import DeadpoolVerif.Lemmas.UConserve
import DeadpoolVerif.Lemmas.USemWF

namespace DeadpoolVerif
namespace U

/-- the configuration never changes -/
theorem step_cfg {s0 s1 : State} {a : Action} (hst : step s0 a = some s1) : s1.cfg = s0.cfg := by
  cases a with
  | start sp =>
    simp only [step] at hst
    cases sp <;> simp only [startOp] at hst
    all_goals repeat' split at hst
    all_goals first | (simp at hst; done) | skip
    all_goals (simp only [Option.some.injEq] at hst; subst hst; rfl)
  | step i oc =>
    simp only [step, stepOp] at hst
    split at hst
    · simp at hst
    · rename_i op h
      cases op with
      | get wt t r pc =>
        simp only at hst
        cases t <;> cases r <;> cases pc <;> cases oc <;> simp only [stepGet, finishGet, failGet] at hst
        all_goals first | (simp at hst; done) | skip
        all_goals repeat' split at hst
        all_goals first | (simp at hst; done) | skip
        all_goals try (exact absurd trivial ‹¬True›)
        all_goals (simp only [Option.some.injEq] at hst; subst hst; rfl)
      | add id t pc =>
        simp only at hst
        cases t <;> cases pc <;> cases oc <;> simp only [stepAdd, clear] at hst
        all_goals first | (simp at hst; done) | skip
        all_goals repeat' split at hst
        all_goals first | (simp at hst; done) | skip
        all_goals (simp only [Option.some.injEq] at hst; subst hst; rfl)
      | ret id pc =>
        simp only at hst
        split at hst
        · cases pc <;> simp only [stepRet, clear] at hst
          all_goals repeat' split at hst
          all_goals (simp only [Option.some.injEq] at hst; subst hst; rfl)
        · simp at hst
      | take id pc v =>
        simp only at hst
        split at hst
        · cases pc <;> simp only [stepTake] at hst
          all_goals (simp only [Option.some.injEq] at hst; subst hst; rfl)
        · simp at hst
      | close pc =>
        simp only at hst
        split at hst
        · cases pc <;> simp only [stepClose, clear] at hst
          all_goals (simp only [Option.some.injEq] at hst; subst hst; rfl)
        · simp at hst
      | status =>
        simp only at hst
        split at hst
        · simp only [Option.some.injEq] at hst; subst hst; rfl
        · simp at hst
      | done => simp at hst

theorem run_cfg (s0 : State) (acts : List Action) : (run s0 acts).cfg = s0.cfg := by
  induction acts generalizing s0 with
  | nil => rfl
  | cons a acts ih =>
    rw [run_cons, ih]
    cases hst : step s0 a with
    | none => rfl
    | some s1 => simp only [Option.getD_some]; exact step_cfg hst

/-- **C05 (conservation).** For every pool built by `new` / `from_config` (`initial = 0`)
or from an iterator (`initial` objects), after any history of get / try_get / timeout_get /
add / try_add / remove* / take / return / close by any number of tasks under any thread-level
interleaving, with cancellations: every object id that was ever added is in exactly one
place — in the queue, in exactly one caller's hands, handed back to a caller for good (remove,
take, refused or cancelled add), in the hands of exactly one operation, or dropped by the
pool — never in two places, never nowhere; an id that was not added yet is nowhere; and as
long as the pool is open nothing has been dropped. -/
theorem C05_conservation (cfg : Cfg) (hc : cfg.initial ≤ cfg.maxSize) (acts : List Action) (id : Nat) :
    natCnt id (run (init cfg) acts).queue + natCnt id (run (init cfg) acts).hands +
      natCnt id (run (init cfg) acts).returned + natCnt id (run (init cfg) acts).dropped +
      sumW (Op.heldCnt id) (run (init cfg) acts).ops = ltInd id (run (init cfg) acts).nextId ∧
    ltInd id (run (init cfg) acts).nextId ≤ 1 ∧
    ((run (init cfg) acts).sem.closed = false → (run (init cfg) acts).dropped = []) := by
  have c := (run_conserve cfg acts).place id
  have a := run_acct cfg hc acts
  refine ⟨c.symm, ltInd_le_one _ _, ?_⟩
  intro ho
  have := (a.open_ ho).2.1
  exact List.eq_nil_of_length_eq_zero this

/-- **C05 (never more than max_size objects).** The objects the pool holds or has lent out —
queued, in callers' hands, or in flight inside an operation — never exceed `size`, and
`size` never exceeds `max_size`. -/
theorem C05_le_max (cfg : Cfg) (hc : cfg.initial ≤ cfg.maxSize) (acts : List Action) :
    (run (init cfg) acts).queue.length + (run (init cfg) acts).hands.length +
      sumW Op.inFlightW (run (init cfg) acts).ops = (run (init cfg) acts).size ∧
    (run (init cfg) acts).size ≤ cfg.maxSize := by
  have a := run_acct cfg hc acts
  have h1 := a.siz
  have h2 := a.slots
  have hcfg : (run (init cfg) acts).cfg.maxSize = cfg.maxSize := by rw [run_cfg]; rfl
  constructor
  · omega
  · rw [hcfg] at h2; omega

/-- **C05 (try_add reports Timeout exactly while the pool is full).** The acquisition step
of `try_add`: no free slot (and not closed) → `Timeout` with the object handed back;
closed → `Closed` with the object handed back; otherwise it takes a slot and goes on. -/
theorem C05_try_add_decides (s s' : State) (i id : Nat)
    (h : stepAdd s i id true .start .run = some s') :
    (s.sizeSem.closed = true → s'.returned = s.returned ++ [id] ∧ s'.queue = s.queue ∧
      s'.log = s.log ++ [.result i (.closed (some id))]) ∧
    (s.sizeSem.closed = false → s.sizeSem.permits = 0 → s'.returned = s.returned ++ [id] ∧
      s'.queue = s.queue ∧ s'.log = s.log ++ [.result i (.timeout (some id))]) ∧
    (s.sizeSem.closed = false → 0 < s.sizeSem.permits →
      s'.ops = s.ops.set i (.add id true .size) ∧ s'.sizeSem.permits + 1 = s.sizeSem.permits) := by
  simp only [stepAdd, Sem.tryAcquire, if_true] at h
  refine ⟨?_, ?_, ?_⟩
  · intro hc
    simp only [hc, if_true, Option.some.injEq] at h
    subst h; exact ⟨rfl, rfl, rfl⟩
  · intro hc hp
    simp only [hc, hp, Bool.false_eq_true, if_false, if_true, Option.some.injEq] at h
    subst h; exact ⟨rfl, rfl, rfl⟩
  · intro hc hp
    have : ¬ s.sizeSem.permits = 0 := by omega
    simp only [hc, this, Bool.false_eq_true, if_false, Option.some.injEq] at h
    subst h
    refine ⟨rfl, ?_⟩
    simp only [State.setOp]; omega

/-- at rest the free slots are exactly `max_size - size` (minus what a closed pool dropped):
"full" means `size = max_size` -/
theorem C05_free_slots_at_rest (cfg : Cfg) (hc : cfg.initial ≤ cfg.maxSize) (acts : List Action)
    (hd : ∀ op ∈ (run (init cfg) acts).ops, Op.addW op = 0 ∧ Op.takeW op = 0) :
    (run (init cfg) acts).sizeSem.tokens + (run (init cfg) acts).size +
      (run (init cfg) acts).dropped.length = (run (init cfg) acts).cfg.maxSize := by
  have a := run_acct cfg hc acts
  have h := a.slots
  have z1 : sumW Op.addW (run (init cfg) acts).ops = 0 := sumW_zero _ _ (fun x hx => (hd x hx).1)
  have z2 : sumW Op.takeW (run (init cfg) acts).ops = 0 := sumW_zero _ _ (fun x hx => (hd x hx).2)
  omega

/-- a slot freed by take / remove goes to the adder that has waited longest, at once -/
theorem C05_take_wakes_adder (s s' : State) (i id j : Nat) (v : Bool) (rest : List Nat)
    (hq : s.sizeSem.queue = j :: rest) (h : stepTake s i id .addPermits v = some s') :
    j ∈ s'.sizeSem.assigned ∧ s'.sizeSem.queue = rest := by
  simp only [stepTake, Option.some.injEq] at h
  subst h
  simp [State.setOp, State.emit, Sem.addPermits, hq]

/-- No operation is in progress except callers blocked in get() (registered in the
semaphore's queue, not woken). -/
structure AtRest (s : State) : Prop where
  ops : ∀ op ∈ s.ops, op = Op.done ∨ (∃ w r, op = .get w false r .queued)
  noWoken : s.sem.assigned = []
  registered : 0 < sumW Op.waitW s.ops → s.sem.queue ≠ []
  open_ : s.sem.closed = false

theorem rest_sums (ops : List Op) (h : ∀ op ∈ ops, op = Op.done ∨ (∃ w r, op = .get w false r .queued)) :
    sumW Op.popW ops = 0 ∧ sumW Op.pendW ops = 0 ∧ sumW Op.inFlightW ops = 0 ∧
    sumW Op.pushW ops = 0 ∧ sumW Op.tryW ops = 0 := by
  refine ⟨sumW_zero _ _ ?_, sumW_zero _ _ ?_, sumW_zero _ _ ?_, sumW_zero _ _ ?_, sumW_zero _ _ ?_⟩ <;>
    (intro op hop; rcases h op hop with rfl | ⟨w, r, rfl⟩ <;> rfl)

/-- **C05 (status at rest).** While the pool is open and at rest, `status()` reports the
true figures: `size` = objects queued + objects in callers' hands, `available` = objects
queued, `waiting` = callers blocked in get(). -/
theorem C05_status_at_rest (cfg : Cfg) (hc : cfg.initial ≤ cfg.maxSize) (acts : List Action)
    (r : AtRest (run (init cfg) acts)) :
    status (run (init cfg) acts) =
      ((run (init cfg) acts).cfg.maxSize,
       (run (init cfg) acts).queue.length + (run (init cfg) acts).hands.length,
       (run (init cfg) acts).queue.length,
       sumW Op.waitW (run (init cfg) acts).ops) := by
  have a := run_acct cfg hc acts
  have w := run_semswf cfg acts
  generalize run (init cfg) acts = s at *
  obtain ⟨p0, q0, f0, u0, t0⟩ := rest_sums s.ops r.ops
  have hs := a.siz
  have ha := a.avail
  have ho := (a.open_ r.open_).1
  rw [p0, q0] at ho
  rw [f0] at hs
  rw [u0, t0] at ha
  simp only [Sem.tokens, r.noWoken, List.length_nil] at ho
  -- blocked callers ⇒ no free permit ⇒ empty queue
  have key : 0 < sumW Op.waitW s.ops → s.queue.length = 0 := by
    intro hpos
    have hq := r.registered hpos
    have : s.sem.permits = 0 := by
      rcases Nat.eq_zero_or_pos s.sem.permits with h0 | h0
      · exact h0
      · exact absurd (w.sem.free h0) hq
    omega
  simp only [status]
  by_cases hb : 0 < sumW Op.waitW s.ops
  · have hq := key hb
    have hneg : s.available < 0 := by omega
    have hnp : ¬ s.available > 0 := by omega
    simp only [hnp, if_false, hneg, if_true, Prod.mk.injEq, true_and]
    refine ⟨by omega, by omega, ?_⟩
    omega
  · have hb0 : sumW Op.waitW s.ops = 0 := by omega
    rw [hb0] at ha ⊢
    have hnn : ¬ s.available < 0 := by omega
    simp only [hnn, if_false, Prod.mk.injEq, true_and]
    refine ⟨by omega, ?_, trivial⟩
    split <;> omega

/-! Non-vacuity: two objects added, one lent out, two callers blocked -/

def C05_demo : List Action :=
  [ .start .tryAdd, .step 0 .run, .step 0 .run, .step 0 .run, .step 0 .run, .step 0 .run, .step 0 .run,
    .start .tryGet, .step 1 .run, .step 1 .run, .step 1 .run,
    .start (.get .none), .step 2 .run, .start (.get .none), .step 3 .run ]

example : (run? (init { maxSize := 2 }) C05_demo).isSome = true := by decide
example : status (run (init { maxSize := 2 }) C05_demo) = (2, 1, 0, 2) := by decide

end U
end DeadpoolVerif
