/-
C11 — status() is exact at rest and never nonsensical.

Property theorems only; helper lemmas live in `Lemmas/`.
-/
import DeadpoolVerif.Lemmas.NoResize
import DeadpoolVerif.Lemmas.GrowOnly
import DeadpoolVerif.Lemmas.LinkStep

namespace DeadpoolVerif

/-- the op is a caller blocked in get() -/
def Op.qW (op : Op) : Nat := if op.isQ then 1 else 0

/-- the op is a caller inside get() (between entering and leaving / receiving the object) -/
def Op.inGetW : Op → Nat
  | .get _ pc => pc.usersW
  | _ => 0

/-- No pool operation is in progress: every operation has finished, except callers that
are blocked in get() waiting for a slot (registered in the queue, not woken). -/
structure AtRest (s : State) : Prop where
  ops : ∀ op ∈ s.ops, op = Op.done ∨ op.isQ = true
  noWoken : s.sem.assigned = []
  open_ : s.sem.closed = true → ∀ op ∈ s.ops, op = Op.done

/-- number of callers blocked in get() -/
def State.blocked (s : State) : Nat := sumW Op.qW s.ops

theorem rest_sums (ops : List Op) (h : ∀ op ∈ ops, op = Op.done ∨ op.isQ = true) :
    sumW Op.usersW ops = sumW Op.qW ops ∧ sumW Op.sizeW ops = 0 ∧ sumW Op.permW ops = 0 ∧
    sumW Op.objW ops = 0 := by
  induction ops with
  | nil => simp
  | cons op ops ih =>
    have ih' := ih (fun o ho => h o (by simp [ho]))
    simp only [sumW_cons]
    rcases h op (by simp) with rfl | hq
    · simp only [Op.usersW, Op.qW, Op.isQ, Op.sizeW, Op.permW, Op.objW]
      simp only [Bool.false_eq_true, if_false]
      omega
    · cases op with
      | get t pc =>
        cases pc <;> simp only [Op.isQ, Bool.false_eq_true] at hq
        simp only [Op.usersW, Op.qW, Op.isQ, Op.sizeW, Op.permW, Op.objW, GPc.usersW, GPc.sizeW,
          GPc.permW, GPc.objW, if_true]
        omega
      | _ => simp [Op.isQ] at hq

theorem exists_pos_of_sum_pos {α : Type} (f : α → Nat) (l : List α) (h : 0 < sumW f l) :
    ∃ a ∈ l, 0 < f a := by
  induction l with
  | nil => simp at h
  | cons a l ih =>
    simp only [sumW_cons] at h
    by_cases ha : 0 < f a
    · exact ⟨a, by simp, ha⟩
    · obtain ⟨b, hb, hb'⟩ := ih (by omega)
      exact ⟨b, by simp [hb], hb'⟩

/-- **C11 (exact at rest).** Whenever no pool operation is in progress — in any reachable
state, after failures, cancellations, takes, retains, resizes, close — status() reports
exactly the configured `max_size`, the number of objects that exist (idle plus checked
out), the number idle, and the number of callers blocked in get(). -/
theorem C11_exact_at_rest (cfg : Cfg) (acts : List Action)
    (r : AtRest (run (init cfg) acts)) :
    (run (init cfg) acts).status =
      ((run (init cfg) acts).maxSize,
       (run (init cfg) acts).idle.length + (run (init cfg) acts).out.length,
       (run (init cfg) acts).idle.length,
       (run (init cfg) acts).blocked) := by
  have a := run_acct cfg acts
  have l := run_link cfg acts
  generalize run (init cfg) acts = s at *
  obtain ⟨hu, hz, hp, ho⟩ := rest_sums s.ops r.ops
  have us := a.usr
  have sz := a.siz
  have cv := a.cov
  rw [hu] at us
  rw [hz] at sz
  rw [ho, hp] at cv
  simp only [Sem.tokens, r.noWoken, List.length_nil] at cv
  -- if somebody is blocked, no token is free, hence nothing is idle
  have key : 0 < sumW Op.qW s.ops → s.idle.length = 0 := by
    intro hpos
    obtain ⟨op, hop, hpos'⟩ := exists_pos_of_sum_pos Op.qW s.ops hpos
    obtain ⟨j, hj⟩ := List.getElem?_of_mem hop
    have hq : op.isQ = true := by
      simp only [Op.qW] at hpos'
      split at hpos'
      · assumption
      · omega
    rcases l.queued j op hj hq with hw | hc
    · simp only [Sem.waiting, r.noWoken, List.append_nil] at hw
      have : s.sem.permits = 0 := by
        rcases Nat.eq_zero_or_pos s.sem.permits with h0 | h0
        · exact h0
        · have := l.wf.free h0
          rw [this] at hw; simp at hw
      omega
    · have := r.open_ hc op (List.mem_of_getElem? hj)
      subst this
      simp [Op.isQ] at hq
  simp only [State.status, State.blocked]
  by_cases hb : 0 < sumW Op.qW s.ops
  · have := key hb
    have hlt : ¬ s.users < s.size := by omega
    simp only [hlt, if_false, Prod.mk.injEq, true_and]
    omega
  · have hb0 : sumW Op.qW s.ops = 0 := by omega
    by_cases hlt : s.users < s.size
    · simp only [hlt, if_true, Prod.mk.injEq, true_and]
      omega
    · simp only [hlt, if_false, Prod.mk.injEq, true_and]
      omega

theorem inGet_bound (ops : List Op) :
    sumW Op.usersW ops ≤ sumW Op.inGetW ops + sumW Op.sizeW ops := by
  induction ops with
  | nil => simp
  | cons op ops ih =>
    simp only [sumW_cons]
    have : op.usersW ≤ op.inGetW + op.sizeW := by
      cases op with
      | get t pc => simp [Op.usersW, Op.inGetW]
      | ret pc o => cases pc <;> simp [Op.usersW, Op.inGetW, Op.sizeW]
      | take pc o a => cases pc <;> simp [Op.usersW, Op.inGetW, Op.sizeW]
      | _ => simp [Op.usersW]
    omega

/-- the plausibility clause for one state -/
structure Plausible (s : State) : Prop where
  /-- `size` never exceeds the number of objects that exist or are being created -/
  size_le_objects : s.status.2.1 ≤ s.idle.length + s.out.length + sumW Op.objW s.ops
  /-- `available` never exceeds `size` -/
  available_le_size : s.status.2.2.1 ≤ s.status.2.1
  /-- `waiting` never exceeds the number of callers currently inside get() -/
  waiting_le_callers : s.status.2.2.2 ≤ sumW Op.inGetW s.ops
  /-- no counter has wrapped -/
  no_wrap : s.fault = none
  /-- `size` exceeds `max_size` at most by the residue of a shrink (ghost `debt`) -/
  size_le_max : s.status.2.1 ≤ s.maxSize + s.debt
  max_reported : s.status.1 = s.maxSize

/-- **C11 (plausible always).** In every reachable state, at every intermediate schedule
point, the figures status() would report are plausible. -/
theorem C11_plausible (cfg : Cfg) (acts : List Action) : Plausible (run (init cfg) acts) := by
  have a := run_acct cfg acts
  generalize run (init cfg) acts = s at *
  have d := sumW_le Op.sizeW Op.objW s.ops Op.sizeW_le_objW
  have g := inGet_bound s.ops
  have sz := a.siz
  have us := a.usr
  have sl := a.size_le
  by_cases hlt : s.users < s.size
  · refine ⟨?_, ?_, ?_, a.nf, ?_, ?_⟩ <;> simp only [State.status, hlt, if_true] <;> omega
  · refine ⟨?_, ?_, ?_, a.nf, ?_, ?_⟩ <;> simp only [State.status, hlt, if_false] <;> omega

/-- without resize / close, `size ≤ max_size` in every reachable state -/
theorem C11_size_le_max_unless_resized (cfg : Cfg) (acts : List Action) (h : noResize acts) :
    (run (init cfg) acts).status.2.1 ≤ (run (init cfg) acts).status.1 := by
  have a := run_acct cfg acts
  have n := run_norz cfg acts h
  have sl := a.size_le
  rw [n.1.debt] at sl
  simp only [State.status]
  split <;> simpa using sl

/-! Non-vacuity: a pool of size 1 with the object checked out and two callers blocked -/

def C11_demo_cfg : Cfg := { maxSize := 1 }

def C11_demo : List Action :=
  let g : Spec := .get {}
  [ .start g, .step 0 .run, .step 0 .run, .step 0 .run, .step 0 .ok, .step 0 .run,
    .start g, .step 1 .run, .step 1 .run, .start g, .step 2 .run, .step 2 .run ]

example : (run? (init C11_demo_cfg) C11_demo).isSome = true := by decide
example : AtRest (run (init C11_demo_cfg) C11_demo) := by
  refine ⟨by decide, by decide, by decide⟩
example : (run (init C11_demo_cfg) C11_demo).status = (1, 1, 0, 2) := by decide

/-- **C11 (`size` exceeds `max_size` only as the residue of a shrink).** In every history
without a shrink and without `close()` — grows and no-op resizes allowed — `size` never exceeds
the current `max_size`, at any schedule point. -/
theorem C11_size_le_max_without_shrink (cfg : Cfg) (acts : List Action)
    (h : GrowOnly (init cfg) acts) :
    (run (init cfg) acts).size ≤ (run (init cfg) acts).maxSize := by
  have a := run_acct cfg acts
  have d := run_debt_zero (init cfg) acts rfl h
  have := a.size_le
  omega

end DeadpoolVerif
