/-
C10 — timeouts, non-blocking mode and missing runtimes behave as documented
(managed pool; the unmanaged pool's single timeout is in `Props/C10u.lean`).

Property theorems only; helper lemmas live in `Lemmas/`.
-/
import DeadpoolVerif.Lemmas.Frame
import DeadpoolVerif.Model.Builder
import DeadpoolVerif.Lemmas.LinkStep

namespace DeadpoolVerif

/-- a get with a zero wait timeout is never suspended waiting for a slot -/
def zeroWaitOk : Op → Prop
  | .get t .queued => t.wait ≠ .zero
  | _ => True

/-- **C10 (zero wait never waits).** In every reachable state no get() whose wait timeout
is zero is suspended in `Semaphore::acquire`. -/
theorem C10_zero_wait_never_waits (cfg : Cfg) (acts : List Action) :
    ∀ op ∈ (run (init cfg) acts).ops, zeroWaitOk op := by
  apply ops_forall_of_local
  · intro s sp s' hs x hx
    obtain ⟨x', hx', hk⟩ := startOp_ops hs
    have : x = x' := by
      rw [hx'] at hx
      have := List.append_cancel_left hx
      simp at this; exact this.symm
    subst this
    rcases hk with rfl | ⟨o, rfl⟩ | ⟨o, rfl⟩ | ⟨n, c, rfl⟩ | ⟨k, rfl⟩ | rfl <;> simp [zeroWaitOk]
  · intro s i oc s' y x hy hP hs hx
    have hs0 := hs
    unfold stepOp at hs
    rw [hy] at hs
    cases y with
    | get t pc =>
      simp only at hs
      unfold stepGet at hs
      simp only [arriveRecycle, arrivePostCreate, handOut, failPermit] at hs
      repeat' split at hs
      all_goals first
        | (simp at hs; done)
        | skip
      all_goals (simp only [Option.some.injEq] at hs; subst hs)
      all_goals (have e := set_inj hy hx; subst e)
      all_goals first
        | (simp only [zeroWaitOk]; done)
        | (simp only [zeroWaitOk] at *; assumption)
        | (simp only [zeroWaitOk]; intro hz; simp_all)
    | _ =>
      obtain ⟨x', hx', hg⟩ := stepOp_ops' hy hs0
      have e := set_inj hy (hx.symm.trans hx')
      subst e
      have := hg rfl
      cases x <;> simp_all [zeroWaitOk, Op.isGet]

/-- **C10 (zero wait decides at once).** The acquisition step of a zero-wait get never
suspends: closed pool → `Closed`; no free slot → `Timeout(Wait)`; otherwise it takes a
slot.  The semaphore is untouched in the two failing cases. -/
theorem C10_zero_wait_decides (s s' : State) (i : Nat) (t : Timeouts) (hz : t.wait = .zero)
    (h : stepGet s i t .acquire .run = some s') :
    (s.sem.closed = true → s' = s.setOp i (.get t (.dropUsers .closed))) ∧
    (s.sem.closed = false → s.sem.permits = 0 →
      s' = s.setOp i (.get t (.dropUsers .timeoutWait))) ∧
    (s.sem.closed = false → 0 < s.sem.permits →
      s'.ops = s.ops.set i (.get t .pop) ∧ s'.sem.permits + 1 = s.sem.permits ∧
      s'.sem.waiting = s.sem.waiting) := by
  simp only [stepGet, hz, Sem.tryAcquire] at h
  refine ⟨?_, ?_, ?_⟩
  · intro hc; simp only [hc, if_true, Option.some.injEq] at h; exact h.symm
  · intro hc hp; simp only [hc, hp, if_true, Bool.false_eq_true, if_false, Option.some.injEq] at h
    exact h.symm
  · intro hc hp
    have : ¬ s.sem.permits = 0 := by omega
    simp only [hc, this, Bool.false_eq_true, if_false, Option.some.injEq] at h
    subst h
    refine ⟨rfl, ?_, rfl⟩
    simp only [State.setOp]
    omega

/-- **C10 (wait deadline).** When the deadline of a finite wait timeout passes: a slot that
was already handed to this caller wins (tokio polls the inner future first); otherwise the
get fails with `Timeout(Wait)` and its `Acquire` future is dropped, which un-registers the
waiter. -/
theorem C10_wait_deadline (s s' : State) (i : Nat) (t : Timeouts)
    (hw : t.wait = .finite) (hrt : s.cfg.rt = true) (hc : s.sem.closed = false)
    (h : stepGet s i t .queued .deadline = some s') :
    (i ∈ s.sem.assigned → s'.ops = s.ops.set i (.get t .pop)) ∧
    (i ∉ s.sem.assigned → s.sem.permits = 0 →
      s'.ops = s.ops.set i (.get t (.dropUsers .timeoutWait)) ∧
      ∃ sem1, s.sem.pollAcquire i = (sem1, .pending) ∧ s'.sem = sem1.dropAcquire i) := by
  simp only [stepGet, hw, hrt, BEq.rfl, Bool.and_self, if_true] at h
  constructor
  · intro ha
    have : s.sem.pollAcquire i = ({ s.sem with assigned := s.sem.assigned.erase i }, .ok) := by
      simp [Sem.pollAcquire, hc, ha]
    rw [this] at h
    simp only [Option.some.injEq] at h
    subst h; rfl
  · intro ha hp
    have : ∃ sem1, s.sem.pollAcquire i = (sem1, .pending) := by
      unfold Sem.pollAcquire
      simp only [hc, Bool.false_eq_true, if_false, ha, hp, if_true]
      split <;> exact ⟨_, rfl⟩
    obtain ⟨sem1, h1⟩ := this
    rw [h1] at h
    simp only [Option.some.injEq] at h
    subst h
    exact ⟨rfl, sem1, h1, rfl⟩

/-- a deadline is only meaningful for a finite timeout with a runtime -/
theorem C10_deadline_needs_timeout (s : State) (i : Nat) (t : Timeouts)
    (h : ¬ (t.wait = .finite ∧ s.cfg.rt = true)) : stepGet s i t .queued .deadline = none := by
  simp only [stepGet]
  split
  · rename_i hc; simp only [Bool.and_eq_true, beq_iff_eq] at hc; exact absurd hc h
  · rfl

/-- **C10 (create timeout).** A create timeout (deadline while `Manager::create` is pending,
or a zero timeout whose first poll is pending) yields `Timeout(Create)`; the slot is
released by the very next step of the unwinding get. -/
theorem C10_create_timeout_releases (s : State) (i : Nat) (t : Timeouts) :
    (t.create = .finite →
      stepGet s i t (.creating true) .deadline = some (s.setOp i (.get t (.dropPermit .timeoutCreate)))) ∧
    (t.create = .zero → ∀ b,
      stepGet s i t (.creating b) .pending = some (s.setOp i (.get t (.dropPermit .timeoutCreate)))) ∧
    (∀ r, stepGet s i t (.dropPermit r) .run =
      some ({ s with sem := s.sem.addPermits 1 }.setOp i (.get t (.dropUsers r)))) := by
  refine ⟨?_, ?_, ?_⟩
  · intro h; simp [stepGet, h, failPermit]
  · intro h b; simp [stepGet, h, failPermit]
  · intro r; simp [stepGet]

/-- **C10 (recycle timeout).** A recycle timeout counts as a rejected object: the get
discards the object exactly as if `Manager::recycle` had returned an error, and goes on. -/
theorem C10_recycle_timeout_is_reject (s : State) (i : Nat) (t : Timeouts) (o : Obj) (k : Nat)
    (hk : k = s.cfg.pre.length) :
    (t.recycle = .finite →
      stepGet s i t (.recycling k o true) .deadline = stepGet s i t (.recycling k o true) .err) ∧
    (t.recycle = .zero → s.cfg.rt = true →
      stepGet s i t (.recycling k o false) .pending = stepGet s i t (.recycling k o false) .err) := by
  subst hk
  constructor
  · intro h; simp [stepGet, h]
  · intro h _; simp [stepGet, h, Cfg.recycleAsync]

/-- **C10 (no runtime, per-call timeouts).** Without a runtime a per-call recycle timeout or
a finite wait timeout makes get() fail with `NoRuntimeSpecified` before it touches the
semaphore, the idle queue or any object; a create timeout does so when (and only when) an
object would have to be created, with no `create` call issued. -/
theorem C10_no_runtime (s : State) (i : Nat) (t : Timeouts) (hrt : s.cfg.rt = false) :
    (t.recycle ≠ .none →
      stepGet s i t .enter .run = some ((s.setOp i .done).emit [.result i .noRuntime])) ∧
    (t.wait = .finite →
      stepGet s i t .acquire .run = some (s.setOp i (.get t (.dropUsers .noRuntime)))) ∧
    (t.create ≠ .none → s.lockFree i = true → s.idle = [] →
      stepGet s i t .pop .run = some (s.setOp i (.get t (.dropPermit .noRuntime)))) := by
  refine ⟨?_, ?_, ?_⟩
  · intro h
    simp only [stepGet, hrt, Bool.not_false, Bool.true_and, bne_iff_ne, ne_eq, h,
      not_false_eq_true, if_true]
  · intro h
    simp [stepGet, h, hrt]
  · intro h hl hi
    have : popIdle s.cfg.mode s.idle = none := by
      rw [hi]; unfold popIdle; cases s.cfg.mode <;> simp
    simp only [stepGet, hl, Bool.not_true, Bool.false_eq_true, if_false, this, hrt, Bool.not_false,
      Bool.true_and, bne_iff_ne, ne_eq, h, not_false_eq_true, if_true, failPermit]

/-- **C10 (no runtime, configured timeouts).** `build()` fails exactly when some timeout is
configured and no runtime was given. -/
theorem C10_build (rt : Bool) (t : Timeouts) :
    buildOk rt t = false ↔
      (rt = false ∧ (t.wait ≠ .none ∨ t.create ≠ .none ∨ t.recycle ≠ .none)) := by
  cases rt <;> cases hw : t.wait <;> cases hc : t.create <;> cases hr : t.recycle <;>
    simp [buildOk, hw, hc, hr]

/-- `Timeout(Recycle)` is never produced -/
def noTimeoutRecycle : Op → Prop
  | .get _ (.unreadyLock _ (.fail r)) | .get _ (.unreadyDetach _ (.fail r))
  | .get _ (.dropPermit r) | .get _ (.dropUsers r) => r ≠ .timeoutRecycle
  | _ => True

theorem C10_no_timeout_recycle (cfg : Cfg) (acts : List Action) :
    ∀ op ∈ (run (init cfg) acts).ops, noTimeoutRecycle op := by
  apply ops_forall_of_local
  · intro s sp s' hs x hx
    obtain ⟨x', hx', hk⟩ := startOp_ops hs
    have : x = x' := by
      rw [hx'] at hx
      have := List.append_cancel_left hx
      simp at this; exact this.symm
    subst this
    rcases hk with rfl | ⟨o, rfl⟩ | ⟨o, rfl⟩ | ⟨n, c, rfl⟩ | ⟨k, rfl⟩ | rfl <;> simp [noTimeoutRecycle]
  · intro s i oc s' y x hy hP hs hx
    have hs0 := hs
    unfold stepOp at hs
    rw [hy] at hs
    cases y with
    | get t pc =>
      simp only at hs
      unfold stepGet at hs
      simp only [arriveRecycle, arrivePostCreate, handOut, failPermit] at hs
      repeat' split at hs
      all_goals first
        | (simp at hs; done)
        | skip
      all_goals (simp only [Option.some.injEq] at hs; subst hs)
      all_goals (have e := set_inj hy hx; subst e)
      all_goals first
        | (simp only [noTimeoutRecycle]; done)
        | (simp only [noTimeoutRecycle] at *; assumption)
        | (simp [noTimeoutRecycle]; done)
        | (cases ‹Cont› <;> simp_all [noTimeoutRecycle])
    | _ =>
      obtain ⟨x', hx', hg⟩ := stepOp_ops' hy hs0
      have e := set_inj hy (hx.symm.trans hx')
      subst e
      have := hg rfl
      cases x <;> simp_all [noTimeoutRecycle, Op.isGet]

/-! ### `PoolBuilder`: what a sequence of configuration calls leaves behind -/

open Bld in
/-- **C10 (the builder writes what it is told).** Each configuration call of `PoolBuilder`
changes exactly the field it names and leaves the others alone: `max_size`, each of the three
timeouts and the queue mode are independent, `timeouts(t)` replaces all three timeouts,
`config(c)` replaces everything. -/
theorem C10_builder_frame (b : Conf) :
    (∀ n, (apply b (.maxSize n)).maxSize = n ∧ (apply b (.maxSize n)).tmo = b.tmo ∧
      (apply b (.maxSize n)).lifo = b.lifo) ∧
    (∀ t, (apply b (.timeouts t)).tmo = t ∧ (apply b (.timeouts t)).maxSize = b.maxSize ∧
      (apply b (.timeouts t)).lifo = b.lifo) ∧
    (∀ d, (apply b (.wait d)).tmo = { b.tmo with wait := d } ∧
      (apply b (.wait d)).maxSize = b.maxSize ∧ (apply b (.wait d)).lifo = b.lifo) ∧
    (∀ d, (apply b (.create d)).tmo = { b.tmo with create := d } ∧
      (apply b (.create d)).maxSize = b.maxSize ∧ (apply b (.create d)).lifo = b.lifo) ∧
    (∀ d, (apply b (.recycle d)).tmo = { b.tmo with recycle := d } ∧
      (apply b (.recycle d)).maxSize = b.maxSize ∧ (apply b (.recycle d)).lifo = b.lifo) ∧
    (∀ l, (apply b (.queueMode l)).lifo = l ∧ (apply b (.queueMode l)).maxSize = b.maxSize ∧
      (apply b (.queueMode l)).tmo = b.tmo) ∧
    (∀ c, apply b (.config c) = c) :=
  ⟨fun _ => ⟨rfl, rfl, rfl⟩, fun _ => ⟨rfl, rfl, rfl⟩, fun _ => ⟨rfl, rfl, rfl⟩,
   fun _ => ⟨rfl, rfl, rfl⟩, fun _ => ⟨rfl, rfl, rfl⟩, fun _ => ⟨rfl, rfl, rfl⟩, fun _ => rfl⟩

open Bld in
/-- **C10 (call order).** For any sequence of calls: a final `config(c)` wins over everything
before it; without any call the pool has the default size, no timeouts and Fifo; and what a
field holds in the end is what the *last* call that writes it said — calls that write other
fields in between do not matter (stated for `recycle_timeout` against `max_size`,
`wait_timeout`, `create_timeout` and `queue_mode`, the combination the pool's recycle timeout
rests on). -/
theorem C10_builder_order (dflt : Nat) (cs : List Call) :
    (∀ c, applyAll dflt (cs ++ [.config c]) = c) ∧
    applyAll dflt [] = { maxSize := dflt, tmo := {}, lifo := false } ∧
    (∀ d n w c l, (applyAll dflt (cs ++ [.recycle d, .maxSize n, .wait w, .create c, .queueMode l])).tmo.recycle = d) ∧
    (∀ d n, (applyAll dflt (cs ++ [.maxSize n, .recycle d])).maxSize = n ∧
      (applyAll dflt (cs ++ [.maxSize n, .recycle d])).tmo.recycle = d) := by
  refine ⟨?_, rfl, ?_, ?_⟩
  · intro c; simp [applyAll, List.foldl_append, apply]
  · intro d n w c l; simp [applyAll, List.foldl_append, apply]
  · intro d n; simp [applyAll, List.foldl_append, apply]

/-- not vacuous -/
example : Bld.applyAll 64 [.wait (some 5), .maxSize 3, .recycle (some 7), .queueMode true] =
    { maxSize := 3, tmo := { wait := some 5, recycle := some 7 }, lifo := true } := rfl

end DeadpoolVerif
