/-
C04 — only freshly verified objects are handed out; errors surface exactly.

Property theorems only; helper lemmas live in `Lemmas/`.
-/
import DeadpoolVerif.Lemmas.Reach
import DeadpoolVerif.Lemmas.LastEv
import DeadpoolVerif.Lemmas.LogMono

namespace DeadpoolVerif

/-- **C04 (hand-out only after the last check succeeded).** A step of get() puts an object
into a caller's hands only in three situations: the *last* callback of the recycle sequence
(pre hooks, `Manager::recycle`, post hooks — no callback with index `> k` remains) answered ok; the last
`post_create` hook answered ok; or creation finished and there is no `post_create` hook.
Any other outcome at any other point leaves the set of checked-out objects unchanged. -/
theorem C04_handout_requires_all_ok (s s' : State) (i : Nat) (t : Timeouts) (pc : GPc) (oc : Outcome)
    (h : stepGet s i t pc oc = some s') (hout : s'.out ≠ s.out) :
    (∃ k o susp, pc = .recycling k o susp ∧ oc = .ok ∧ s.cfg.nRecycle ≤ k + 1 ∧
      s'.out = s.out ++ [{ o with rc := o.rc + 1, recycled := some s.now, handouts := o.handouts + 1 }]) ∨
    (∃ k o susp, pc = .postCreate k o susp ∧ oc = .ok ∧ s.cfg.postC.length ≤ k + 1 ∧
      s'.out = s.out ++ [{ o with handouts := o.handouts + 1 }]) ∨
    (∃ o, pc = .createSize o ∧ oc = .run ∧ s.cfg.postC.length = 0 ∧
      s'.out = s.out ++ [{ o with handouts := o.handouts + 1 }]) := by
  unfold stepGet at h
  simp only [arriveRecycle, arrivePostCreate, handOut, failPermit] at h
  repeat' split at h
  all_goals first | (simp at h; done) | skip
  all_goals (simp only [Option.some.injEq] at h; subst h)
  all_goals first
    | (exact absurd rfl hout)
    | (refine Or.inl ⟨_, _, _, rfl, rfl, ?_, ?_⟩ <;> first | rfl | (simp only [Cfg.nRecycle] at *; omega))
    | (refine Or.inr (Or.inl ⟨_, _, _, rfl, rfl, ?_, ?_⟩) <;> first | rfl | omega)
    | (refine Or.inr (Or.inr ⟨_, rfl, rfl, ?_, ?_⟩) <;> first | rfl | omega)

/-- **C04 (registration order).** The callbacks of the recycle sequence are entered one by
one in registration order on the *same* object: get() enters callback 0 when it pops an
idle object, and callback `k + 1` exactly when callback `k` answered ok (emitting the call
event of that callback with the object's unchanged metrics). -/
theorem C04_recycle_sequence_in_order (s : State) (i : Nat) (t : Timeouts) (k : Nat) (o : Obj)
    (susp : Bool) (hk : k + 1 < s.cfg.nRecycle) :
    stepGet s i t (.recycling k o susp) .ok =
      some ((s.setOp i (.get t (.recycling (k + 1) o false))).emit
        [.call i (s.cfg.recyclePhase (k + 1)).1 (s.cfg.recyclePhase (k + 1)).2 o]) := by
  simp [stepGet, hk, arriveRecycle]

theorem C04_recycle_sequence_starts_at_zero (s s' : State) (i : Nat) (t : Timeouts)
    (o : Obj) (rest : List Obj) (hl : s.lockFree i = true)
    (hp : popIdle s.cfg.mode s.idle = some (o, rest)) (h : stepGet s i t .pop .run = some s') :
    s'.ops = s.ops.set i (.get t (.recycling 0 o false)) ∧ s'.idle = rest := by
  simp only [stepGet, hl, Bool.not_true, Bool.false_eq_true, if_false, hp, arriveRecycle,
    Option.some.injEq] at h
  subst h
  exact ⟨rfl, rfl⟩

theorem C04_post_create_in_order (s : State) (i : Nat) (t : Timeouts) (k : Nat) (o : Obj)
    (susp : Bool) (hk : k + 1 < s.cfg.postC.length) :
    stepGet s i t (.postCreate k o susp) .ok =
      some ((s.setOp i (.get t (.postCreate (k + 1) o false))).emit [.call i .postC (k + 1) o]) := by
  simp [stepGet, arrivePostCreate, hk]

/-- **C04 (a failed recycling step discards the object and get() moves on silently).** If
any callback of the recycle sequence fails, times out, is cancelled or panics, the object
goes to the discard path (`UnreadyObject::drop`): a recycle *error or timeout* continues with
`retry` (the get pops the next idle object or creates one, with the same slot; nothing is
reported to the caller), a cancellation / panic unwinds. -/
theorem C04_recycle_failure_discards (s : State) (i : Nat) (t : Timeouts) (k : Nat) (o : Obj)
    (susp : Bool) :
    stepGet s i t (.recycling k o susp) .err = some (s.setOp i (.get t (.unreadyLock o .retry))) ∧
    stepGet s i t (.recycling k o susp) .panic =
      some (s.setOp i (.get t (.unreadyLock o (.fail .panicked)))) ∧
    (susp = true → stepGet s i t (.recycling k o susp) .cancel =
      some (s.setOp i (.get t (.unreadyLock o (.fail .cancelled))))) ∧
    (∀ s', stepGet s i t (.recycling k o susp) .deadline = some s' →
      s' = s.setOp i (.get t (.unreadyLock o .retry))) := by
  refine ⟨by simp [stepGet], by simp [stepGet], ?_, ?_⟩
  · intro h; simp [stepGet, h]
  · intro s' h
    simp only [stepGet] at h
    split at h
    · simp only [Option.some.injEq] at h; exact h.symm
    · simp at h

/-- the discard path: `size -= 1`, then exactly one `detach` and the destruction, then the
get goes on (`retry`: back to popping with the same slot) or unwinds (`fail`) -/
theorem C04_discard_path (s : State) (i : Nat) (t : Timeouts) (o : Obj) (c : Cont)
    (hl : s.lockFree i = true) :
    stepGet s i t (.unreadyLock o c) .run =
      some ({ s with size := s.size - 1, fault := decFault s.fault s.size 1 }.setOp i
        (.get t (.unreadyDetach o c))) ∧
    stepGet s i t (.unreadyDetach o c) .run =
      some ((s.emit [.detach i o.id, .destroy i o.id]).setOp i
        (match c with | .retry => .get t .pop | .fail r => .get t (.dropPermit r))) := by
  constructor
  · simp [stepGet, hl]
  · cases c <;> simp [stepGet]

/-- an object that went down the discard path is never handed out afterwards (nor idle,
nor in anybody's hands): `Conserve` + append-only log -/
theorem C04_discarded_never_reissued (cfg : Cfg) (acts more : List Action) (i id : Nat)
    (h : Ev.destroy i id ∈ (run (init cfg) acts).log) :
    idCnt id (run (init cfg) (acts ++ more)).out = 0 ∧
    idCnt id (run (init cfg) (acts ++ more)).idle = 0 ∧
    sumW (Op.heldCnt id) (run (init cfg) (acts ++ more)).ops = 0 := by
  have hg : 0 < goneCnt id (run (init cfg) acts).log := by
    generalize (run (init cfg) acts).log = log at h
    induction log with
    | nil => simp at h
    | cons e log ih =>
      simp only [goneCnt_cons]
      rcases List.mem_cons.mp h with rfl | h'
      · simp only [Ev.goneIds, natCnt_cons, natCnt_nil, eqInd, if_true]; omega
      · have := ih h'; omega
  have c := (reach_run cfg (acts ++ more)).cons
  have p := c.place id
  have b := ltInd_le_one id (run (init cfg) (acts ++ more)).nextId
  have mono : goneCnt id (run (init cfg) acts).log ≤ goneCnt id (run (init cfg) (acts ++ more)).log := by
    rw [run_append]
    obtain ⟨es, h⟩ := run_log (run (init cfg) acts) more
    rw [h, goneCnt_append]
    omega
  omega

/-- which result a get() can end with at which point: the program counters that carry a
result carry only the documented one for their cause -/
def resultCause : Op → Prop
  | .get _ (.unreadyLock _ (.fail r)) | .get _ (.unreadyDetach _ (.fail r)) =>
      r = .panicked ∨ r = .cancelled ∨ r = .postCreateHook
  | .get _ (.dropPermit r) =>
      r = .panicked ∨ r = .cancelled ∨ r = .postCreateHook ∨ r = .backend ∨ r = .timeoutCreate ∨
      r = .noRuntime
  | .get _ (.dropUsers r) =>
      r = .panicked ∨ r = .cancelled ∨ r = .postCreateHook ∨ r = .backend ∨ r = .timeoutCreate ∨
      r = .noRuntime ∨ r = .timeoutWait ∨ r = .closed
  | _ => True

/-- **C04 (only documented errors).** In every reachable state every failing get() is
about to report one of: the creation error (`Backend`), a `post_create` hook error,
`Timeout(Wait)`, `Timeout(Create)`, `Closed`, `NoRuntimeSpecified` (or it was cancelled /
panicked) — never a recycling error, never `Timeout(Recycle)`; and an error that arises
while an object is in hand can only be a `post_create` hook error, a panic or a cancellation. -/
theorem C04_error_variants (cfg : Cfg) (acts : List Action) :
    ∀ op ∈ (run (init cfg) acts).ops, resultCause op := by
  apply ops_forall_of_local
  · intro s sp s' hs x hx
    obtain ⟨x', hx', hk⟩ := startOp_ops hs
    have : x = x' := by
      rw [hx'] at hx
      have := List.append_cancel_left hx
      simp at this; exact this.symm
    subst this
    rcases hk with rfl | ⟨o, rfl⟩ | ⟨o, rfl⟩ | ⟨n, c, rfl⟩ | ⟨k, rfl⟩ | rfl <;> simp [resultCause]
  · intro s i oc s' y x hy hP hs hx
    have hs0 := hs
    unfold stepOp at hs
    rw [hy] at hs
    cases y with
    | get t pc =>
      simp only at hs
      unfold stepGet at hs
      simp only [arriveRecycle, arrivePostCreate, handOut, failPermit] at hs
      repeat' split at hs
      all_goals first
        | (simp at hs; done)
        | skip
      all_goals (simp only [Option.some.injEq] at hs; subst hs)
      all_goals (have e := set_inj hy hx; subst e)
      all_goals first
        | (simp only [resultCause]; done)
        | (simp [resultCause]; done)
        | (simp only [resultCause] at *; cases ‹Res› <;> simp_all)
        | (cases ‹Cont› <;> simp only [resultCause] at * <;> first | trivial | (cases ‹Res› <;> simp_all))
    | _ =>
      obtain ⟨x', hx', hg⟩ := stepOp_ops' hy hs0
      have e := set_inj hy (hx.symm.trans hx')
      subst e
      have := hg rfl
      cases x <;> simp_all [resultCause, Op.isGet]

/-- **C04 (trace level: what stands before a hand-out).** In the event log of *any* history,
every hand-out to operation `i` is immediately preceded — among the events of that operation —
by the call of the **last** callback of the recycle sequence on the same object (its metrics
as they were before this hand-out: `handouts` and `recycle_count` one lower, same creation
instant), or by the call of the last `post_create` hook on the freshly created object, or, if
there is no `post_create` hook, by the creation itself.  Together with
`C04_recycle_sequence_in_order` / `C04_post_create_in_order` (a callback is entered only when
the previous one answered ok) this is the property's "every step succeeding, in registration
order" read off the log. -/
theorem C04_handout_preceded_by_last_check (cfg : Cfg) (acts : List Action) (i : Nat) (o' : Obj)
    (l1 l2 : List Ev)
    (h : evsOf i (run (init cfg) acts).log = l1 ++ Ev.handout i o' :: l2) :
    ∃ l0 e, l1 = l0 ++ [e] ∧ HandoutCause cfg i e o' := by
  have t := (run_tr cfg acts).hand i o' l1 l2 h
  rw [run_cfg] at t
  exact t

/-- **C04 (trace level: inside a callback).** In every reachable state, the last event logged
by a get() that is inside a callback is the call of exactly that callback, on the object it
has in hand: nothing of that get() happens between entering a check and its answer. -/
theorem C04_inside_callback (cfg : Cfg) (acts : List Action) (i : Nat) (op : Op) (e : Ev)
    (hop : (run (init cfg) acts).ops[i]? = some op) (he : op.lastEv cfg i = some e) :
    (evsOf i (run (init cfg) acts).log).getLast? = some e := by
  have t := (run_tr cfg acts).last i op e hop
  rw [run_cfg] at t
  exact t he

/-- both are about something: a get that recycles an idle object through one pre hook and
`Manager::recycle` -/
example :
    let cfg : Cfg := { maxSize := 1, pre := [false] }
    let acts : List Action :=
      [ .start (.get {}), .step 0 .run, .step 0 .run, .step 0 .run, .step 0 .ok, .step 0 .run,
        .start (.ret 0), .step 1 .run, .step 1 .run, .step 1 .run,
        .start (.get {}), .step 2 .run, .step 2 .run, .step 2 .run, .step 2 .ok, .step 2 .ok ]
    (evsOf 2 (run (init cfg) acts).log).length = 4 ∧
    (evsOf 2 (run (init cfg) acts).log)[2]?.map Ev.isHandout = some true := by
  decide

end DeadpoolVerif
