/-
C09 — retain(), take() and detach keep the books straight.

Property theorems only; helper lemmas live in `Lemmas/`.
-/
import DeadpoolVerif.Lemmas.Reach
import DeadpoolVerif.Lemmas.NoResize
import DeadpoolVerif.Lemmas.LogMono

namespace DeadpoolVerif

/-- the idle objects for which the `j`-th predicate call answers `b` (calls are numbered
from `k`; an index beyond the script means "keep") -/
def selectBy (keep : List Bool) (b : Bool) : Nat → List Obj → List Obj
  | _, [] => []
  | k, o :: rest =>
    if keep.getD k true = b then o :: selectBy keep b (k + 1) rest else selectBy keep b (k + 1) rest

theorem retainKept_eq (keep : List Bool) (k : Nat) (l : List Obj) :
    retainKept keep k l = selectBy keep true k l := by
  induction l generalizing k with
  | nil => rfl
  | cons o rest ih => simp only [retainKept, selectBy, ih]

theorem retainRemoved_eq (keep : List Bool) (k : Nat) (l : List Obj) :
    retainRemoved keep k l = selectBy keep false k l := by
  induction l generalizing k with
  | nil => rfl
  | cons o rest ih =>
    simp only [retainRemoved, selectBy, ih]
    cases keep.getD k true <;> simp

/-- **C09 (retain is exact).** `retain` with an arbitrary (stateful) predicate — modelled by
the answer of its `k`-th call — removes exactly the idle objects for which the predicate
answered `false`, keeps the others in their order, reports `retained` = number kept and
`removed` = the removed ones in order, calls `detach` once for each removed object, and
touches neither the checked-out objects, nor the semaphore (capacity), nor `max_size`;
`size` drops by the number removed. -/
theorem C09_retain_exact (s s' : State) (i : Nat) (keep : List Bool)
    (h : stepRetain s i keep = some s') :
    s'.idle = selectBy keep true 0 s.idle ∧
    s'.out = s.out ∧ s'.sem = s.sem ∧ s'.maxSize = s.maxSize ∧ s'.users = s.users ∧
    s'.size = s.size - (selectBy keep false 0 s.idle).length ∧
    s'.log = s.log ++ retainEvs i keep 0 s.idle ++
      [Ev.retained i (selectBy keep true 0 s.idle).length ((selectBy keep false 0 s.idle).map Obj.id)] ∧
    (∀ id, detachCnt id (retainEvs i keep 0 s.idle) = idCnt id (selectBy keep false 0 s.idle)) := by
  unfold stepRetain at h
  split at h
  · simp at h
  · simp only [Option.some.injEq] at h
    subst h
    refine ⟨by simp only [State.setOp, State.emit, retainKept_eq], rfl, rfl, rfl, rfl,
      by simp only [State.setOp, State.emit, retainRemoved_eq],
      by simp only [State.setOp, State.emit, retainKept_eq, retainRemoved_eq, List.append_assoc], ?_⟩
    intro id
    rw [← retainRemoved_eq]
    exact (retainEvs_counts i keep 0 s.idle id).1

/-- kept and removed objects partition the idle queue -/
theorem C09_retain_partition (keep : List Bool) (l : List Obj) :
    (selectBy keep true 0 l).length + (selectBy keep false 0 l).length = l.length := by
  rw [← retainKept_eq, ← retainRemoved_eq]
  exact retain_length keep 0 l

/-- the objects `retain` keeps (and those it removes) are a sub-list of the idle queue: their
relative order — hence the reuse order of the survivors under either queue mode (C08) — is the
one they had before, whatever the predicate answered and wherever the removed ones sat -/
theorem C09_retain_keeps_order (keep : List Bool) (b : Bool) (k : Nat) (l : List Obj) :
    (selectBy keep b k l).Sublist l := by
  induction l generalizing k with
  | nil => exact List.Sublist.slnil
  | cons o rest ih =>
    simp only [selectBy]
    split
    · exact (ih (k + 1)).cons₂ o
    · exact (ih (k + 1)).cons o

/-- in particular the object at the front (offered first by Fifo) and at the back (offered first
by Lifo) of the queue after `retain` are the first / last kept ones of the old queue: nothing
is moved into a removed object's place -/
theorem C09_retain_step_keeps_order (s s' : State) (i : Nat) (keep : List Bool)
    (h : stepRetain s i keep = some s') : s'.idle.Sublist s.idle := by
  rw [(C09_retain_exact s s' i keep h).1]
  exact C09_retain_keeps_order keep true 0 s.idle

/-- **C09 (take).** `Object::take` — the four steps of `detach_object`, run from any state
whose `size` does not exceed `max_size` (always the case unless a shrink left a residue):
the value is handed to the caller (`taken` event after exactly one `detach`), `size` and
`users` drop by one, and one capacity token goes back to the semaphore (a slot is free for
a new object). -/
theorem C09_take (s : State) (i : Nat) (o : Obj) (hop : s.ops[i]? = some (.take .users o false))
    (hlock : s.lock = none) (hsz : s.size ≤ s.maxSize) :
    ∃ s', run? s [.step i .run, .step i .run, .step i .run, .step i .run] = some s' ∧
      s'.ops[i]? = some .done ∧ s'.size = s.size - 1 ∧ s'.users = s.users - 1 ∧
      s'.sem = s.sem.addPermits 1 ∧ s'.idle = s.idle ∧ s'.out = s.out ∧ s'.maxSize = s.maxSize ∧
      s'.log = s.log ++ [.detach i o.id, .taken i o.id] := by
  have h1 : (s.ops.set i (.take .lock o false))[i]? = some (.take .lock o false) :=
    getElem?_set_self' hop
  simp only [run?, step, stepOp, hop, stepTake, BEq.rfl, if_true, State.setOp, Option.map_some,
    Option.bind_some, h1, State.lockFree, hlock, Bool.not_true, Bool.false_eq_true, if_false, hsz,
    decide_true, List.set_set, getElem?_set_self' hop, State.emit]
  refine ⟨_, rfl, ?_, rfl, rfl, rfl, rfl, rfl, rfl, ?_⟩
  · exact getElem?_set_self' hop
  · simp

/-- **C09 (detach exactly once).** In every reachable state, for every object id:
`Manager::detach` has been called exactly as many times as the object has left the pool
(destroyed, taken, or removed by retain) — which is at most once — and never for an object
that is still idle, checked out or in the hands of an operation; and no object is in two
places. -/
theorem C09_detach_exactly_once (s : State) (r : Reach s) (id : Nat) :
    detachCnt id s.log = goneCnt id s.log ∧ detachCnt id s.log ≤ 1 ∧
    (0 < idCnt id s.idle + idCnt id s.out + sumW (Op.heldCnt id) s.ops → detachCnt id s.log = 0) ∧
    idCnt id s.idle + idCnt id s.out + sumW (Op.heldCnt id) s.ops ≤ 1 := by
  have p := r.cons.place id
  have d := r.cons.detach id
  have b := ltInd_le_one id s.nextId
  refine ⟨d, by omega, fun h => by omega, by omega⟩

theorem C09_detach_exactly_once_run (cfg : Cfg) (acts : List Action) (id : Nat) :
    detachCnt id (run (init cfg) acts).log = goneCnt id (run (init cfg) acts).log ∧
    detachCnt id (run (init cfg) acts).log ≤ 1 :=
  ⟨(C09_detach_exactly_once _ (reach_run cfg acts) id).1,
   (C09_detach_exactly_once _ (reach_run cfg acts) id).2.1⟩

/-- an object that is gone never comes back: it is nowhere in the pool in any later state,
in particular it is never handed out again -/
theorem C09_gone_is_gone (cfg : Cfg) (acts more : List Action) (id : Nat)
    (hg : 0 < goneCnt id (run (init cfg) acts).log) :
    idCnt id (run (init cfg) (acts ++ more)).idle = 0 ∧
    idCnt id (run (init cfg) (acts ++ more)).out = 0 ∧
    sumW (Op.heldCnt id) (run (init cfg) (acts ++ more)).ops = 0 := by
  have c := (reach_run cfg (acts ++ more)).cons
  have p := c.place id
  have b := ltInd_le_one id (run (init cfg) (acts ++ more)).nextId
  have mono : goneCnt id (run (init cfg) acts).log ≤ goneCnt id (run (init cfg) (acts ++ more)).log := by
    rw [run_append]
    obtain ⟨es, h⟩ := run_log (run (init cfg) acts) more
    rw [h, goneCnt_append]
    omega
  omega

/-- **C09 (a panicking `Manager::detach` does not upset the books).** When `detach` panics
inside `Object::take` or on the surplus path of a return, everything but the way the call
ends is as on the normal path: `size`, `users`, the semaphore, the idle queue and the set of
checked-out objects are the same, `detach` was called once for the object, and the object is
destroyed (by the unwinding) instead of being handed to the caller of `take`. -/
theorem C09_detach_panic_books (s s1 s2 s3 s4 : State) (i : Nat) (o : Obj) (add : Bool)
    (h1 : stepTake s i .detach o add = some s1) (h2 : stepTakePanic s i o = some s2)
    (h3 : stepRet s i .detach o = some s3) (h4 : stepRetPanic s i o = some s4) :
    (s2.size = s1.size ∧ s2.users = s1.users ∧ s2.sem = s1.sem ∧ s2.idle = s1.idle ∧
      s2.out = s1.out ∧ s2.maxSize = s1.maxSize ∧ s2.ops = s1.ops ∧
      s1.log = s.log ++ [.detach i o.id, .taken i o.id] ∧
      s2.log = s.log ++ [.detach i o.id, .destroy i o.id, .opPanic i]) ∧
    (s4.size = s3.size ∧ s4.users = s3.users ∧ s4.sem = s3.sem ∧ s4.idle = s3.idle ∧
      s4.out = s3.out ∧ s4.maxSize = s3.maxSize ∧ s4.ops = s3.ops ∧
      s3.log = s.log ++ [.detach i o.id, .destroy i o.id] ∧
      s4.log = s.log ++ [.detach i o.id, .destroy i o.id, .opPanic i]) := by
  simp only [stepTake, stepTakePanic, stepRet, stepRetPanic, Option.some.injEq] at h1 h2 h3 h4
  subst h1 h2 h3 h4
  exact ⟨⟨rfl, rfl, rfl, rfl, rfl, rfl, rfl, rfl, rfl⟩, ⟨rfl, rfl, rfl, rfl, rfl, rfl, rfl, rfl, rfl⟩⟩

/-! Non-vacuity: retain with a stateful predicate (keep, drop, keep) over three idle objects -/

example : selectBy [true, false, true] true 0
    [{ id := 4, created := 0 }, { id := 7, created := 0 }, { id := 9, created := 0 }] =
    [{ id := 4, created := 0 }, { id := 9, created := 0 }] := by decide

end DeadpoolVerif
