/-
C12 — unmanaged pool calls never panic and close() is final.
Also the unmanaged pool's single timeout (last clause of C10).

Property theorems only; helper lemmas live in `Lemmas/`.
-/
import DeadpoolVerif.Lemmas.UConserve
import DeadpoolVerif.Lemmas.USemWF
import DeadpoolVerif.Lemmas.UEmpty

namespace DeadpoolVerif
namespace U

/-- **C12 (no panic).** In every reachable state of the unmanaged pool — all thread-level
interleavings of close() with every other operation in every phase — no checked
subtraction has underflowed and no `unwrap` has failed: the calls never panic. -/
theorem C12_no_fault (cfg : Cfg) (hc : cfg.initial ≤ cfg.maxSize) (acts : List Action) :
    (run (init cfg) acts).fault = none :=
  (run_acct cfg hc acts).nf

/-- while the pool is open, a getter that holds a permit always finds an object to pop
(the `pop()` can only come back empty after a close(), where the fixed code answers
`Closed`) -/
theorem C12_pop_finds_object (cfg : Cfg) (hc : cfg.initial ≤ cfg.maxSize) (acts : List Action)
    (i : Nat) (w : Tmo) (t r : Bool)
    (hop : (run (init cfg) acts).ops[i]? = some (.get w t r .pop))
    (ho : (run (init cfg) acts).sem.closed = false) :
    0 < (run (init cfg) acts).queue.length := by
  have a := run_acct cfg hc acts
  have h := (a.open_ ho).1
  have b := sumW_mem_le Op.popW _ _ _ hop
  simp only [Op.popW] at b
  omega

/-- **C12 (every call ends with a value or a documented error).** The acquisition step of
any get / remove variant on a closed pool yields `Closed` — whether it is a fresh call, a
caller that was waiting (woken by close), a re-poll or an expiring timeout — and the pop
step answers `Closed` if the queue was cleared under it. -/
theorem C12_get_after_close (s s' : State) (i : Nat) (w : Tmo) (t r : Bool) (pc : GPc) (oc : Outcome)
    (hc : s.sem.closed = true) (hpc : pc = .start ∨ pc = .queued)
    (h : stepGet s i w t r pc oc = some s') :
    (∃ res, s'.log = s.log ++ [.result i res] ∧
      (res = .closed none ∨ res = .noRuntime ∨ res = .cancelled)) ∧ s'.hands = s.hands := by
  have hp : ∀ sem rr, s.sem.pollAcquire i = (sem, rr) → rr = .closed := by
    intro sem rr hp
    unfold Sem.pollAcquire at hp
    simp only [hc, if_true] at hp
    split at hp <;> (simp only [Prod.mk.injEq] at hp; exact hp.2.symm)
  have ht : ∀ sem rr, s.sem.tryAcquire = (sem, rr) → rr = .closed := by
    intro sem rr hp
    unfold Sem.tryAcquire at hp
    simp only [hc, if_true, Prod.mk.injEq] at hp
    exact hp.2.symm
  rcases hpc with rfl | rfl <;> cases t <;> cases oc <;> simp only [stepGet] at h
  all_goals first | (simp at h; done) | skip
  all_goals repeat' split at h
  all_goals first | (simp at h; done) | skip
  all_goals try (exact absurd trivial ‹¬True›)
  all_goals (simp only [Option.some.injEq] at h; subst h)
  all_goals try (have q := hp _ _ ‹Sem.pollAcquire _ _ = _›)
  all_goals try (have q := ht _ _ ‹Sem.tryAcquire _ = _›)
  all_goals first
    | exact TryRes.noConfusion q
    | exact PollRes.noConfusion q
    | (refine ⟨⟨_, rfl, ?_⟩, rfl⟩; simp)

/-- **C12 (add on a closed pool hands the object back).** -/
theorem C12_add_after_close (s s' : State) (i id : Nat) (t : Bool) (pc : APc)
    (hc : s.sizeSem.closed = true) (hpc : pc = .start ∨ pc = .queued)
    (h : stepAdd s i id t pc .run = some s') :
    s'.returned = s.returned ++ [id] ∧ s'.queue = s.queue ∧
    s'.log = s.log ++ [.result i (.closed (some id))] := by
  have hp : ∀ sem rr, s.sizeSem.pollAcquire i = (sem, rr) → rr = .closed := by
    intro sem rr hp
    unfold Sem.pollAcquire at hp
    simp only [hc, if_true] at hp
    split at hp <;> (simp only [Prod.mk.injEq] at hp; exact hp.2.symm)
  have ht : ∀ sem rr, s.sizeSem.tryAcquire = (sem, rr) → rr = .closed := by
    intro sem rr hp
    unfold Sem.tryAcquire at hp
    simp only [hc, if_true, Prod.mk.injEq] at hp
    exact hp.2.symm
  rcases hpc with rfl | rfl <;> cases t <;> simp only [stepAdd] at h
  all_goals first | (simp at h; done) | skip
  all_goals repeat' split at h
  all_goals first | (simp at h; done) | skip
  all_goals (simp only [Option.some.injEq] at h; subst h)
  all_goals try (have q := hp _ _ ‹Sem.pollAcquire _ _ = _›)
  all_goals try (have q := ht _ _ ‹Sem.tryAcquire _ = _›)
  all_goals first
    | exact TryRes.noConfusion q
    | exact PollRes.noConfusion q
    | exact ⟨rfl, rfl, rfl⟩

/-- close() is final: once the semaphores are closed they stay closed (every `Sem`
operation preserves the flag), and closing wakes every waiting getter and adder -/
theorem C12_close_wakes (s s1 s2 : State) (i : Nat)
    (h1 : stepClose s i .sem = some s1) (h2 : stepClose s1 i .sizeSem = some s2) :
    s2.sem.closed = true ∧ s2.sem.queue = [] ∧ s2.sizeSem.closed = true ∧ s2.sizeSem.queue = [] := by
  simp only [stepClose, Option.some.injEq] at h1 h2
  subst h1; subst h2
  exact ⟨rfl, rfl, rfl, rfl⟩

/-- **C12 (a closed pool at rest holds no objects).** When the pool is closed and no
operation is in progress, the queue is empty: whatever was in it or came back to it has
been dropped. -/
theorem C12_closed_pool_is_empty (cfg : Cfg) (hc : cfg.initial ≤ cfg.maxSize) (acts : List Action)
    (hd : ∀ op ∈ (run (init cfg) acts).ops, op = Op.done)
    (hclosed : (run (init cfg) acts).sem.closed = true) :
    (run (init cfg) acts).queue = [] := by
  have e := run_empty cfg acts
  exact e.closedEmpty hclosed (sumW_zero _ _ (fun x hx => by rw [hd x hx]; rfl))

/-- **C12 (returned later = dropped).** An object whose return begins on a closed pool is
dropped at once: it never enters the queue, so nobody — not even a `get()` that obtained its
permit before `close()` — can be handed it; `size` drops by one, nothing else changes.  (The
pinned code pushed it first and cleaned up afterwards, leaving a window in which such a getter
popped it: repaired, see known_findings.txt.) -/
theorem C12_return_after_close_dropped (s s' : State) (i id : Nat)
    (hc : s.sem.closed = true) (h : stepRet s i id .push = some s') :
    s'.queue = s.queue ∧ s'.hands = s.hands ∧ s'.dropped = s.dropped ++ [id] ∧
    s'.size = s.size - 1 ∧ s'.sem = s.sem ∧ s'.sizeSem = s.sizeSem ∧ s'.available = s.available ∧
    s'.ops = s.ops.set i .done ∧ s'.log = s.log ++ [.dropped i id] := by
  simp only [stepRet, hc, if_true, Option.some.injEq] at h
  subst h
  exact ⟨rfl, rfl, rfl, rfl, rfl, rfl, rfl, rfl, rfl⟩

/-- on an open pool the return goes the usual way: the object is queued first -/
theorem C12_return_open_queues (s s' : State) (i id : Nat)
    (hc : s.sem.closed = false) (h : stepRet s i id .push = some s') :
    s'.queue = s.queue ++ [id] ∧ s'.dropped = s.dropped := by
  simp only [stepRet, hc, Bool.false_eq_true, if_false, Option.some.injEq] at h
  subst h
  exact ⟨rfl, rfl⟩

/-- **C10 (unmanaged timeout).** The unmanaged pool's single timeout follows the same rules
as the managed pool's wait timeout: zero → never waits (`Timeout` at once if no object is
available, `Closed` if closed); finite without runtime → `NoRuntimeSpecified` before the
semaphore is touched; finite with runtime → `Timeout` when the deadline passes without an
object, while an object handed over before the deadline wins. -/
theorem C10_unmanaged_timeout (s s' : State) (i : Nat) (r : Bool) :
    (stepGet s i .zero false r .start .run = some s' → s.sem.closed = false → s.sem.permits = 0 →
      s'.log = s.log ++ [.result i (.timeout none)] ∧ s'.sem = s.sem ∧ s'.available = s.available) ∧
    (stepGet s i .finite false r .start .run = some s' → s.cfg.rt = false →
      s'.log = s.log ++ [.result i .noRuntime] ∧ s'.sem = s.sem ∧ s'.available = s.available) ∧
    (stepGet s i .finite false r .queued .deadline = some s' → s.cfg.rt = true →
      s.sem.closed = false → i ∈ s.sem.assigned →
      s'.ops = s.ops.set i (.get .finite false r .pop)) ∧
    (stepGet s i .finite false r .queued .deadline = some s' → s.cfg.rt = true →
      s.sem.closed = false → i ∉ s.sem.assigned → s.sem.permits = 0 →
      s'.log = s.log ++ [.result i (.timeout none)] ∧ s'.available = s.available + 1) := by
  refine ⟨?_, ?_, ?_, ?_⟩
  · intro h hc hp
    simp only [stepGet, Sem.tryAcquire, hc, hp, Bool.false_eq_true, if_false, if_true, BEq.rfl,
      Option.some.injEq] at h
    subst h; exact ⟨rfl, rfl, rfl⟩
  · intro h hrt
    simp [stepGet, hrt] at h
    subst h; exact ⟨rfl, rfl, rfl⟩
  · intro h hrt hc ha
    have : s.sem.pollAcquire i = ({ s.sem with assigned := s.sem.assigned.erase i }, .ok) := by
      simp [Sem.pollAcquire, hc, ha]
    simp only [stepGet, Bool.false_eq_true, if_false, BEq.rfl, hrt, Bool.and_self, if_true, this,
      Option.some.injEq] at h
    subst h; rfl
  · intro h hrt hc ha hp
    have : ∃ sem1, s.sem.pollAcquire i = (sem1, .pending) := by
      unfold Sem.pollAcquire
      simp only [hc, Bool.false_eq_true, if_false, ha, hp, if_true]
      split <;> exact ⟨_, rfl⟩
    obtain ⟨sem1, h1⟩ := this
    simp only [stepGet, Bool.false_eq_true, if_false, BEq.rfl, hrt, Bool.and_self, if_true, h1,
      Option.some.injEq] at h
    subst h; exact ⟨rfl, rfl⟩

end U
end DeadpoolVerif
