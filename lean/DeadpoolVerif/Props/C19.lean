/-
C19 — redis configs are unambiguous; conversions and serialisation are lossless.

Property theorems only.
-/
import DeadpoolVerif.Model.RedisConfig
import Std.Data.String.ToNat

namespace DeadpoolVerif
namespace Rd

/-- **C19 (the decision).** A Config naming both urls and connection structures is rejected
with `UrlAndConnectionSpecified`; one naming neither uses the default local server;
otherwise exactly the named ones are used — for the standalone, cluster and sentinel
flavours (`α`, `β` are a url / a connection or lists of them). -/
theorem C19_decision {α β : Type} (urls : Option α) (conns : Option β) :
    (decide urls conns = .urlAndConnectionSpecified ↔ urls.isSome ∧ conns.isSome) ∧
    (decide urls conns = .useDefault ↔ urls = none ∧ conns = none) ∧
    (∀ u, decide urls conns = .useUrls u ↔ urls = some u ∧ conns = none) ∧
    (∀ c, decide urls conns = .useConnections c ↔ urls = none ∧ conns = some c) := by
  cases urls <;> cases conns <;> simp [decide]

/-- **C19 (builder).** What `builder()` / `create_pool()` of any flavour does with any Config:
both given → `UrlAndConnectionSpecified` whatever else is wrong; neither → the default local
server; only urls → an error if one is malformed (or the redis crate refuses the list), else
exactly the urls' servers; only connections → exactly those; the pool section reaches the pool,
its absence means the default size. -/
theorem C19_builder (urls : Option (List (Option Server))) (conns : Option (List Server))
    (au ac : Bool) (pool : Option Nat) (d : Nat) :
    (urls.isSome ∧ conns.isSome → builder urls conns au ac pool d = .errBoth) ∧
    (urls = none ∧ conns = none → builder urls conns au ac pool d = .ok [.dflt] (pool.getD d)) ∧
    (∀ us, urls = some us → conns = none →
        ((∃ u ∈ us, u = none) → builder urls conns au ac pool d = .errRedis) ∧
        ((∀ u ∈ us, u ≠ none) → au = true →
            builder urls conns au ac pool d = .ok (us.filterMap id) (pool.getD d))) ∧
    (∀ cs, urls = none → conns = some cs → ac = true →
        builder urls conns au ac pool d = .ok cs (pool.getD d)) ∧
    (builder urls conns au ac pool d = .errBoth → urls.isSome ∧ conns.isSome) := by
  refine ⟨?_, ?_, ?_, ?_, ?_⟩
  · cases urls <;> cases conns <;> simp [builder, decide]
  · rintro ⟨rfl, rfl⟩; simp [builder, decide]
  · rintro us rfl rfl
    constructor
    · rintro ⟨u, hu, rfl⟩
      have : us.all Option.isSome = false := by
        rw [List.all_eq_false]; exact ⟨none, hu, by simp⟩
      simp [builder, decide, this]
    · intro h hau
      have : us.all Option.isSome = true := by
        rw [List.all_eq_true]; intro u hu
        cases u with
        | none => exact absurd rfl (h none hu)
        | some _ => rfl
      simp [builder, decide, this, hau]
  · rintro cs rfl rfl rfl; simp [builder, decide]
  · cases urls <;> cases conns <;> simp [builder, decide] <;> (try split) <;> simp

/-- a malformed url never yields a pool (and never anything but a configuration error) -/
theorem C19_malformed_url (us : List (Option Server)) (conns : Option (List Server))
    (au ac : Bool) (pool : Option Nat) (d : Nat) (h : none ∈ us) :
    builder (some us) conns au ac pool d = .errRedis ∨ builder (some us) conns au ac pool d = .errBoth := by
  have : us.all Option.isSome = false := by
    rw [List.all_eq_false]; exact ⟨none, h, by simp⟩
  cases conns <;> simp [builder, decide, this]

/-- **C19 (conversions preserve everything).** Converting a connection description to the
redis crate's type and back gives the original: address (host, port, insecure flag, socket
path), database, username, password and protocol are all preserved. -/
theorem C19_conv_roundtrip (i : Info) : i.toRedis.toOurs = i := by
  cases i with
  | mk addr r => cases addr <;> rfl

theorem C19_addr_roundtrip (a : Addr) : a.toRedis.toOurs = a := by cases a <;> rfl

/-- the other direction loses exactly `tls_params` -/
theorem C19_conv_roundtrip_redis (i : RedisInfo) :
    i.toOurs.toRedis = { i with addr := i.addr.eraseTls } := by
  cases i with
  | mk addr r => cases addr <;> rfl

theorem C19_node_info_roundtrip (n : NodeInfo) : n.conv.conv = n := rfl

/-- **C19 (sentinel: the description of the monitored servers is used on every route).** However
the sentinels are named - by urls, by connection structures, or not at all - the manager is
built with the configured `node_connection_info`, so the connections to the monitored server
authenticate with its username / password and select its database exactly as a direct
conversion of it would (nothing is dropped on one of the routes); no manager is built only
when both urls and connections are given. -/
theorem C19_sentinel_node {α β : Type} (urls : Option α) (conns : Option β) (node : Option NodeInfo) :
    (¬ (urls.isSome ∧ conns.isSome) →
      sentinelNode urls conns node = some (node.map NodeInfo.conv) ∧
      ∀ n', sentinelNode urls conns node = some n' → nodeWire n' = nodeWire node) ∧
    (urls.isSome ∧ conns.isSome → sentinelNode urls conns node = none) := by
  have hw : nodeWire (node.map NodeInfo.conv) = nodeWire node := by
    cases node <;> rfl
  cases urls <;> cases conns <;> simp [sentinelNode, decide, hw]

/-- not vacuous: credentials and database of a node description reach the wire -/
example :
    nodeWire (some ⟨none, some ⟨5, some "u", some "p", .resp2⟩⟩) =
      { auth := some (some "u", "p"), db := 5 } := rfl

/-- address, database, username, password and protocol survive each single conversion -/
theorem C19_conv_fields (i : Info) :
    i.toRedis.redis = i.redis ∧
    (∀ h p, i.addr = .tcp h p → i.toRedis.addr = .tcp h p) ∧
    (∀ h p s, i.addr = .tcpTls h p s → i.toRedis.addr = .tcpTls h p s false) ∧
    (∀ p, i.addr = .unix p → i.toRedis.addr = .unix p) := by
  refine ⟨rfl, ?_, ?_, ?_⟩ <;> (intros; simp_all [Info.toRedis, Addr.toRedis])

theorem decOptDur_enc (d : Option Dur) : decOptDur false (some (encOptDur d)) = some d := by
  cases d with
  | none => rfl
  | some d => cases d; simp [encOptDur, encDur, decOptDur, decDur, Tree.get, asNum]

/-- **C19 (serialisation round trip).** Every `PoolConfig` — any `max_size`, any durations
(the full `secs` / `nanos` range: they are unbounded naturals here), both queue modes —
deserialises from its own serialised form to itself. -/
theorem C19_serde_roundtrip (p : PoolConfig) : decode (encode p) = some p := by
  cases p with
  | mk m t q =>
    cases t with
    | mk w c r =>
      have hw := decOptDur_enc w
      have hc := decOptDur_enc c
      have hr := decOptDur_enc r
      cases q <;>
        simp [decode, decodeWith, asNum, encode, Tree.get, decTimeouts, encTimeouts, encQueueMode,
          decQueueMode, hw, hc, hr]

/-- omitted sections take the documented defaults: no timeouts, `Fifo` -/
theorem C19_serde_defaults (m : Nat) :
    decode (.obj [("max_size", .num m)]) = some { maxSize := m } := by
  simp [decode, decodeWith, asNum, Tree.get]

theorem C19_serde_partial_timeouts (m : Nat) (d : Dur) :
    decode (.obj [("max_size", .num m), ("timeouts", .obj [("wait", encDur d)])]) =
      some { maxSize := m, timeouts := { wait := some d } } := by
  cases d
  simp [decode, decodeWith, asNum, Tree.get, decTimeouts, decOptDur, decDur, encDur]

@[simp] theorem asNum_str (n : Nat) : asNum true (.str n.repr) = some n := by
  show n.repr.toNat? = some n
  exact Nat.toNat?_repr n

theorem decDur_encStr (d : Dur) : decDur true (encDurStr d) = some d := by
  cases d; simp [decDur, encDurStr, Tree.get, asNum_str]

theorem decOptDur_encStr (d : Dur) : decOptDur true (some (encDurStr d)) = some (some d) := by
  have h := decDur_encStr d
  simp only [encDurStr] at h ⊢
  simp only [decOptDur, h, Option.map_some]

/-- **C19 (string-typed sources).** The environment-style rendering — every leaf a string,
unset timeouts simply absent — is read back to the same `PoolConfig`. -/
theorem C19_serde_roundtrip_stringly (p : PoolConfig) : decodeWith true (encodeStr p) = some p := by
  cases p with
  | mk m t q =>
    cases t with
    | mk w c r =>
      cases w <;> cases c <;> cases r <;> cases q <;>
        simp [decodeWith, encodeStr, encTimeoutsStr, Tree.get, asNum_str, decTimeouts,
          decOptDur_encStr, encQueueMode, decQueueMode] <;> simp [decOptDur]

/-! Non-vacuity -/
example : decode (encode { maxSize := 16, timeouts := { wait := some ⟨5, 999999999⟩ }, queueMode := .lifo }) =
    some { maxSize := 16, timeouts := { wait := some ⟨5, 999999999⟩ }, queueMode := .lifo } := by
  decide


/-- **C19 (whole configs read from a document).** For the three flavours: deserialising a
document conjures nothing - a `url(s)` / `connection(s)` / `pool` key that is absent stays
absent - so a document naming only urls yields a config that uses exactly those, one naming
only connections exactly those, one naming neither the default server; and every other omitted
key takes its documented default (`read_from_replicas = false`, `server_type = master`,
`master_name = "mymaster"`), a given one its value. -/
theorem C19_whole_defaults (f : Flavour) (d : WholeDoc) :
    ((decodeWhole f d).urls = d.urls ∧ (decodeWhole f d).conns = d.conns ∧
      (decodeWhole f d).pool = d.pool) ∧
    (d.flag = none → (decodeWhole f d).flag = false) ∧
    (∀ b, d.flag = some b → (decodeWhole f d).flag = b) ∧
    (f = .sentinel → d.name = none → (decodeWhole f d).name = "mymaster") ∧
    (∀ n, f = .sentinel → d.name = some n → (decodeWhole f d).name = n) ∧
    (d.urls = true → d.conns = false → (decodeWhole f d).decision = .useUrls ()) ∧
    (d.urls = false → d.conns = true → (decodeWhole f d).decision = .useConnections ()) ∧
    (d.urls = false → d.conns = false → (decodeWhole f d).decision = .useDefault) ∧
    (d.urls = true → d.conns = true →
      (decodeWhole f d).decision = .urlAndConnectionSpecified) := by
  refine ⟨⟨rfl, rfl, rfl⟩, ?_, ?_, ?_, ?_, ?_, ?_, ?_, ?_⟩
  · intro h; simp [decodeWhole, h]
  · intro b h; simp [decodeWhole, h]
  · intro hf h; subst hf; simp [decodeWhole, h]
  · intro n hf h; subst hf; simp [decodeWhole, h]
  · intro h1 h2; simp [Whole.decision, decodeWhole, h1, h2, decide]
  · intro h1 h2; simp [Whole.decision, decodeWhole, h1, h2, decide]
  · intro h1 h2; simp [Whole.decision, decodeWhole, h1, h2, decide]
  · intro h1 h2; simp [Whole.decision, decodeWhole, h1, h2, decide]

/-- not vacuous: the empty sentinel document -/
example : decodeWhole .sentinel {} = ⟨false, false, none, false, "mymaster"⟩ := rfl

end Rd
end DeadpoolVerif
