/-
All state invariants bundled; they hold in every state reachable from `init cfg` and are
preserved along any further run.
-/
import DeadpoolVerif.Lemmas.ConserveStep
import DeadpoolVerif.Lemmas.LinkStep

namespace DeadpoolVerif

structure Reach (s : State) : Prop where
  acct : Acct s
  link : Link s
  cons : Conserve s

theorem reach_run (cfg : Cfg) (acts : List Action) : Reach (run (init cfg) acts) :=
  ⟨run_acct cfg acts, run_link cfg acts, run_conserve cfg acts⟩

theorem Reach.step {s s' : State} {a : Action} (r : Reach s) (h : step s a = some s') : Reach s' :=
  ⟨step_acct r.acct h, step_link r.link h, step_conserve r.cons h⟩

theorem Reach.run? {s s' : State} (r : Reach s) (as : List Action) (h : run? s as = some s') :
    Reach s' := by
  induction as generalizing s with
  | nil => simp only [DeadpoolVerif.run?, Option.some.injEq] at h; subst h; exact r
  | cons a as ih =>
    simp only [DeadpoolVerif.run?] at h
    cases hst : DeadpoolVerif.step s a with
    | none => rw [hst] at h; simp at h
    | some s1 => rw [hst] at h; exact ih (r.step hst) h

end DeadpoolVerif
