/-
The sequential drivers only ever produce runs of the pool model: whatever `soloWith` returns is
`run?` of the action list `soloActs`.  And when the environment never answers `Manager::recycle`
with `ok` for a spoiled connection, that action list is `Honest` — so the C15 / C16 / C17
theorems about all honest histories cover the histories the correspondence checks replay.
-/
import DeadpoolVerif.Model.Solo
import DeadpoolVerif.Lemmas.SyncPools

namespace DeadpoolVerif
namespace Solo

theorem soloWith_run {σ : Type} (env : Env σ) (e : σ) (s : State) (i : Nat) (fuel : Nat) :
    run? s (soloActs env e s i fuel) = some (soloWith env e s i fuel).2 := by
  induction fuel generalizing e s with
  | zero => rfl
  | succ fuel ih =>
    simp only [soloActs, soloWith]
    cases he : env e s i with
    | none => rfl
    | some p =>
      obtain ⟨oc, e'⟩ := p
      simp only
      cases hs : step s (.step i oc) with
      | none => rfl
      | some s' =>
        simp only [run?, hs, Option.bind_some]
        exact ih e' s'

/-- `run` (which skips refused actions) agrees: none of `soloActs` is refused -/
theorem soloWith_run' {σ : Type} (env : Env σ) (e : σ) (s : State) (i : Nat) (fuel : Nat) :
    run s (soloActs env e s i fuel) = (soloWith env e s i fuel).2 := by
  induction fuel generalizing e s with
  | zero => rfl
  | succ fuel ih =>
    simp only [soloActs, soloWith]
    cases he : env e s i with
    | none => rfl
    | some p =>
      obtain ⟨oc, e'⟩ := p
      simp only
      cases hs : step s (.step i oc) with
      | none => rfl
      | some s' =>
        rw [run_cons, hs]
        exact ih e' s'

/-- an environment is honest w.r.t. `sp` when it answers `ok` at the `Manager::recycle`
callback only for connections that are not spoiled -/
def EnvHonest {σ : Type} (sp : SP.Spoiled) (env : Env σ) : Prop :=
  ∀ e s i e' o, env e s i = some (.ok, e') → atRecycle s i = some o → sp o.id o.handouts = false

theorem okAllowed_of_atRecycle (sp : SP.Spoiled) (s : State) (i : Nat)
    (h : ∀ o, atRecycle s i = some o → sp o.id o.handouts = false) :
    SP.okAllowed sp s (.step i .ok) = true := by
  simp only [SP.okAllowed]
  cases hop : s.ops[i]? with
  | none => simp
  | some op =>
    cases op with
    | get t pc =>
      cases pc with
      | recycling k o susp =>
        by_cases hk : k = s.cfg.pre.length
        · have := h o (by simp [atRecycle, hop, hk])
          simp [hk, this]
        · simp [hk]
      | _ => simp
    | _ => simp

/-- the actions of a sequential run under an honest environment form an honest history -/
theorem soloActs_honest {σ : Type} (sp : SP.Spoiled) (env : Env σ) (hh : EnvHonest sp env)
    (e : σ) (s : State) (i : Nat) (fuel : Nat) :
    SP.Honest sp s (soloActs env e s i fuel) := by
  induction fuel generalizing e s with
  | zero => trivial
  | succ fuel ih =>
    simp only [soloActs]
    cases he : env e s i with
    | none => trivial
    | some p =>
      obtain ⟨oc, e'⟩ := p
      simp only
      cases hs : step s (.step i oc) with
      | none => trivial
      | some s' =>
        refine ⟨?_, ?_⟩
        · cases oc with
          | ok => exact okAllowed_of_atRecycle sp s i (fun o ho => hh e s i e' o he ho)
          | _ => rfl
        · simp only [hs, Option.getD_some]
          exact ih e' s'

/-- the environment of the C15 driver is honest for connections judged by their identity -/
theorem sp_env_honest (good : Nat → Bool) :
    EnvHonest (fun id _ => !good id) (SP.env fun o => good o.id) := by
  intro e s i e' o he ho
  simp only [SP.env, Option.map_eq_some_iff] at he
  obtain ⟨oc, hoc, hpair⟩ := he
  have : oc = .ok := by cases hpair; rfl
  subst this
  -- at the recycle callback the default outcome is `ok` only for a good connection
  unfold atRecycle at ho
  unfold defaultOutcome at hoc
  cases hop : s.ops[i]? with
  | none => simp [hop] at ho
  | some op =>
    cases op with
    | get t pc =>
      cases pc with
      | recycling k o' susp =>
        simp only [hop] at ho hoc
        by_cases hk : k = s.cfg.pre.length
        · simp only [hk, if_true, Option.some.injEq] at ho hoc
          subst ho
          by_cases hg : good o'.id
          · simp [hg]
          · simp [hg] at hoc
        · simp [hk] at ho
      | _ => simp [hop] at ho
    | _ => simp [hop] at ho

end Solo
end DeadpoolVerif
