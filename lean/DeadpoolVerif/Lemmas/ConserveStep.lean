/-
`Conserve` is preserved by every transition, hence holds in every reachable state.
-/
import DeadpoolVerif.Lemmas.Conserve

namespace DeadpoolVerif

theorem Conserve.tick {s : State} (c : Conserve s) (n : Nat) : Conserve { s with now := n } :=
  ⟨c.place, c.detach⟩

macro "cons_simp" h:ident : tactic => `(tactic|
  simp only [State.setOp, State.emit, arriveRecycle, handOut, arrivePostCreate, failPermit,
    finishResize, sumW_set' _ _ $h, Op.heldCnt, Op.held, idCnt_append, idCnt_cons,
    idCnt_nil, goneCnt_append, goneCnt_cons, goneCnt_nil, detachCnt_append, detachCnt_cons,
    detachCnt_nil, natCnt_cons, natCnt_nil, Ev.goneIds, Ev.detachIds, Nat.add_zero, Nat.zero_add,
    Nat.sub_zero, Bool.false_eq_true, ↓reduceIte] at *)

macro "cons_leaf" c:ident h:ident : tactic => `(tactic| (
  refine ⟨fun id => ?_, fun id => ?_⟩
  · have p := ($c).place id
    have b := sumW_mem_le (Op.heldCnt id) _ _ _ $h
    have hsucc := ltInd_succ id ‹State›.nextId
    try (have t5 := idCnt_popIdle ‹popIdle _ _ = some _› id)
    first
      | (cons_simp $h; omega)
      | (cons_simp $h; split <;> cons_simp $h <;> omega)
  · have p := ($c).detach id
    first
      | (cons_simp $h; omega)
      | (cons_simp $h; split <;> cons_simp $h <;> omega)))

theorem stepGet_conserve {s s' : State} {i : Nat} {t : Timeouts} {pc : GPc} {oc : Outcome}
    (h : s.ops[i]? = some (.get t pc)) (c : Conserve s)
    (hs : stepGet s i t pc oc = some s') : Conserve s' := by
  unfold stepGet at hs
  repeat' split at hs
  all_goals first
    | (simp at hs; done)
    | skip
  all_goals (simp only [Option.some.injEq] at hs; subst hs)
  all_goals cons_leaf c h

theorem stepRet_conserve {s s' : State} {i : Nat} {pc : RPc} {o : Obj}
    (h : s.ops[i]? = some (.ret pc o)) (c : Conserve s)
    (hs : stepRet s i pc o = some s') : Conserve s' := by
  cases pc
  all_goals simp only [stepRet] at hs
  all_goals repeat' split at hs
  all_goals first
    | (simp at hs; done)
    | skip
  all_goals (simp only [Option.some.injEq] at hs; subst hs)
  all_goals cons_leaf c h

theorem stepTake_conserve {s s' : State} {i : Nat} {pc : TPc} {o : Obj} {add : Bool}
    (h : s.ops[i]? = some (.take pc o add)) (c : Conserve s)
    (hs : stepTake s i pc o add = some s') : Conserve s' := by
  cases pc
  all_goals simp only [stepTake] at hs
  all_goals repeat' split at hs
  all_goals first
    | (simp at hs; done)
    | skip
  all_goals (simp only [Option.some.injEq] at hs; subst hs)
  all_goals cons_leaf c h

theorem stepTakePanic_conserve {s s' : State} {i : Nat} {o : Obj} {add : Bool}
    (h : s.ops[i]? = some (.take .detach o add)) (c : Conserve s)
    (hs : stepTakePanic s i o = some s') : Conserve s' := by
  simp only [stepTakePanic, Option.some.injEq] at hs
  subst hs
  cons_leaf c h

theorem stepRetPanic_conserve {s s' : State} {i : Nat} {o : Obj}
    (h : s.ops[i]? = some (.ret .detach o)) (c : Conserve s)
    (hs : stepRetPanic s i o = some s') : Conserve s' := by
  simp only [stepRetPanic, Option.some.injEq] at hs
  subst hs
  cons_leaf c h

theorem stepResize_conserve {s s' : State} {i n old : Nat} {isClose : Bool} {pc : ZPc}
    (h : s.ops[i]? = some (.resize n isClose pc old)) (c : Conserve s)
    (hs : stepResize s i n isClose pc old = some s') : Conserve s' := by
  cases pc
  all_goals simp only [stepResize] at hs
  all_goals repeat' split at hs
  all_goals first
    | (simp at hs; done)
    | skip
  all_goals (simp only [Option.some.injEq] at hs; subst hs)
  all_goals try cases isClose
  all_goals (
    refine ⟨fun id => ?_, fun id => ?_⟩
    · have p := c.place id
      have b := sumW_mem_le (Op.heldCnt id) _ _ _ h
      have e := drainEvs_counts i s.idle id
      try (have il := congrArg (idCnt id) ‹s.idle = _ :: _›)
      first
        | (cons_simp h <;> omega)
        | (cons_simp h; simp only [idCnt] at *; omega)
    · have p := c.detach id
      have e := drainEvs_counts i s.idle id
      cons_simp h <;> omega)

theorem stepRetain_conserve {s s' : State} {i : Nat} {keep : List Bool}
    (h : s.ops[i]? = some (.retain keep)) (c : Conserve s)
    (hs : stepRetain s i keep = some s') : Conserve s' := by
  unfold stepRetain at hs
  split at hs
  · simp at hs
  · simp only [Option.some.injEq] at hs
    subst hs
    refine ⟨fun id => ?_, fun id => ?_⟩
    · have p := c.place id
      have b := sumW_mem_le (Op.heldCnt id) _ _ _ h
      have r := idCnt_retain keep 0 s.idle id
      have e := retainEvs_counts i keep 0 s.idle id
      have m := natCnt_map_id id (retainRemoved keep 0 s.idle)
      cons_simp h
      omega
    · have p := c.detach id
      have e := retainEvs_counts i keep 0 s.idle id
      have m := natCnt_map_id id (retainRemoved keep 0 s.idle)
      cons_simp h
      omega

theorem stepStatus_conserve {s s' : State} {i : Nat}
    (h : s.ops[i]? = some .status) (c : Conserve s)
    (hs : stepStatus s i = some s') : Conserve s' := by
  unfold stepStatus at hs
  split at hs
  · simp at hs
  · simp only [Option.some.injEq] at hs
    subst hs
    cons_leaf c h

theorem startOp_conserve {s s' : State} {sp : Spec} (c : Conserve s)
    (hs : startOp s sp = some s') : Conserve s' := by
  cases sp
  all_goals simp only [startOp] at hs
  all_goals repeat' split at hs
  all_goals first
    | (simp at hs; done)
    | skip
  all_goals (simp only [Option.some.injEq] at hs; subst hs)
  all_goals (
    refine ⟨fun id => ?_, fun id => c.detach id⟩
    have p := c.place id
    try (have e1 := idCnt_erase (findOut_mem ‹findOut _ _ = some _›) id)
    simp only [sumW_append, sumW_cons, sumW_nil, Op.heldCnt, Op.held] at *
    omega)

theorem stepOp_conserve {s s' : State} {i : Nat} {oc : Outcome} (c : Conserve s)
    (hs : stepOp s i oc = some s') : Conserve s' := by
  unfold stepOp at hs
  split at hs
  · simp at hs
  · rename_i op h
    cases op with
    | get t pc => exact stepGet_conserve h c hs
    | ret pc o =>
      simp only at hs
      split at hs
      · exact stepRet_conserve h c hs
      · split at hs
        · have := retPanic_pc ‹_›; subst this
          exact stepRetPanic_conserve h c hs
        · simp at hs
    | take pc o add =>
      simp only at hs
      split at hs
      · exact stepTake_conserve h c hs
      · split at hs
        · have := takePanic_pc ‹_›; subst this
          exact stepTakePanic_conserve h c hs
        · simp at hs
    | resize n cl pc old =>
      simp only at hs
      split at hs
      · exact stepResize_conserve h c hs
      · simp at hs
    | retain keep =>
      simp only at hs
      split at hs
      · exact stepRetain_conserve h c hs
      · simp at hs
    | status =>
      simp only at hs
      split at hs
      · exact stepStatus_conserve h c hs
      · simp at hs
    | done => simp at hs

theorem step_conserve {s s' : State} {act : Action} (c : Conserve s) (hs : step s act = some s') :
    Conserve s' := by
  unfold step at hs
  cases act with
  | start sp =>
    simp only [Option.map_eq_some_iff] at hs
    obtain ⟨s1, h1, rfl⟩ := hs
    exact (startOp_conserve c h1).tick _
  | step i oc =>
    simp only [Option.map_eq_some_iff] at hs
    obtain ⟨s1, h1, rfl⟩ := hs
    exact (stepOp_conserve c h1).tick _

/-- `Conserve` holds after any list of actions from the initial state. -/
theorem run_conserve (cfg : Cfg) (acts : List Action) : Conserve (run (init cfg) acts) := by
  suffices h : ∀ s, Conserve s → Conserve (run s acts) from h _ (Conserve.init cfg)
  induction acts with
  | nil => intro s a; exact a
  | cons act acts ih =>
    intro s a
    rw [run_cons]
    apply ih
    cases hst : step s act with
    | none => exact a
    | some s1 => exact step_conserve a hst

end DeadpoolVerif
