/-
`Link` is preserved by every transition, hence holds in every reachable state.
-/
import DeadpoolVerif.Lemmas.Link

namespace DeadpoolVerif

theorem Link.tick {s : State} (l : Link s) (n : Nat) : Link { s with now := n } :=
  ⟨l.wf, l.waiters, l.queued, l.lockOwner⟩

theorem mem_iff_of_eq {a b : List Nat} (h : a = b) (j : Nat) : j ∈ a ↔ j ∈ b := by rw [h]

/-- closes a leaf of a step function: tries the transition lemmas in turn -/
macro "link_leaf" l:ident h:ident : tactic => `(tactic| first
  | exact Link.frame $l $h rfl ($l).wf (fun _ => Iff.rfl) rfl rfl rfl rfl rfl
  | exact Link.frame $l $h rfl (($l).wf.addPermits _) (Sem.mem_waiting_addPermits _ _) rfl rfl rfl rfl rfl
  | exact Link.poll $l $h rfl (by assumption) rfl rfl rfl
  | exact Link.drop $l $h rfl rfl rfl rfl rfl
  | exact Link.pollDrop $l $h rfl (by assumption) rfl rfl rfl rfl
  | (have ht := ($l).wf.tryAcquire (by assumption)
     exact Link.frame $l $h rfl ht.1 (fun j => mem_iff_of_eq ht.2.1 j) ht.2.2 rfl rfl rfl rfl))

theorem stepGet_link {s s' : State} {i : Nat} {t : Timeouts} {pc : GPc} {oc : Outcome}
    (h : s.ops[i]? = some (.get t pc)) (l : Link s)
    (hs : stepGet s i t pc oc = some s') : Link s' := by
  unfold stepGet at hs
  simp only [arriveRecycle, arrivePostCreate, handOut, failPermit] at hs
  repeat' split at hs
  all_goals first
    | (simp at hs; done)
    | skip
  all_goals (simp only [Option.some.injEq] at hs; subst hs)
  all_goals link_leaf l h

theorem stepRet_link {s s' : State} {i : Nat} {pc : RPc} {o : Obj}
    (h : s.ops[i]? = some (.ret pc o)) (l : Link s)
    (hs : stepRet s i pc o = some s') : Link s' := by
  cases pc
  all_goals simp only [stepRet] at hs
  all_goals repeat' split at hs
  all_goals first
    | (simp at hs; done)
    | skip
  all_goals (simp only [Option.some.injEq] at hs; subst hs)
  all_goals link_leaf l h

theorem stepTake_link {s s' : State} {i : Nat} {pc : TPc} {o : Obj} {add : Bool}
    (h : s.ops[i]? = some (.take pc o add)) (l : Link s)
    (hs : stepTake s i pc o add = some s') : Link s' := by
  cases pc
  all_goals simp only [stepTake] at hs
  all_goals repeat' split at hs
  all_goals first
    | (simp at hs; done)
    | skip
  all_goals (simp only [Option.some.injEq] at hs; subst hs)
  all_goals first
    | link_leaf l h
    | (split <;> link_leaf l h)

theorem stepRetain_link {s s' : State} {i : Nat} {keep : List Bool}
    (h : s.ops[i]? = some (.retain keep)) (l : Link s)
    (hs : stepRetain s i keep = some s') : Link s' := by
  unfold stepRetain at hs
  split at hs
  · simp at hs
  · simp only [Option.some.injEq] at hs
    subst hs
    link_leaf l h

theorem stepStatus_link {s s' : State} {i : Nat}
    (h : s.ops[i]? = some .status) (l : Link s)
    (hs : stepStatus s i = some s') : Link s' := by
  unfold stepStatus at hs
  split at hs
  · simp at hs
  · simp only [Option.some.injEq] at hs
    subst hs
    link_leaf l h

/-- an operation that is not suspended in `acquire` is not a registered waiter -/
theorem Link.not_waiting {s : State} (l : Link s) {i : Nat} {y : Op} (h : s.ops[i]? = some y)
    (hy : y.isQ = false) : i ∉ s.sem.waiting := by
  intro hw
  obtain ⟨op, h1, h2⟩ := l.waiters i hw
  rw [h] at h1
  simp only [Option.some.injEq] at h1
  subst h1
  rw [hy] at h2
  exact absurd h2 (by simp)

/-- the resize leaves its critical region -/
theorem Link.unlock {s s' : State} {i : Nat} {x y : Op} (l : Link s) (h : s.ops[i]? = some y)
    (hops : s'.ops = s.ops.set i x) (hwf : s'.sem.WF)
    (hw : ∀ j, j ∈ s'.sem.waiting ↔ j ∈ s.sem.waiting) (hc : s'.sem.closed = s.sem.closed)
    (hy : y.isQ = false) (hx : x.isQ = false)
    (hyl : y.holdsLock = true) (hxl : x.holdsLock = false) (hlock : s'.lock = none) : Link s' := by
  refine l.update h hops hwf (fun j _ hj => (hw j).mp hj) (fun j _ hj => Or.inl ((hw j).mpr hj))
    ?_ ?_ (fun hcl => by rw [hc]; exact hcl) (Or.inr (Or.inr ⟨hyl, hxl, hlock⟩))
  · intro hi
    exact absurd ((hw i).mp hi) (l.not_waiting h hy)
  · intro hq; rw [hx] at hq; exact absurd hq (by simp)

theorem stepResize_link {s s' : State} {i n old : Nat} {isClose : Bool} {pc : ZPc}
    (h : s.ops[i]? = some (.resize n isClose pc old)) (l : Link s)
    (hs : stepResize s i n isClose pc old = some s') : Link s' := by
  cases pc
  all_goals simp only [stepResize, finishResize] at hs
  · -- enter
    simp only [Option.some.injEq] at hs; subst hs
    link_leaf l h
  · -- lock
    split at hs
    · simp at hs
    · rename_i hl
      repeat' split at hs
      all_goals (simp only [Option.some.injEq] at hs; subst hs)
      · -- close(): the semaphore is closed inside the critical section
        refine l.update h rfl l.wf.close ?_ (fun _ _ _ => Or.inr rfl) ?_
          (fun hq => absurd hq (by simp [Op.isQ])) (fun _ => rfl) (Or.inl ⟨rfl, rfl⟩)
        · intro j _ hj
          have := (Sem.mem_waiting_close s.sem j).mp hj
          simp only [Sem.waiting, List.mem_append]
          exact Or.inr this
        · intro hi
          have := (Sem.mem_waiting_close s.sem i).mp hi
          exact absurd (by simp only [Sem.waiting, List.mem_append]; exact Or.inr this)
            (l.not_waiting h rfl)
      · -- resize on a closed pool
        link_leaf l h
      · exact l.update h rfl l.wf (fun _ _ hj => hj) (fun _ _ hj => Or.inl hj)
          (fun hi => absurd hi (l.not_waiting h rfl)) (fun hq => absurd hq (by simp [Op.isQ]))
          (fun hc => hc) (Or.inr (Or.inl ⟨rfl, rfl, hl, rfl⟩))
      · exact l.update h rfl l.wf (fun _ _ hj => hj) (fun _ _ hj => Or.inl hj)
          (fun hi => absurd hi (l.not_waiting h rfl)) (fun hq => absurd hq (by simp [Op.isQ]))
          (fun hc => hc) (Or.inr (Or.inl ⟨rfl, rfl, hl, rfl⟩))
      · exact Link.frame l h rfl l.wf (fun _ => Iff.rfl) rfl rfl rfl hl.symm rfl
  · -- shrink
    repeat' split at hs
    all_goals (simp only [Option.some.injEq] at hs; subst hs)
    all_goals try (have ht := l.wf.tryAcquire ‹Sem.tryAcquire _ = _›)
    · -- an idle object released: the op stays where it is
      refine ⟨ht.1, ?_, ?_, l.lockOwner⟩
      · intro j hj; exact l.waiters j ((mem_iff_of_eq ht.2.1 j).mp hj)
      · intro j op hj hop
        rcases l.queued j op hj hop with h1 | h1
        · exact Or.inl ((mem_iff_of_eq ht.2.1 j).mpr h1)
        · exact Or.inr (ht.2.2.trans h1)
    · refine ⟨ht.1, ?_, ?_, l.lockOwner⟩
      · intro j hj; exact l.waiters j ((mem_iff_of_eq ht.2.1 j).mp hj)
      · intro j op hj hop
        rcases l.queued j op hj hop with h1 | h1
        · exact Or.inl ((mem_iff_of_eq ht.2.1 j).mpr h1)
        · exact Or.inr (ht.2.2.trans h1)
    all_goals exact Link.unlock l h rfl l.wf (fun _ => Iff.rfl) rfl rfl rfl rfl rfl rfl
  · -- grow
    repeat' split at hs
    all_goals (simp only [Option.some.injEq] at hs; subst hs)
    all_goals exact Link.unlock l h rfl (l.wf.addPermits (n - old)) (Sem.mem_waiting_addPermits s.sem (n - old)) rfl rfl rfl rfl rfl rfl


theorem startOp_link {s s' : State} {sp : Spec} (l : Link s)
    (hs : startOp s sp = some s') : Link s' := by
  cases sp
  all_goals simp only [startOp] at hs
  all_goals repeat' split at hs
  all_goals first
    | (simp at hs; done)
    | skip
  all_goals (simp only [Option.some.injEq] at hs; subst hs)
  all_goals exact Link.append l rfl rfl rfl rfl rfl

theorem stepTakePanic_link {s s' : State} {i : Nat} {o : Obj} {add : Bool}
    (h : s.ops[i]? = some (.take .detach o add)) (l : Link s)
    (hs : stepTakePanic s i o = some s') : Link s' := by
  simp only [stepTakePanic, Option.some.injEq] at hs
  subst hs
  link_leaf l h

theorem stepRetPanic_link {s s' : State} {i : Nat} {o : Obj}
    (h : s.ops[i]? = some (.ret .detach o)) (l : Link s)
    (hs : stepRetPanic s i o = some s') : Link s' := by
  simp only [stepRetPanic, Option.some.injEq] at hs
  subst hs
  link_leaf l h

theorem stepOp_link {s s' : State} {i : Nat} {oc : Outcome} (l : Link s)
    (hs : stepOp s i oc = some s') : Link s' := by
  unfold stepOp at hs
  split at hs
  · simp at hs
  · rename_i op h
    cases op with
    | get t pc => exact stepGet_link h l hs
    | ret pc o =>
      simp only at hs
      split at hs
      · exact stepRet_link h l hs
      · split at hs
        · have := retPanic_pc ‹_›; subst this
          exact stepRetPanic_link h l hs
        · simp at hs
    | take pc o add =>
      simp only at hs
      split at hs
      · exact stepTake_link h l hs
      · split at hs
        · have := takePanic_pc ‹_›; subst this
          exact stepTakePanic_link h l hs
        · simp at hs
    | resize n c pc old =>
      simp only at hs
      split at hs
      · exact stepResize_link h l hs
      · simp at hs
    | retain keep =>
      simp only at hs
      split at hs
      · exact stepRetain_link h l hs
      · simp at hs
    | status =>
      simp only at hs
      split at hs
      · exact stepStatus_link h l hs
      · simp at hs
    | done => simp at hs

theorem step_link {s s' : State} {act : Action} (l : Link s) (hs : step s act = some s') :
    Link s' := by
  unfold step at hs
  cases act with
  | start sp =>
    simp only [Option.map_eq_some_iff] at hs
    obtain ⟨s1, h1, rfl⟩ := hs
    exact (startOp_link l h1).tick _
  | step i oc =>
    simp only [Option.map_eq_some_iff] at hs
    obtain ⟨s1, h1, rfl⟩ := hs
    exact (stepOp_link l h1).tick _

/-- `Link` holds after any list of actions from the initial state. -/
theorem run_link (cfg : Cfg) (acts : List Action) : Link (run (init cfg) acts) := by
  suffices h : ∀ s, Link s → Link (run s acts) from h _ (Link.init cfg)
  induction acts with
  | nil => intro s a; exact a
  | cons act acts ih =>
    intro s a
    rw [run_cons]
    apply ih
    cases hst : step s act with
    | none => exact a
    | some s1 => exact step_link a hst

end DeadpoolVerif
