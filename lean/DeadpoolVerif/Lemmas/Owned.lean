/-
Every event in the log was appended by a step of the operation it names: `stepOp s j …`
appends only events whose operation index is `j`, and starting an operation appends nothing.
Consequently the sub-log of one operation (`evsOf i`) is changed only by that operation's
own steps.  Used by the trace-level theorems of `Props/C04.lean` and `Props/C08.lean`.
-/
import DeadpoolVerif.Lemmas.LogMono

namespace DeadpoolVerif

/-- the operation an event belongs to -/
def Ev.op : Ev → Nat
  | .createCall i | .call i .. | .detach i _ | .destroy i _ | .handout i _ | .result i _
  | .returned i _ | .taken i _ | .pred i .. | .retained i .. | .status i .. | .resized i _
  | .closedEv i | .opPanic i => i

/-- the events of operation `i`, in order -/
def evsOf (i : Nat) (log : List Ev) : List Ev := log.filter (·.op == i)

theorem evsOf_append (i : Nat) (l₁ l₂ : List Ev) : evsOf i (l₁ ++ l₂) = evsOf i l₁ ++ evsOf i l₂ := by
  simp [evsOf]

theorem drainEvs_owned (j : Nat) (l : List Obj) : ∀ e ∈ drainEvs j l, e.op = j := by
  induction l with
  | nil => intro e he; cases he
  | cons o rest ih =>
    intro e he
    simp only [drainEvs, List.mem_cons] at he
    rcases he with rfl | rfl | he
    · rfl
    · rfl
    · exact ih e he

theorem retainEvs_owned (j : Nat) (keep : List Bool) (k : Nat) (l : List Obj) :
    ∀ e ∈ retainEvs j keep k l, e.op = j := by
  induction l generalizing k with
  | nil => intro e he; cases he
  | cons o rest ih =>
    intro e he
    simp only [retainEvs] at he
    split at he
    · rcases List.mem_cons.mp he with rfl | he
      · rfl
      · exact ih _ e he
    · rcases List.mem_cons.mp he with rfl | he
      · rfl
      · rcases List.mem_cons.mp he with rfl | he
        · rfl
        · exact ih _ e he

/-- closes `∃ es, s'.log = s.log ++ es ∧ ∀ e ∈ es, e.op = j` for a concrete successor state -/
macro "owned_leaf" : tactic => `(tactic| first
  | exact ⟨[], (List.append_nil _).symm, fun _ he => absurd he List.not_mem_nil⟩
  | (refine ⟨_, rfl, ?_⟩
     intro e he
     simp only [List.mem_cons, List.mem_append, List.not_mem_nil, or_false] at he
     first
       | (subst he; rfl)
       | (rcases he with he | he <;> (subst he; rfl))
       | (rcases he with he | he | he <;> (subst he; rfl))))

theorem stepOp_owned {s s' : State} {j : Nat} {oc : Outcome} (hs : stepOp s j oc = some s') :
    ∃ es, s'.log = s.log ++ es ∧ ∀ e ∈ es, e.op = j := by
  unfold stepOp at hs
  split at hs
  · simp at hs
  · rename_i op h
    cases op with
    | get t pc =>
      simp only at hs
      unfold stepGet at hs
      simp only [arriveRecycle, arrivePostCreate, handOut, failPermit] at hs
      repeat' split at hs
      all_goals first | (simp at hs; done) | skip
      all_goals (simp only [Option.some.injEq] at hs; subst hs)
      all_goals simp only [State.setOp, State.emit]
      all_goals owned_leaf
    | ret pc o =>
      simp only at hs
      split at hs
      · cases pc
        all_goals simp only [stepRet] at hs
        all_goals repeat' split at hs
        all_goals first | (simp at hs; done) | skip
        all_goals (simp only [Option.some.injEq] at hs; subst hs)
        all_goals simp only [State.setOp, State.emit]
        all_goals owned_leaf
      · split at hs
        · simp only [stepRetPanic, Option.some.injEq] at hs; subst hs
          simp only [State.setOp, State.emit]
          owned_leaf
        · simp at hs
    | take pc o add =>
      simp only at hs
      split at hs
      · cases pc
        all_goals simp only [stepTake] at hs
        all_goals repeat' split at hs
        all_goals first | (simp at hs; done) | skip
        all_goals (simp only [Option.some.injEq] at hs; subst hs)
        all_goals simp only [State.setOp, State.emit]
        all_goals owned_leaf
      · split at hs
        · simp only [stepTakePanic, Option.some.injEq] at hs; subst hs
          simp only [State.setOp, State.emit]
          owned_leaf
        · simp at hs
    | resize n c pc old =>
      simp only at hs
      split at hs
      · cases pc
        all_goals simp only [stepResize, finishResize] at hs
        all_goals repeat' split at hs
        all_goals first | (simp at hs; done) | skip
        all_goals (simp only [Option.some.injEq] at hs; subst hs)
        all_goals simp only [State.setOp, State.emit]
        all_goals first
          | owned_leaf
          | (refine ⟨_, rfl, ?_⟩
             intro e he
             simp only [List.mem_append, List.mem_cons, List.not_mem_nil, or_false] at he
             rcases he with he | he
             · exact drainEvs_owned j _ e he
             · subst he; rfl)
      · simp at hs
    | retain keep =>
      simp only at hs
      split at hs
      · unfold stepRetain at hs
        split at hs
        · simp at hs
        · simp only [Option.some.injEq] at hs; subst hs
          simp only [State.setOp, State.emit]
          refine ⟨_, rfl, ?_⟩
          intro e he
          simp only [List.mem_append, List.mem_cons, List.not_mem_nil, or_false] at he
          rcases he with he | he
          · exact retainEvs_owned j keep 0 _ e he
          · subst he; rfl
      · simp at hs
    | status =>
      simp only at hs
      split at hs
      · unfold stepStatus at hs
        split at hs
        · simp at hs
        · simp only [Option.some.injEq] at hs; subst hs
          simp only [State.setOp, State.emit]
          owned_leaf
      · simp at hs
    | done => simp at hs

/-- a step of operation `j` leaves the sub-log of every other operation alone -/
theorem stepOp_evsOf_other {s s' : State} {i j : Nat} {oc : Outcome} (hs : stepOp s j oc = some s')
    (hij : i ≠ j) : evsOf i s'.log = evsOf i s.log := by
  obtain ⟨es, he, ho⟩ := stepOp_owned hs
  rw [he, evsOf_append]
  have : evsOf i es = [] := by
    simp only [evsOf, List.filter_eq_nil_iff]
    intro e hm
    have := ho e hm
    simp only [beq_iff_eq]
    omega
  rw [this, List.append_nil]

end DeadpoolVerif
