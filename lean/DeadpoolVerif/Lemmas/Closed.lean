/-
`ClosedInv`: what is true of a closed managed pool in *every* reachable state, not only at
rest: `max_size` is 0, the idle queue is empty and nobody is inside the critical section of
`resize`.  `close()` establishes it in one critical section; afterwards `resize` does nothing
(it checks `is_closed()` under the mutex) and `return_object` takes its discard branch
(`size ≥ 1 > 0 = max_size`), so nothing can ever be queued again.
-/
import DeadpoolVerif.Lemmas.Reach

namespace DeadpoolVerif

structure ClosedInv (s : State) : Prop where
  max : s.sem.closed = true → s.maxSize = 0
  idle : s.sem.closed = true → s.idle = []
  nolock : s.sem.closed = true → s.lock = none

theorem ClosedInv.init (cfg : Cfg) : ClosedInv (init cfg) := by
  refine ⟨?_, ?_, ?_⟩ <;> simp [DeadpoolVerif.init, Sem.new]

/-- closes one leaf of the case analysis: `hc0` is "the pool was closed before the step" -/
macro "closed_fields" k:ident hc0:ident : tactic => `(tactic| first
  | exact ($k).max $hc0
  | exact ($k).idle $hc0
  | exact ($k).nolock $hc0
  | rfl
  | exact absurd $hc0 ‹¬ _›
  | (have := popIdle_some ‹popIdle _ _ = some _›; rw [($k).idle $hc0] at this; simp at this)
  | (have := ($k).idle $hc0; simp_all; done))

theorem step_closedInv {s s' : State} {a : Action} (r : Reach s) (k : ClosedInv s)
    (h : step s a = some s') : ClosedInv s' := by
  have l := r.link
  unfold step at h
  cases a with
  | start sp =>
    simp only [Option.map_eq_some_iff] at h
    obtain ⟨s1, h1, rfl⟩ := h
    cases sp
    all_goals simp only [startOp] at h1
    all_goals repeat' split at h1
    all_goals first | (simp at h1; done) | skip
    all_goals (simp only [Option.some.injEq] at h1; subst h1)
    all_goals exact ⟨k.max, k.idle, k.nolock⟩
  | step i oc =>
    simp only [Option.map_eq_some_iff] at h
    obtain ⟨s1, h1, rfl⟩ := h
    show ClosedInv { s1 with now := _ }
    suffices hk : ClosedInv s1 from ⟨hk.max, hk.idle, hk.nolock⟩
    unfold stepOp at h1
    split at h1
    · simp at h1
    · rename_i op hop
      cases op with
      | get t pc =>
        simp only at h1
        unfold stepGet at h1
        simp only [arriveRecycle, arrivePostCreate, handOut, failPermit] at h1
        repeat' split at h1
        all_goals first | (simp at h1; done) | skip
        all_goals (simp only [Option.some.injEq] at h1; subst h1)
        all_goals try (have t1 := (l.wf.tryAcquire ‹Sem.tryAcquire _ = _›).2.2)
        all_goals try (have t2 := (l.wf.pollAcquire ‹Sem.pollAcquire _ _ = _›).2.2.1)
        all_goals refine ⟨fun hc => ?_, fun hc => ?_, fun hc => ?_⟩
        all_goals (
          have hc0 : s.sem.closed = true := by
            first
              | exact hc
              | exact t1.symm.trans hc
              | exact t2.symm.trans hc
              | exact ((l.wf.dropAcquire _).2.2).symm.trans hc
              | exact t2.symm.trans
                  ((((l.wf.pollAcquire ‹Sem.pollAcquire _ _ = _›).1.dropAcquire _).2.2).symm.trans hc))
        all_goals closed_fields k hc0
      | ret pc o =>
        simp only at h1
        split at h1
        · have a := r.acct
          have b := sumW_mem_le Op.sizeW _ _ _ hop
          have az := a.siz
          cases pc
          all_goals simp only [stepRet] at h1
          all_goals repeat' split at h1
          all_goals first | (simp at h1; done) | skip
          all_goals (simp only [Option.some.injEq] at h1; subst h1)
          all_goals refine ⟨fun hc => ?_, fun hc => ?_, fun hc => ?_⟩
          all_goals (have hc0 : s.sem.closed = true := hc)
          all_goals first
            | closed_fields k hc0
            | (-- the push branch is impossible on a closed pool: `size ≥ 1 > 0 = max_size`
               have hm := k.max hc0
               simp only [Op.sizeW] at b
               omega)
        · split at h1
          · simp only [stepRetPanic, Option.some.injEq] at h1; subst h1
            exact ⟨k.max, k.idle, k.nolock⟩
          · simp at h1
      | take pc o add =>
        simp only at h1
        split at h1
        · cases pc
          all_goals simp only [stepTake] at h1
          all_goals repeat' split at h1
          all_goals first | (simp at h1; done) | skip
          all_goals (simp only [Option.some.injEq] at h1; subst h1)
          all_goals refine ⟨fun hc => ?_, fun hc => ?_, fun hc => ?_⟩
          all_goals (have hc0 : s.sem.closed = true := hc)
          all_goals closed_fields k hc0
        · split at h1
          · simp only [stepTakePanic, Option.some.injEq] at h1; subst h1
            exact ⟨k.max, k.idle, k.nolock⟩
          · simp at h1
      | resize n c pc old =>
        simp only at h1
        split at h1
        · cases pc
          all_goals simp only [stepResize, finishResize] at h1
          all_goals repeat' split at h1
          all_goals first | (simp at h1; done) | skip
          all_goals (simp only [Option.some.injEq] at h1; subst h1)
          all_goals try (have t1 := (l.wf.tryAcquire ‹Sem.tryAcquire _ = _›).2.2)
          all_goals refine ⟨fun hc => ?_, fun hc => ?_, fun hc => ?_⟩
          all_goals first
            | rfl
            | assumption
            | (have hc0 : s.sem.closed = true := by
                 first
                   | exact hc
                   | exact t1.symm.trans hc
               closed_fields k hc0)
        · simp at h1
      | retain keep =>
        simp only at h1
        split at h1
        · unfold stepRetain at h1
          split at h1
          · simp at h1
          · simp only [Option.some.injEq] at h1; subst h1
            refine ⟨k.max, fun hc => ?_, k.nolock⟩
            show retainKept keep 0 s.idle = []
            rw [k.idle hc]; rfl
        · simp at h1
      | status =>
        simp only at h1
        split at h1
        · unfold stepStatus at h1
          split at h1
          · simp at h1
          · simp only [Option.some.injEq] at h1; subst h1; exact ⟨k.max, k.idle, k.nolock⟩
        · simp at h1
      | done => simp at h1

theorem run_closedInv (cfg : Cfg) (acts : List Action) : ClosedInv (run (init cfg) acts) := by
  suffices h : ∀ s, Reach s → ClosedInv s → ClosedInv (run s acts) from
    h _ (reach_run cfg []) (ClosedInv.init cfg)
  induction acts with
  | nil => intro s _ k; exact k
  | cons a as ih =>
    intro s r k
    rw [run_cons]
    cases hst : step s a with
    | none => exact ih s r k
    | some s1 => exact ih s1 (r.step hst) (step_closedInv r k hst)

end DeadpoolVerif
