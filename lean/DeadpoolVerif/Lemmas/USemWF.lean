/-
Both semaphores of the unmanaged pool stay well-formed (no free permit while somebody
queues, no queue after close, no duplicate waiter).
-/
import DeadpoolVerif.Lemmas.UAcctStep
import DeadpoolVerif.Lemmas.SemWF

namespace DeadpoolVerif
namespace U

structure SemsWF (s : State) : Prop where
  sem : s.sem.WF
  sizeSem : s.sizeSem.WF

theorem SemsWF.init (cfg : Cfg) : SemsWF (init cfg) := ⟨Sem.WF.new _, Sem.WF.new _⟩

macro "wf_leaf" w:ident : tactic => `(tactic| first
  | exact ⟨($w).sem, ($w).sizeSem⟩
  | exact ⟨(($w).sem.tryAcquire (by assumption)).1, ($w).sizeSem⟩
  | exact ⟨(($w).sem.pollAcquire (by assumption)).1, ($w).sizeSem⟩
  | exact ⟨(($w).sem.dropAcquire _).1, ($w).sizeSem⟩
  | exact ⟨((($w).sem.pollAcquire (by assumption)).1.dropAcquire _).1, ($w).sizeSem⟩
  | exact ⟨($w).sem.addPermits _, ($w).sizeSem⟩
  | exact ⟨($w).sem.close, ($w).sizeSem⟩
  | exact ⟨($w).sem, (($w).sizeSem.tryAcquire (by assumption)).1⟩
  | exact ⟨($w).sem, (($w).sizeSem.pollAcquire (by assumption)).1⟩
  | exact ⟨($w).sem, (($w).sizeSem.dropAcquire _).1⟩
  | exact ⟨($w).sem, ($w).sizeSem.addPermits _⟩
  | exact ⟨($w).sem, ($w).sizeSem.close⟩)

theorem step_semswf {s s' : State} {act : Action} (w : SemsWF s) (hs : step s act = some s') :
    SemsWF s' := by
  cases act with
  | start sp =>
    simp only [step] at hs
    cases sp <;> simp only [startOp] at hs
    all_goals repeat' split at hs
    all_goals first | (simp at hs; done) | skip
    all_goals (simp only [Option.some.injEq] at hs; subst hs; exact ⟨w.sem, w.sizeSem⟩)
  | step i oc =>
    simp only [step, stepOp] at hs
    split at hs
    · simp at hs
    · rename_i op h
      cases op with
      | get wt t r pc =>
        simp only at hs
        cases t <;> cases r <;> cases pc <;> cases oc <;> simp only [stepGet, finishGet, failGet] at hs
        all_goals first | (simp at hs; done) | skip
        all_goals repeat' split at hs
        all_goals first | (simp at hs; done) | skip
        all_goals try (exact absurd trivial ‹¬True›)
        all_goals (simp only [Option.some.injEq] at hs; subst hs)
        all_goals wf_leaf w
      | add id t pc =>
        simp only at hs
        cases t <;> cases pc <;> cases oc <;> simp only [stepAdd, clear] at hs
        all_goals first | (simp at hs; done) | skip
        all_goals repeat' split at hs
        all_goals first | (simp at hs; done) | skip
        all_goals (simp only [Option.some.injEq] at hs; subst hs)
        all_goals wf_leaf w
      | ret id pc =>
        simp only at hs
        split at hs
        · cases pc <;> simp only [stepRet, clear] at hs
          all_goals repeat' split at hs
          all_goals (simp only [Option.some.injEq] at hs; subst hs)
          all_goals wf_leaf w
        · simp at hs
      | take id pc v =>
        simp only at hs
        split at hs
        · cases pc <;> simp only [stepTake] at hs
          all_goals (simp only [Option.some.injEq] at hs; subst hs)
          all_goals wf_leaf w
        · simp at hs
      | close pc =>
        simp only at hs
        split at hs
        · cases pc <;> simp only [stepClose, clear] at hs
          all_goals (simp only [Option.some.injEq] at hs; subst hs)
          all_goals wf_leaf w
        · simp at hs
      | status =>
        simp only at hs
        split at hs
        · simp only [Option.some.injEq] at hs; subst hs; exact ⟨w.sem, w.sizeSem⟩
        · simp at hs
      | done => simp at hs

theorem run_semswf (cfg : Cfg) (acts : List Action) : SemsWF (run (init cfg) acts) := by
  suffices h : ∀ s, SemsWF s → SemsWF (run s acts) from h _ (SemsWF.init cfg)
  induction acts with
  | nil => intro s a; exact a
  | cons act acts ih =>
    intro s a
    rw [run_cons]
    apply ih
    cases hst : step s act with
    | none => exact a
    | some s1 => exact step_semswf a hst

end U
end DeadpoolVerif
