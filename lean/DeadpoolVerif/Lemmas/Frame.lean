/-
Structural frame facts: a step of operation `i` changes only entry `i` of the operation
list; starting an operation appends one entry.  And the resulting generic principle for
invariants that are local to one operation.
-/
import DeadpoolVerif.Lemmas.Link

namespace DeadpoolVerif

theorem setOp_ops (s : State) (i : Nat) (x : Op) : (s.setOp i x).ops = s.ops.set i x := rfl
theorem emit_ops (s : State) (es : List Ev) : (s.emit es).ops = s.ops := rfl

theorem ops_set_self {l : List Op} {i : Nat} {y : Op} (h : l[i]? = some y) : l.set i y = l := by
  apply List.ext_getElem?
  intro j
  by_cases e : j = i
  · subst e; rw [getElem?_set_self' h, h]
  · rw [getElem?_set_ne' e]

def Op.isGet : Op → Bool
  | .get .. => true
  | _ => false

/-- every step of operation `i` replaces entry `i` of `ops` and nothing else; only a get
continues as a get -/
theorem stepOp_ops' {s s' : State} {i : Nat} {oc : Outcome} {y : Op}
    (h : s.ops[i]? = some y) (hs : stepOp s i oc = some s') :
    ∃ x, s'.ops = s.ops.set i x ∧ (y.isGet = false → x.isGet = false) := by
  unfold stepOp at hs
  rw [h] at hs
  simp only at hs
  cases y with
  | get t pc =>
    simp only at hs
    unfold stepGet at hs
    simp only [arriveRecycle, arrivePostCreate, handOut, failPermit] at hs
    repeat' split at hs
    all_goals first
      | (simp at hs; done)
      | skip
    all_goals (simp only [Option.some.injEq] at hs; subst hs)
    all_goals exact ⟨_, rfl, fun h => absurd h (by simp [Op.isGet])⟩
  | ret pc o =>
    simp only at hs
    split at hs
    · cases pc
      all_goals simp only [stepRet] at hs
      all_goals repeat' split at hs
      all_goals first
        | (simp at hs; done)
        | skip
      all_goals (simp only [Option.some.injEq] at hs; subst hs)
      all_goals exact ⟨_, rfl, fun _ => rfl⟩
    · split at hs
      · simp only [stepRetPanic, Option.some.injEq] at hs; subst hs
        exact ⟨_, rfl, fun _ => rfl⟩
      · simp at hs
  | take pc o add =>
    simp only at hs
    split at hs
    · cases pc
      all_goals simp only [stepTake] at hs
      all_goals repeat' split at hs
      all_goals first
        | (simp at hs; done)
        | skip
      all_goals (simp only [Option.some.injEq] at hs; subst hs)
      all_goals exact ⟨_, rfl, fun _ => rfl⟩
    · split at hs
      · simp only [stepTakePanic, Option.some.injEq] at hs; subst hs
        exact ⟨_, rfl, fun _ => rfl⟩
      · simp at hs
  | resize n c pc old =>
    simp only at hs
    split at hs
    · cases pc
      all_goals simp only [stepResize, finishResize] at hs
      all_goals repeat' split at hs
      all_goals first
        | (simp at hs; done)
        | skip
      all_goals (simp only [Option.some.injEq] at hs; subst hs)
      all_goals first
        | exact ⟨_, rfl, fun _ => rfl⟩
        | exact ⟨_, (ops_set_self h).symm, fun _ => rfl⟩
    · simp at hs
  | retain keep =>
    simp only at hs
    split at hs
    · unfold stepRetain at hs
      split at hs
      · simp at hs
      · simp only [Option.some.injEq] at hs; subst hs; exact ⟨_, rfl, fun _ => rfl⟩
    · simp at hs
  | status =>
    simp only at hs
    split at hs
    · unfold stepStatus at hs
      split at hs
      · simp at hs
      · simp only [Option.some.injEq] at hs; subst hs; exact ⟨_, rfl, fun _ => rfl⟩
    · simp at hs
  | done => simp at hs

theorem stepOp_ops {s s' : State} {i : Nat} {oc : Outcome} {y : Op}
    (h : s.ops[i]? = some y) (hs : stepOp s i oc = some s') :
    ∃ x, s'.ops = s.ops.set i x := by
  obtain ⟨x, hx, _⟩ := stepOp_ops' h hs
  exact ⟨x, hx⟩

theorem set_inj {l : List Op} {i : Nat} {y a b : Op} (h : l[i]? = some y)
    (e : l.set i a = l.set i b) : a = b := by
  have h1 : (l.set i a)[i]? = some a := getElem?_set_self' h
  rw [e, getElem?_set_self' h] at h1
  exact (Option.some.inj h1).symm

theorem startOp_ops {s s' : State} {sp : Spec} (hs : startOp s sp = some s') :
    ∃ x, s'.ops = s.ops ++ [x] ∧
      (x = .get (match sp with | .get t => t | _ => {}) .enter ∨ (∃ o, x = .ret .users o) ∨
       (∃ o, x = .take .users o false) ∨ (∃ n c, x = .resize n c .enter 0) ∨
       (∃ k, x = .retain k) ∨ x = .status) := by
  cases sp
  all_goals simp only [startOp] at hs
  all_goals repeat' split at hs
  all_goals first
    | (simp at hs; done)
    | skip
  all_goals (simp only [Option.some.injEq] at hs; subst hs)
  all_goals refine ⟨_, rfl, ?_⟩
  all_goals simp

/-- **Local invariants.** A predicate on operations that holds for every freshly started
operation and is preserved by the operation's own steps (whatever the rest of the state
is) holds for every operation in every reachable state. -/
theorem ops_forall_of_local (P : Op → Prop)
    (hstart : ∀ s sp s', startOp s sp = some s' → ∀ x, s'.ops = s.ops ++ [x] → P x)
    (hstep : ∀ s i oc s' y x, s.ops[i]? = some y → P y → stepOp s i oc = some s' →
      s'.ops = s.ops.set i x → P x)
    (cfg : Cfg) (acts : List Action) : ∀ op ∈ (run (init cfg) acts).ops, P op := by
  suffices g : ∀ s, (∀ op ∈ s.ops, P op) → ∀ op ∈ (run s acts).ops, P op from
    g _ (by simp [init])
  induction acts with
  | nil => intro s h; exact h
  | cons act acts ih =>
    intro s h
    rw [run_cons]
    apply ih
    cases hst : step s act with
    | none => exact h
    | some s1 =>
      simp only [Option.getD_some]
      unfold step at hst
      cases act with
      | start sp =>
        simp only [Option.map_eq_some_iff] at hst
        obtain ⟨s2, h2, rfl⟩ := hst
        obtain ⟨x, hx, _⟩ := startOp_ops h2
        intro op hop
        simp only [] at hop
        rw [hx] at hop
        simp only [List.mem_append, List.mem_singleton] at hop
        rcases hop with hop | rfl
        · exact h op hop
        · exact hstart s sp s2 h2 _ hx
      | step i oc =>
        simp only [Option.map_eq_some_iff] at hst
        obtain ⟨s2, h2, rfl⟩ := hst
        cases hy : s.ops[i]? with
        | none => simp [stepOp, hy] at h2
        | some y =>
          obtain ⟨x, hx⟩ := stepOp_ops hy h2
          intro op hop
          simp only [] at hop
          rw [hx] at hop
          rcases List.mem_or_eq_of_mem_set hop with hop | rfl
          · exact h op hop
          · exact hstep s i oc s2 y _ hy (h y (List.mem_of_getElem? hy)) h2 hx

end DeadpoolVerif
