/-
Trace-level bookkeeping for C04: while a get() is inside a callback, the last event it has
logged is the call of that callback; and every hand-out event in the log is immediately
preceded - among the events of the same get() - by the call of the *last* check of the
sequence (or by the creation, if there is no post_create hook).
-/
import DeadpoolVerif.Lemmas.Owned
import DeadpoolVerif.Lemmas.Frame
import DeadpoolVerif.Lemmas.NoSlot

namespace DeadpoolVerif

/-- the call event of callback `k` of the recycle sequence, on object `o`, by operation `i` -/
def recycleCall (c : Cfg) (i k : Nat) (o : Obj) : Ev :=
  .call i (c.recyclePhase k).1 (c.recyclePhase k).2 o

/-- the event a get() must have logged last while it is inside a callback -/
def Op.lastEv (c : Cfg) (i : Nat) : Op → Option Ev
  | .get _ (.recycling k o _) => some (recycleCall c i k o)
  | .get _ (.postCreate k o _) => some (.call i .postC k o)
  | .get _ (.creating _) => some (.createCall i)
  | .get _ (.createSize _) => some (.createCall i)
  | _ => none

/-- what may stand immediately before `handout i o'` among the events of operation `i` -/
def HandoutCause (c : Cfg) (i : Nat) (e : Ev) (o' : Obj) : Prop :=
  (∃ k o, e = recycleCall c i k o ∧ c.nRecycle ≤ k + 1 ∧ o'.id = o.id ∧
      o'.handouts = o.handouts + 1 ∧ o'.rc = o.rc + 1 ∧ o'.created = o.created) ∨
  (∃ k o, e = .call i .postC k o ∧ c.postC.length ≤ k + 1 ∧ o'.id = o.id ∧
      o'.handouts = o.handouts + 1 ∧ o'.rc = o.rc ∧ o'.created = o.created) ∨
  (e = .createCall i ∧ c.postC.length = 0)

theorem evsOf_own {i : Nat} {es : List Ev} (h : ∀ e ∈ es, e.op = i) : evsOf i es = es := by
  simp only [evsOf, List.filter_eq_self]
  intro e he
  simp [h e he]

/-- one step of a get(): what it appends and where it goes, as far as the two facts above care -/
theorem stepGet_summary {s s' : State} {i : Nat} {t : Timeouts} {pc : GPc} {oc : Outcome}
    (h : stepGet s i t pc oc = some s') :
    s'.cfg = s.cfg ∧ ∃ es x, s'.log = s.log ++ es ∧ s'.ops = s.ops.set i x ∧
      (((∀ o', Ev.handout i o' ∉ es) ∧
        (∀ e, x.lastEv s.cfg i = some e →
          es.getLast? = some e ∨ (es = [] ∧ (Op.get t pc).lastEv s.cfg i = some e))) ∨
       (∃ o' e, es = [.handout i o', .result i (.ok o'.id)] ∧ x = .done ∧
          (Op.get t pc).lastEv s.cfg i = some e ∧ HandoutCause s.cfg i e o')) := by
  unfold stepGet at h
  simp only [arriveRecycle, arrivePostCreate, handOut, failPermit] at h
  repeat' split at h
  all_goals first | (simp at h; done) | skip
  all_goals (simp only [Option.some.injEq] at h; subst h)
  all_goals refine ⟨rfl, ?_⟩
  all_goals simp only [State.setOp, State.emit]
  all_goals first
    | (-- no event
       refine ⟨[], _, (List.append_nil _).symm, rfl, Or.inl ⟨?_, ?_⟩⟩
       · intro o' hm; cases hm
       · intro e he
         first
           | (simp only [Op.lastEv, reduceCtorEq] at he; done)
           | exact Or.inr ⟨rfl, he⟩)
    | (-- a call event: it is the new last event
       refine ⟨_, _, rfl, rfl, Or.inl ⟨?_, ?_⟩⟩
       · intro o' hm
         simp only [List.mem_cons, List.not_mem_nil, or_false, reduceCtorEq] at hm
       · intro e he
         first
           | (simp only [Op.lastEv, reduceCtorEq] at he; done)
           | (left
              simp only [Op.lastEv, Option.some.injEq] at he
              subst he
              simp [recycleCall]))
    | (-- events without a hand-out, operation no longer in a callback
       refine ⟨_, _, rfl, rfl, Or.inl ⟨?_, ?_⟩⟩
       · intro o' hm
         simp only [List.mem_cons, List.not_mem_nil, or_false, reduceCtorEq] at hm
       · intro e he
         simp only [Op.lastEv, reduceCtorEq] at he)
    | (-- hand-out after the last recycle callback
       refine ⟨_, _, rfl, rfl, Or.inr ⟨_, _, rfl, rfl, rfl, Or.inl ⟨_, _, rfl, ?_, rfl, rfl, rfl, rfl⟩⟩⟩
       omega)
    | (-- hand-out after the last post_create hook
       refine ⟨_, _, rfl, rfl, Or.inr ⟨_, _, rfl, rfl, rfl, Or.inr (Or.inl ⟨_, _, rfl, ?_, rfl, rfl, rfl, rfl⟩)⟩⟩
       omega)
    | (-- hand-out right after creation (no post_create hook)
       refine ⟨_, _, rfl, rfl, Or.inr ⟨_, _, rfl, rfl, rfl, Or.inr (Or.inr ⟨rfl, ?_⟩)⟩⟩
       omega)

theorem stepOp_cfg {s s' : State} {j : Nat} {oc : Outcome} (hs : stepOp s j oc = some s') :
    s'.cfg = s.cfg := by
  unfold stepOp at hs
  split at hs
  · simp at hs
  · rename_i op h
    cases op with
    | get t pc => exact (stepGet_summary hs).1
    | ret pc o =>
      simp only at hs
      split at hs
      · cases pc
        all_goals simp only [stepRet] at hs
        all_goals repeat' split at hs
        all_goals first | (simp at hs; done) | skip
        all_goals (simp only [Option.some.injEq] at hs; subst hs; rfl)
      · split at hs
        · simp only [stepRetPanic, Option.some.injEq] at hs; subst hs; rfl
        · simp at hs
    | take pc o add =>
      simp only at hs
      split at hs
      · cases pc
        all_goals simp only [stepTake] at hs
        all_goals repeat' split at hs
        all_goals first | (simp at hs; done) | skip
        all_goals (simp only [Option.some.injEq] at hs; subst hs; rfl)
      · split at hs
        · simp only [stepTakePanic, Option.some.injEq] at hs; subst hs; rfl
        · simp at hs
    | resize n c pc old =>
      simp only at hs
      split at hs
      · cases pc
        all_goals simp only [stepResize, finishResize] at hs
        all_goals repeat' split at hs
        all_goals first | (simp at hs; done) | skip
        all_goals (simp only [Option.some.injEq] at hs; subst hs; rfl)
      · simp at hs
    | retain keep =>
      simp only at hs
      split at hs
      · unfold stepRetain at hs
        split at hs
        · simp at hs
        · simp only [Option.some.injEq] at hs; subst hs; rfl
      · simp at hs
    | status =>
      simp only at hs
      split at hs
      · unfold stepStatus at hs
        split at hs
        · simp at hs
        · simp only [Option.some.injEq] at hs; subst hs; rfl
      · simp at hs
    | done => simp at hs

theorem append_eq_cons_of_not_mem {α : Type} {L es l1 l2 : List α} {h : α}
    (e : L ++ es = l1 ++ h :: l2) (hn : h ∉ es) : ∃ l2', L = l1 ++ h :: l2' := by
  rcases List.append_eq_append_iff.mp e with ⟨a', ha, hb⟩ | ⟨c', hc, hd⟩
  · -- l1 = L ++ a', es = a' ++ h :: l2
    exact absurd (by rw [hb]; simp) hn
  · cases c' with
    | nil =>
      simp only [List.nil_append] at hd
      exact absurd (by rw [← hd]; simp) hn
    | cons x c'' =>
      simp only [List.cons_append, List.cons.injEq] at hd
      obtain ⟨rfl, _⟩ := hd
      exact ⟨c'', hc⟩

def Ev.isHandout : Ev → Bool
  | .handout .. => true
  | _ => false

/-- number of hand-out events -/
def hoCnt (l : List Ev) : Nat := (l.filter Ev.isHandout).length

theorem hoCnt_append (a b : List Ev) : hoCnt (a ++ b) = hoCnt a + hoCnt b := by
  simp [hoCnt]

theorem hoCnt_drain (j : Nat) (l : List Obj) : hoCnt (drainEvs j l) = 0 := by
  induction l with
  | nil => rfl
  | cons o rest ih => simpa [hoCnt, drainEvs, Ev.isHandout] using ih

theorem hoCnt_retain (j : Nat) (keep : List Bool) (k : Nat) (l : List Obj) :
    hoCnt (retainEvs j keep k l) = 0 := by
  induction l generalizing k with
  | nil => rfl
  | cons o rest ih =>
    simp only [retainEvs]
    split <;> simpa [hoCnt, Ev.isHandout] using ih (k + 1)

theorem mem_of_hoCnt_zero {es : List Ev} (h : hoCnt es = 0) (k : Nat) (o : Obj) :
    Ev.handout k o ∉ es := by
  intro hm
  have : Ev.handout k o ∈ es.filter Ev.isHandout := List.mem_filter.mpr ⟨hm, rfl⟩
  simp only [hoCnt, List.length_eq_zero_iff] at h
  rw [h] at this
  cases this

/-- an operation that is not a get() logs no hand-out -/
theorem stepOp_nonget_hoCnt {s s' : State} {j : Nat} {oc : Outcome} {y : Op}
    (hy : s.ops[j]? = some y) (hng : y.isGet = false) (hs : stepOp s j oc = some s') :
    hoCnt s'.log = hoCnt s.log := by
  unfold stepOp at hs
  rw [hy] at hs
  cases y with
  | get t pc => simp [Op.isGet] at hng
  | ret pc o =>
    simp only at hs
    split at hs
    · cases pc
      all_goals simp only [stepRet] at hs
      all_goals repeat' split at hs
      all_goals first | (simp at hs; done) | skip
      all_goals (simp only [Option.some.injEq] at hs; subst hs)
      all_goals simp [State.setOp, State.emit, hoCnt, Ev.isHandout]
    · split at hs
      · simp only [stepRetPanic, Option.some.injEq] at hs; subst hs
        simp [State.setOp, State.emit, hoCnt, Ev.isHandout]
      · simp at hs
  | take pc o add =>
    simp only at hs
    split at hs
    · cases pc
      all_goals simp only [stepTake] at hs
      all_goals repeat' split at hs
      all_goals first | (simp at hs; done) | skip
      all_goals (simp only [Option.some.injEq] at hs; subst hs)
      all_goals simp [State.setOp, State.emit, hoCnt, Ev.isHandout]
    · split at hs
      · simp only [stepTakePanic, Option.some.injEq] at hs; subst hs
        simp [State.setOp, State.emit, hoCnt, Ev.isHandout]
      · simp at hs
  | resize n c pc old =>
    simp only at hs
    split at hs
    · cases pc
      all_goals simp only [stepResize, finishResize] at hs
      all_goals repeat' split at hs
      all_goals first | (simp at hs; done) | skip
      all_goals (simp only [Option.some.injEq] at hs; subst hs)
      all_goals simp only [State.setOp, State.emit, hoCnt_append, hoCnt_drain]
      all_goals simp [hoCnt, Ev.isHandout]
    · simp at hs
  | retain keep =>
    simp only at hs
    split at hs
    · unfold stepRetain at hs
      split at hs
      · simp at hs
      · simp only [Option.some.injEq] at hs; subst hs
        simp only [State.setOp, State.emit, hoCnt_append, hoCnt_retain]
        simp [hoCnt, Ev.isHandout]
    · simp at hs
  | status =>
    simp only at hs
    split at hs
    · unfold stepStatus at hs
      split at hs
      · simp at hs
      · simp only [Option.some.injEq] at hs; subst hs
        simp [State.setOp, State.emit, hoCnt, Ev.isHandout]
    · simp at hs
  | done => simp at hs

/-- the two trace-level facts -/
structure Tr (s : State) : Prop where
  last : ∀ i op e, s.ops[i]? = some op → op.lastEv s.cfg i = some e →
    (evsOf i s.log).getLast? = some e
  hand : ∀ i o' l1 l2, evsOf i s.log = l1 ++ Ev.handout i o' :: l2 →
    ∃ l0 e, l1 = l0 ++ [e] ∧ HandoutCause s.cfg i e o'

theorem Tr.init (cfg : Cfg) : Tr (init cfg) := by
  constructor
  · intro i op e h; simp [DeadpoolVerif.init] at h
  · intro i o' l1 l2 h
    simp only [DeadpoolVerif.init, evsOf, List.filter_nil] at h
    exact absurd h (by simp)

theorem Tr.stepOp {s s' : State} {j : Nat} {oc : Outcome} (tr : Tr s)
    (hs : DeadpoolVerif.stepOp s j oc = some s') : Tr s' := by
  have hcfg := stepOp_cfg hs
  obtain ⟨es, hlog, hown⟩ := stepOp_owned hs
  cases hy : s.ops[j]? with
  | none => simp [DeadpoolVerif.stepOp, hy] at hs
  | some y =>
    obtain ⟨x, hx, hget⟩ := stepOp_ops' hy hs
    have hE : evsOf j s'.log = evsOf j s.log ++ es := by
      rw [hlog, evsOf_append, evsOf_own hown]
    -- what the step does for operation `j` itself
    have key : ((∀ o', Ev.handout j o' ∉ es) ∧
        (∀ e, x.lastEv s.cfg j = some e →
          es.getLast? = some e ∨ (es = [] ∧ y.lastEv s.cfg j = some e))) ∨
        (∃ o' e, es = [.handout j o', .result j (.ok o'.id)] ∧ x = .done ∧
          y.lastEv s.cfg j = some e ∧ HandoutCause s.cfg j e o') := by
      cases y with
      | get t pc =>
        have h2 : stepGet s j t pc oc = some s' := by simpa [DeadpoolVerif.stepOp, hy] using hs
        obtain ⟨_, es2, x2, hl2, ho2, hk⟩ := stepGet_summary h2
        have e1 : es2 = es := List.append_cancel_left (hl2.symm.trans hlog)
        have e2 : x2 = x := set_inj hy (ho2.symm.trans hx)
        subst e1 e2
        exact hk
      | _ =>
        left
        have hxg := hget rfl
        refine ⟨?_, ?_⟩
        · intro o' hm
          have hc := stepOp_nonget_hoCnt hy rfl hs
          rw [hlog, hoCnt_append] at hc
          exact mem_of_hoCnt_zero (by omega) j o' hm
        · intro e he
          cases x <;> simp_all [Op.lastEv, Op.isGet]
    refine ⟨?_, ?_⟩
    · -- the last event of an operation inside a callback
      intro i op e hop he
      rw [hcfg] at he
      by_cases hij : i = j
      · subst hij
        rw [hx, getElem?_set_self' hy] at hop
        simp only [Option.some.injEq] at hop
        subst hop
        rw [hE]
        rcases key with ⟨_, hl⟩ | ⟨o', e', _, hxd, _, _⟩
        · rcases hl e he with h1 | ⟨h1, h2⟩
          · rw [List.getLast?_append, h1]
            rfl
          · subst h1
            rw [List.append_nil]
            exact tr.last i y e hy h2
        · subst hxd
          simp [Op.lastEv] at he
      · rw [hx, getElem?_set_ne' hij] at hop
        rw [stepOp_evsOf_other hs hij]
        exact tr.last i op e hop he
    · -- what stands before a hand-out
      intro i o' l1 l2 hdec
      rw [hcfg]
      by_cases hij : i = j
      · subst hij
        rw [hE] at hdec
        rcases key with ⟨hno, _⟩ | ⟨o'', e', hes, _, hy', hc⟩
        · obtain ⟨l2', h2⟩ := append_eq_cons_of_not_mem hdec (hno o')
          exact tr.hand i o' l1 l2' h2
        · subst hes
          rcases List.append_eq_append_iff.mp hdec with ⟨a', ha, hb⟩ | ⟨c', hc1, hd⟩
          · -- l1 = E ++ a', [handout o'', result] = a' ++ handout o' :: l2
            cases a' with
            | nil =>
              simp only [List.nil_append, List.cons.injEq, Ev.handout.injEq, true_and] at hb
              obtain ⟨rfl, _⟩ := hb
              rw [List.append_nil] at ha
              subst ha
              obtain ⟨l0, h0⟩ := List.getLast?_eq_some_iff.mp (tr.last i y e' hy hy')
              exact ⟨l0, e', h0, hc⟩
            | cons a a'' =>
              exfalso
              cases a'' with
              | nil => simp at hb
              | cons b a3 =>
                have := congrArg List.length hb
                simp at this
          · cases c' with
            | nil =>
              simp only [List.nil_append, List.cons.injEq, Ev.handout.injEq, true_and] at hd
              obtain ⟨rfl, _⟩ := hd
              rw [List.append_nil] at hc1
              subst hc1
              obtain ⟨l0, h0⟩ := List.getLast?_eq_some_iff.mp (tr.last i y e' hy hy')
              exact ⟨l0, e', h0, hc⟩
            | cons x c'' =>
              simp only [List.cons_append, List.cons.injEq] at hd
              obtain ⟨rfl, _⟩ := hd
              exact tr.hand i o' l1 c'' hc1
      · rw [stepOp_evsOf_other hs hij] at hdec
        exact tr.hand i o' l1 l2 hdec

theorem Tr.step {s s' : State} {a : Action} (tr : Tr s) (h : DeadpoolVerif.step s a = some s') :
    Tr s' := by
  unfold DeadpoolVerif.step at h
  cases a with
  | start sp =>
    simp only [Option.map_eq_some_iff] at h
    obtain ⟨s1, h1, rfl⟩ := h
    obtain ⟨x, hx, hform⟩ := startOp_ops h1
    have hlog : s1.log = s.log ∧ s1.cfg = s.cfg := by
      cases sp
      all_goals simp only [startOp] at h1
      all_goals repeat' split at h1
      all_goals first | (simp at h1; done) | skip
      all_goals (simp only [Option.some.injEq] at h1; subst h1; exact ⟨rfl, rfl⟩)
    refine ⟨?_, ?_⟩
    · intro i op e hop he
      simp only [] at hop he ⊢
      rw [hlog.1]
      rw [hlog.2] at he
      rw [hx] at hop
      by_cases hlt : i < s.ops.length
      · rw [List.getElem?_append_left hlt] at hop
        exact tr.last i op e hop he
      · exfalso
        have hge : s.ops.length ≤ i := by omega
        rw [List.getElem?_append_right hge] at hop
        have : op = x := by
          cases hi : i - s.ops.length with
          | zero => rw [hi] at hop; simpa using hop.symm
          | succ m => rw [hi] at hop; simp at hop
        subst this
        rcases hform with rfl | ⟨_, rfl⟩ | ⟨_, rfl⟩ | ⟨_, _, rfl⟩ | ⟨_, rfl⟩ | rfl <;>
          simp [Op.lastEv] at he
    · intro i o' l1 l2 hdec
      simp only [] at hdec ⊢
      rw [hlog.1] at hdec
      rw [hlog.2]
      exact tr.hand i o' l1 l2 hdec
  | step j oc =>
    simp only [Option.map_eq_some_iff] at h
    obtain ⟨s1, h1, rfl⟩ := h
    have t1 := tr.stepOp h1
    exact ⟨t1.last, t1.hand⟩

theorem run_tr (cfg : Cfg) (acts : List Action) : Tr (run (init cfg) acts) := by
  suffices h : ∀ s, Tr s → Tr (run s acts) from h _ (Tr.init cfg)
  induction acts with
  | nil => intro s t; exact t
  | cons a as ih =>
    intro s t
    rw [run_cons]
    cases hst : DeadpoolVerif.step s a with
    | none => exact ih s t
    | some s1 => exact ih s1 (t.step hst)

theorem step_cfg {s s' : State} {a : Action} (h : DeadpoolVerif.step s a = some s') :
    s'.cfg = s.cfg := by
  unfold DeadpoolVerif.step at h
  cases a with
  | start sp =>
    simp only [Option.map_eq_some_iff] at h
    obtain ⟨s1, h1, rfl⟩ := h
    cases sp
    all_goals simp only [startOp] at h1
    all_goals repeat' split at h1
    all_goals first | (simp at h1; done) | skip
    all_goals (simp only [Option.some.injEq] at h1; subst h1; rfl)
  | step j oc =>
    simp only [Option.map_eq_some_iff] at h
    obtain ⟨s1, h1, rfl⟩ := h
    exact stepOp_cfg (s' := s1) h1

theorem run_cfg (s : State) (acts : List Action) : (run s acts).cfg = s.cfg := by
  induction acts generalizing s with
  | nil => rfl
  | cons a as ih =>
    rw [run_cons]
    cases hst : DeadpoolVerif.step s a with
    | none => exact ih s
    | some s1 => exact (ih s1).trans (step_cfg hst)

end DeadpoolVerif
