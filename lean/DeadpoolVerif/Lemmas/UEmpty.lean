/-
A closed unmanaged pool keeps no objects: whenever the pool is closed and nobody is on
their way to `clear()`, the queue is empty.
-/
import DeadpoolVerif.Lemmas.UAcctStep

namespace DeadpoolVerif
namespace U

/-- the op will certainly run `clean_up()` / `clear()` (it pushed an object, or it is the
close itself) -/
def Op.cleanerW : Op → Nat
  | .ret _ .avail | .ret _ .addPermits | .ret _ .cleanup | .ret _ .clear => 1
  | .add _ _ .avail | .add _ _ .addPermits | .add _ _ .cleanup | .add _ _ .clear => 1
  | .close .sizeSem | .close .clear => 1
  | _ => 0

structure Empt (s : State) : Prop where
  closedEmpty : s.sem.closed = true → sumW Op.cleanerW s.ops = 0 → s.queue = []

theorem Empt.init (cfg : Cfg) : Empt (init cfg) := by
  constructor
  intro h
  simp [U.init, Sem.new] at h

macro "e_simp" h:ident : tactic => `(tactic|
  simp only [State.setOp, State.emit, finishGet, failGet, clear, sumW_set' _ _ $h, Op.cleanerW,
    List.length_append, List.length_cons, List.length_nil, List.length_dropLast, Sem.addPermits_closed,
    dropAcquire_closed, Sem.close, Nat.add_zero, Nat.sub_zero, Nat.zero_add, Bool.false_eq_true,
    ↓reduceIte] at *)

/-- closes a leaf: `e` is the invariant before, `h` the lookup of the stepping op -/
macro "e_leaf" e:ident h:ident st:ident : tactic => `(tactic| (
  refine ⟨fun hc' hz' => List.eq_nil_of_length_eq_zero ?_⟩
  have b := sumW_mem_le Op.cleanerW _ _ _ $h
  have q0 : (State.sem $st).closed = true → sumW Op.cleanerW (State.ops $st) = 0 → (State.queue $st).length = 0 :=
    fun x y => by rw [($e).closedEmpty x y]; rfl
  try (have c1 := tryAcquire_closed ‹Sem.tryAcquire (State.sem $st) = _›)
  try (have c2 := pollAcquire_closed' ‹Sem.pollAcquire (State.sem $st) _ = _›)
  rcases Bool.eq_false_or_eq_true (State.sem $st).closed with hcl | hcl
  · first
    | (exact absurd hcl ‹¬ (State.sem $st).closed = true›)
    | (by_cases hz : sumW Op.cleanerW (State.ops $st) = 0
       · have := q0 hcl hz
         e_simp $h <;> omega
       · e_simp $h <;> omega)
  · first
      | (e_simp $h <;> first | omega | (rw [hcl] at hc'; simp at hc'; done)
                               | (rw [c1, hcl] at hc'; simp at hc'; done)
                               | (rw [c2, hcl] at hc'; simp at hc'; done)
                               | (simp_all; done))))

theorem step_empt {s s' : State} {act : Action} (e : Empt s) (hs : step s act = some s') : Empt s' := by
  cases act with
  | start sp =>
    simp only [step] at hs
    cases sp <;> simp only [startOp] at hs
    all_goals repeat' split at hs
    all_goals first | (simp at hs; done) | skip
    all_goals (simp only [Option.some.injEq] at hs; subst hs)
    all_goals (
      refine ⟨fun hc' hz' => ?_⟩
      simp only [sumW_append, sumW_cons, sumW_nil, Op.cleanerW] at hz'
      exact e.closedEmpty hc' (by omega))
  | step i oc =>
    simp only [step, stepOp] at hs
    split at hs
    · simp at hs
    · rename_i op h
      cases op with
      | get wt t r pc =>
        simp only at hs
        cases t <;> cases r <;> cases pc <;> cases oc <;> simp only [stepGet] at hs
        all_goals first | (simp at hs; done) | skip
        all_goals repeat' split at hs
        all_goals first | (simp at hs; done) | skip
        all_goals try (exact absurd trivial ‹¬True›)
        all_goals (simp only [Option.some.injEq] at hs; subst hs)
        all_goals e_leaf e h s
      | add id t pc =>
        simp only at hs
        cases t <;> cases pc <;> cases oc <;> simp only [stepAdd] at hs
        all_goals first | (simp at hs; done) | skip
        all_goals repeat' split at hs
        all_goals first | (simp at hs; done) | skip
        all_goals (simp only [Option.some.injEq] at hs; subst hs)
        all_goals e_leaf e h s
      | ret id pc =>
        simp only at hs
        split at hs
        · cases pc <;> simp only [stepRet] at hs
          all_goals repeat' split at hs
          all_goals (simp only [Option.some.injEq] at hs; subst hs)
          all_goals e_leaf e h s
        · simp at hs
      | take id pc v =>
        simp only at hs
        split at hs
        · cases pc <;> simp only [stepTake] at hs
          all_goals (simp only [Option.some.injEq] at hs; subst hs)
          all_goals try cases v
          all_goals e_leaf e h s
        · simp at hs
      | close pc =>
        simp only at hs
        split at hs
        · cases pc <;> simp only [stepClose] at hs
          all_goals (simp only [Option.some.injEq] at hs; subst hs)
          all_goals e_leaf e h s
        · simp at hs
      | status =>
        simp only at hs
        split at hs
        · simp only [Option.some.injEq] at hs; subst hs
          e_leaf e h s
        · simp at hs
      | done => simp at hs

theorem run_empty (cfg : Cfg) (acts : List Action) : Empt (run (init cfg) acts) := by
  suffices h : ∀ s, Empt s → Empt (run s acts) from h _ (Empt.init cfg)
  induction acts with
  | nil => intro s a; exact a
  | cons act acts ih =>
    intro s a
    rw [run_cons]
    apply ih
    cases hst : step s act with
    | none => exact a
    | some s1 => exact step_empt a hst

end U
end DeadpoolVerif
