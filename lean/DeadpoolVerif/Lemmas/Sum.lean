/-
Sums of a weight over the operation list.
-/
namespace DeadpoolVerif

def sumW {α : Type} (f : α → Nat) (l : List α) : Nat := (l.map f).sum

@[simp] theorem sumW_nil {α : Type} (f : α → Nat) : sumW f ([] : List α) = 0 := rfl

@[simp] theorem sumW_cons {α : Type} (f : α → Nat) (a : α) (l : List α) :
    sumW f (a :: l) = f a + sumW f l := by
  simp [sumW]

@[simp] theorem sumW_append {α : Type} (f : α → Nat) (l₁ l₂ : List α) :
    sumW f (l₁ ++ l₂) = sumW f l₁ + sumW f l₂ := by
  simp [sumW]

theorem sumW_set {α : Type} (f : α → Nat) (l : List α) (i : Nat) (x y : α)
    (h : l[i]? = some y) : sumW f (l.set i x) + f y = sumW f l + f x := by
  induction l generalizing i with
  | nil => simp at h
  | cons a l ih =>
    cases i with
    | zero =>
      simp only [List.getElem?_cons_zero, Option.some.injEq] at h
      subst h
      simp only [List.set_cons_zero, sumW_cons]
      omega
    | succ i =>
      simp only [List.getElem?_cons_succ] at h
      have := ih i h
      simp only [List.set_cons_succ, sumW_cons]
      omega

theorem sumW_le {α : Type} (f g : α → Nat) (l : List α) (h : ∀ a, f a ≤ g a) :
    sumW f l ≤ sumW g l := by
  induction l with
  | nil => simp
  | cons a l ih =>
    simp only [sumW_cons]
    have := h a
    omega

theorem sumW_zero {α : Type} (f : α → Nat) (l : List α) (h : ∀ a ∈ l, f a = 0) :
    sumW f l = 0 := by
  induction l with
  | nil => simp
  | cons a l ih =>
    simp only [sumW_cons]
    have h1 := h a (by simp)
    have h2 := ih (fun b hb => h b (by simp [hb]))
    omega

theorem sumW_mem_le {α : Type} (f : α → Nat) (l : List α) (i : Nat) (y : α)
    (h : l[i]? = some y) : f y ≤ sumW f l := by
  induction l generalizing i with
  | nil => simp at h
  | cons a l ih =>
    cases i with
    | zero =>
      simp only [List.getElem?_cons_zero, Option.some.injEq] at h
      subst h
      simp only [sumW_cons]
      omega
    | succ i =>
      simp only [List.getElem?_cons_succ] at h
      have := ih i h
      simp only [sumW_cons]
      omega

end DeadpoolVerif
