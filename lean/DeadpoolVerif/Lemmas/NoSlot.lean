/-
Trace-level consequence of "close() is final": an operation that does not hold a capacity
token when the pool is closed never holds one again, and therefore never yields an object —
along *every* continuation.  Used by `Props/C06.lean`.
-/
import DeadpoolVerif.Lemmas.Closed
import DeadpoolVerif.Lemmas.Frame
import DeadpoolVerif.Lemmas.LogMono

namespace DeadpoolVerif

/-- the operation is not a `get()` that owns a capacity token: it has not obtained its slot
(yet), or it is not a get at all -/
def Op.noSlot : Op → Bool
  | .get _ pc => pc.permW == 0
  | _ => true

/-- a hand-out event of operation `k` can only be appended by a step of operation `k` itself,
and only while it owns a token -/
theorem stepOp_handout {s s' : State} {j : Nat} {oc : Outcome} (hs : stepOp s j oc = some s')
    (k : Nat) (o : Obj) (hin : Ev.handout k o ∈ s'.log) :
    Ev.handout k o ∈ s.log ∨ (k = j ∧ ∃ y, s.ops[j]? = some y ∧ y.noSlot = false) := by
  unfold stepOp at hs
  split at hs
  · simp at hs
  · rename_i op h
    cases op with
    | get t pc =>
      simp only at hs
      unfold stepGet at hs
      simp only [arriveRecycle, arrivePostCreate, handOut, failPermit] at hs
      repeat' split at hs
      all_goals first
        | (simp at hs; done)
        | skip
      all_goals (simp only [Option.some.injEq] at hs; subst hs)
      all_goals simp only [State.setOp, State.emit, List.mem_append, List.mem_cons,
        List.not_mem_nil, or_false, reduceCtorEq, Ev.handout.injEq] at hin
      all_goals first
        | exact Or.inl hin
        | (rcases hin with hin | hin
           · exact Or.inl hin
           · exact Or.inr ⟨hin.1, _, h, rfl⟩)
    | ret pc o' =>
      simp only at hs
      split at hs
      · cases pc
        all_goals simp only [stepRet] at hs
        all_goals repeat' split at hs
        all_goals first
          | (simp at hs; done)
          | skip
        all_goals (simp only [Option.some.injEq] at hs; subst hs)
        all_goals simp only [State.setOp, State.emit, List.mem_append, List.mem_cons,
          List.not_mem_nil, or_false, reduceCtorEq] at hin
        all_goals exact Or.inl hin
      · split at hs
        · simp only [stepRetPanic, Option.some.injEq] at hs; subst hs
          simp only [State.setOp, State.emit, List.mem_append, List.mem_cons,
            List.not_mem_nil, or_false, reduceCtorEq] at hin
          exact Or.inl hin
        · simp at hs
    | take pc o' add =>
      simp only at hs
      split at hs
      · cases pc
        all_goals simp only [stepTake] at hs
        all_goals repeat' split at hs
        all_goals first
          | (simp at hs; done)
          | skip
        all_goals (simp only [Option.some.injEq] at hs; subst hs)
        all_goals simp only [State.setOp, State.emit, List.mem_append, List.mem_cons,
          List.not_mem_nil, or_false, reduceCtorEq] at hin
        all_goals exact Or.inl hin
      · split at hs
        · simp only [stepTakePanic, Option.some.injEq] at hs; subst hs
          simp only [State.setOp, State.emit, List.mem_append, List.mem_cons,
            List.not_mem_nil, or_false, reduceCtorEq] at hin
          exact Or.inl hin
        · simp at hs
    | resize n c pc old =>
      simp only at hs
      split at hs
      · have hd : ∀ l, Ev.handout k o ∉ drainEvs j l := by
          intro l
          induction l with
          | nil => simp [drainEvs]
          | cons x rest ih => simp [drainEvs, ih]
        cases pc
        all_goals simp only [stepResize, finishResize] at hs
        all_goals repeat' split at hs
        all_goals first
          | (simp at hs; done)
          | skip
        all_goals (simp only [Option.some.injEq] at hs; subst hs)
        all_goals simp only [State.setOp, State.emit, List.mem_append, List.mem_cons,
          List.not_mem_nil, or_false, reduceCtorEq] at hin
        all_goals first
          | exact Or.inl hin
          | (rcases hin with hin | hin
             · exact Or.inl hin
             · exact absurd hin (hd _))
      · simp at hs
    | retain keep =>
      simp only at hs
      split at hs
      · unfold stepRetain at hs
        split at hs
        · simp at hs
        · simp only [Option.some.injEq] at hs; subst hs
          simp only [State.setOp, State.emit, List.mem_append, List.mem_cons,
            List.not_mem_nil, or_false, reduceCtorEq] at hin
          rcases hin with hin | hin
          · exact Or.inl hin
          · exfalso
            have : ∀ n l, Ev.handout k o ∉ retainEvs j keep n l := by
              intro n l
              induction l generalizing n with
              | nil => simp [retainEvs]
              | cons x rest ih =>
                simp only [retainEvs]
                split <;> simp [ih]
            exact this _ _ hin
      · simp at hs
    | status =>
      simp only at hs
      split at hs
      · unfold stepStatus at hs
        split at hs
        · simp at hs
        · simp only [Option.some.injEq] at hs; subst hs
          simp only [State.setOp, State.emit, List.mem_append, List.mem_cons,
            List.not_mem_nil, or_false, reduceCtorEq] at hin
          exact Or.inl hin
      · simp at hs
    | done => simp at hs

/-- on a closed pool a get that owns no token stays without one: its own steps lead to
`Closed` / `NoRuntimeSpecified` / abandonment only -/
theorem stepGet_noSlot_closed {s s' : State} {i : Nat} {t : Timeouts} {pc : GPc} {oc : Outcome}
    (hc : s.sem.closed = true) (hp : pc.permW = 0) (h : stepGet s i t pc oc = some s') :
    ∃ x, s'.ops = s.ops.set i x ∧ x.noSlot = true := by
  have hpoll : ∀ sem r, s.sem.pollAcquire i = (sem, r) → r = .closed := by
    intro sem r hp
    unfold Sem.pollAcquire at hp
    simp only [hc, if_true] at hp
    split at hp <;> (simp only [Prod.mk.injEq] at hp; exact hp.2.symm)
  have htry : ∀ sem r, s.sem.tryAcquire = (sem, r) → r = .closed := by
    intro sem r hp
    unfold Sem.tryAcquire at hp
    simp only [hc, if_true, Prod.mk.injEq] at hp
    exact hp.2.symm
  cases pc
  all_goals first | (simp [GPc.permW] at hp; done) | skip
  all_goals cases oc
  all_goals simp only [stepGet] at h
  all_goals first | (simp at h; done) | skip
  all_goals repeat' split at h
  all_goals first | (simp at h; done) | skip
  all_goals (simp only [Option.some.injEq] at h; subst h)
  all_goals try (have q := hpoll _ _ ‹Sem.pollAcquire _ _ = _›)
  all_goals try (have q := htry _ _ ‹Sem.tryAcquire _ = _›)
  all_goals first
    | exact TryRes.noConfusion q
    | exact PollRes.noConfusion q
    | exact ⟨_, rfl, rfl⟩

/-- the invariant behind `C06_no_object_after_close` -/
structure NoSlotAt (i : Nat) (s : State) : Prop where
  closed : s.sem.closed = true
  noSlot : ∀ op, s.ops[i]? = some op → op.noSlot = true

theorem NoSlotAt.step {i : Nat} {s s' : State} {a : Action} (k : NoSlotAt i s)
    (hcm : s'.sem.closed = true) (h : DeadpoolVerif.step s a = some s') :
    NoSlotAt i s' ∧ ∀ o, Ev.handout i o ∈ s'.log → Ev.handout i o ∈ s.log := by
  unfold DeadpoolVerif.step at h
  cases a with
  | start sp =>
    simp only [Option.map_eq_some_iff] at h
    obtain ⟨s1, h1, rfl⟩ := h
    obtain ⟨x, hx, hform⟩ := startOp_ops h1
    have hlog : s1.log = s.log := by
      cases sp
      all_goals simp only [startOp] at h1
      all_goals repeat' split at h1
      all_goals first | (simp at h1; done) | skip
      all_goals (simp only [Option.some.injEq] at h1; subst h1; rfl)
    refine ⟨⟨hcm, ?_⟩, ?_⟩
    · intro op hop
      simp only [] at hop
      rw [hx] at hop
      by_cases hlt : i < s.ops.length
      · rw [List.getElem?_append_left hlt] at hop
        exact k.noSlot op hop
      · have hge : s.ops.length ≤ i := by omega
        rw [List.getElem?_append_right hge] at hop
        have : op = x := by
          cases hi : i - s.ops.length with
          | zero => rw [hi] at hop; simpa using hop.symm
          | succ m => rw [hi] at hop; simp at hop
        subst this
        rcases hform with rfl | ⟨_, rfl⟩ | ⟨_, rfl⟩ | ⟨_, _, rfl⟩ | ⟨_, rfl⟩ | rfl <;> rfl
    · intro o ho
      simp only [] at ho
      rw [hlog] at ho
      exact ho
  | step j oc =>
    simp only [Option.map_eq_some_iff] at h
    obtain ⟨s1, h1, rfl⟩ := h
    cases hy : s.ops[j]? with
    | none => simp [stepOp, hy] at h1
    | some y =>
      obtain ⟨x, hx, hget⟩ := stepOp_ops' hy h1
      have hev : ∀ o, Ev.handout i o ∈ s1.log → Ev.handout i o ∈ s.log := by
        intro o ho
        rcases stepOp_handout h1 i o ho with h2 | ⟨rfl, y', hy', hn⟩
        · exact h2
        · have := k.noSlot y' hy'
          rw [this] at hn
          exact absurd hn (by simp)
      refine ⟨⟨hcm, ?_⟩, hev⟩
      intro op hop
      simp only [] at hop
      rw [hx] at hop
      by_cases e : i = j
      · subst e
        rw [getElem?_set_self' hy] at hop
        simp only [Option.some.injEq] at hop
        subst hop
        have hyn := k.noSlot y hy
        cases y with
        | get t pc =>
          have hp : pc.permW = 0 := by simpa [Op.noSlot] using hyn
          have h2 : stepGet s i t pc oc = some s1 := by
            simpa [stepOp, hy] using h1
          obtain ⟨x', hx', hxn⟩ := stepGet_noSlot_closed k.closed hp h2
          rw [hx] at hx'
          rw [set_inj hy hx']
          exact hxn
        | _ =>
          have := hget rfl
          cases x <;> first | rfl | (simp [Op.isGet] at this)
      · rw [getElem?_set_ne' e] at hop
        exact k.noSlot op hop

end DeadpoolVerif
