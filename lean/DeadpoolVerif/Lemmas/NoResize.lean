/-
Frame facts: `cfg` never changes; without resize / close operations `maxSize`
keeps its configured value and the ghost `debt` stays 0.
-/
import DeadpoolVerif.Lemmas.Acct

namespace DeadpoolVerif

def Op.rzW : Op → Nat
  | .resize .. => 1
  | _ => 0

/-- no resize / close operation was ever started -/
structure NoRz (s : State) : Prop where
  rz : sumW Op.rzW s.ops = 0
  debt : s.debt = 0
  max : s.maxSize = s.cfg.maxSize
  closed : s.sem.closed = false

theorem Sem.tryAcquire_closed' {s s' : Sem} {r : TryRes} (h : s.tryAcquire = (s', r)) :
    s'.closed = s.closed := by
  unfold Sem.tryAcquire at h
  repeat' split at h
  all_goals (simp only [Prod.mk.injEq] at h; obtain ⟨rfl, _⟩ := h; rfl)

theorem Sem.pollAcquire_closed' {s s' : Sem} {me : Nat} {r : PollRes}
    (h : s.pollAcquire me = (s', r)) : s'.closed = s.closed := by
  unfold Sem.pollAcquire at h
  repeat' split at h
  all_goals (simp only [Prod.mk.injEq] at h; obtain ⟨rfl, _⟩ := h; rfl)

theorem Sem.dropAcquire_closed' (s : Sem) (me : Nat) : (s.dropAcquire me).closed = s.closed := by
  unfold Sem.dropAcquire
  split <;> rfl

macro "frame_simp" h:ident : tactic => `(tactic|
  simp only [State.setOp, State.emit, arriveRecycle, handOut, arrivePostCreate, failPermit,
    finishResize, sumW_set' _ _ $h, Op.rzW, Nat.zero_sub, Nat.add_zero,
    Sem.addPermits_closed, Sem.dropAcquire_closed'] at *)

macro "frame_close" h:ident : tactic => `(tactic| (
  all_goals refine ⟨?_, ?_, ?_, ?_⟩
  all_goals first
    | (frame_simp $h; omega)
    | (frame_simp $h; assumption)
    | (frame_simp $h; split <;> frame_simp $h <;> first | omega | assumption)
    | (frame_simp $h; simp_all; done)))

theorem stepGet_norz {s s' : State} {i : Nat} {t : Timeouts} {pc : GPc} {oc : Outcome}
    (h : s.ops[i]? = some (.get t pc)) (a : NoRz s)
    (hs : stepGet s i t pc oc = some s') : NoRz s' ∧ s'.cfg = s.cfg := by
  obtain ⟨a1, a2, a3, a4⟩ := a
  unfold stepGet at hs
  repeat' split at hs
  all_goals first
    | (simp at hs; done)
    | skip
  all_goals (simp only [Option.some.injEq] at hs; subst hs)
  all_goals try (have t1 := Sem.tryAcquire_closed' ‹Sem.tryAcquire _ = _›)
  all_goals try (have t2 := Sem.pollAcquire_closed' ‹Sem.pollAcquire _ _ = _›)
  all_goals refine ⟨?_, ?_⟩
  all_goals first
    | (frame_simp h; done)
    | (refine ⟨?_, ?_, ?_, ?_⟩ <;> frame_simp h <;>
        first | omega | assumption | (split <;> frame_simp h <;> first | omega | assumption) | simp_all)
    | (simp only [arrivePostCreate]; split <;> rfl)

/-- the same for the other operation kinds -/
theorem stepRet_norz {s s' : State} {i : Nat} {pc : RPc} {o : Obj}
    (h : s.ops[i]? = some (.ret pc o)) (a : NoRz s)
    (hs : stepRet s i pc o = some s') : NoRz s' ∧ s'.cfg = s.cfg := by
  obtain ⟨a1, a2, a3, a4⟩ := a
  cases pc
  all_goals simp only [stepRet] at hs
  all_goals repeat' split at hs
  all_goals first
    | (simp at hs; done)
    | skip
  all_goals (simp only [Option.some.injEq] at hs; subst hs)
  all_goals refine ⟨?_, ?_⟩
  all_goals first
    | (frame_simp h; done)
    | (refine ⟨?_, ?_, ?_, ?_⟩ <;> frame_simp h <;> first | omega | assumption | simp_all)

theorem stepTake_norz {s s' : State} {i : Nat} {pc : TPc} {o : Obj} {add : Bool}
    (h : s.ops[i]? = some (.take pc o add)) (a : NoRz s)
    (hs : stepTake s i pc o add = some s') : NoRz s' ∧ s'.cfg = s.cfg := by
  obtain ⟨a1, a2, a3, a4⟩ := a
  cases pc
  all_goals simp only [stepTake] at hs
  all_goals repeat' split at hs
  all_goals first
    | (simp at hs; done)
    | skip
  all_goals (simp only [Option.some.injEq] at hs; subst hs)
  all_goals refine ⟨?_, ?_⟩
  all_goals first
    | (frame_simp h; done)
    | (refine ⟨?_, ?_, ?_, ?_⟩ <;> frame_simp h <;>
        first | omega | assumption | (split <;> omega) | simp_all)

theorem stepTakePanic_norz {s s' : State} {i : Nat} {o : Obj} {add : Bool}
    (h : s.ops[i]? = some (.take .detach o add)) (a : NoRz s)
    (hs : stepTakePanic s i o = some s') : NoRz s' ∧ s'.cfg = s.cfg := by
  obtain ⟨a1, a2, a3, a4⟩ := a
  simp only [stepTakePanic, Option.some.injEq] at hs
  subst hs
  refine ⟨?_, ?_⟩
  all_goals first
    | (frame_simp h; done)
    | (refine ⟨?_, ?_, ?_, ?_⟩ <;> frame_simp h <;>
        first | omega | assumption | (split <;> omega) | simp_all)

theorem stepRetPanic_norz {s s' : State} {i : Nat} {o : Obj}
    (h : s.ops[i]? = some (.ret .detach o)) (a : NoRz s)
    (hs : stepRetPanic s i o = some s') : NoRz s' ∧ s'.cfg = s.cfg := by
  obtain ⟨a1, a2, a3, a4⟩ := a
  simp only [stepRetPanic, Option.some.injEq] at hs
  subst hs
  refine ⟨?_, ?_⟩
  all_goals first
    | (frame_simp h; done)
    | (refine ⟨?_, ?_, ?_, ?_⟩ <;> frame_simp h <;>
        first | omega | assumption | (split <;> omega) | simp_all)

theorem stepRetain_norz {s s' : State} {i : Nat} {keep : List Bool}
    (h : s.ops[i]? = some (.retain keep)) (a : NoRz s)
    (hs : stepRetain s i keep = some s') : NoRz s' ∧ s'.cfg = s.cfg := by
  obtain ⟨a1, a2, a3, a4⟩ := a
  unfold stepRetain at hs
  split at hs
  · simp at hs
  · simp only [Option.some.injEq] at hs
    subst hs
    refine ⟨⟨?_, ?_, ?_, ?_⟩, ?_⟩ <;> frame_simp h <;> first | omega | assumption | rfl

theorem stepStatus_norz {s s' : State} {i : Nat}
    (h : s.ops[i]? = some .status) (a : NoRz s)
    (hs : stepStatus s i = some s') : NoRz s' ∧ s'.cfg = s.cfg := by
  obtain ⟨a1, a2, a3, a4⟩ := a
  unfold stepStatus at hs
  split at hs
  · simp at hs
  · simp only [Option.some.injEq] at hs
    subst hs
    refine ⟨⟨?_, ?_, ?_, ?_⟩, ?_⟩ <;> frame_simp h <;> first | omega | assumption | rfl

theorem stepOp_norz {s s' : State} {i : Nat} {oc : Outcome} (a : NoRz s)
    (hs : stepOp s i oc = some s') : NoRz s' ∧ s'.cfg = s.cfg := by
  unfold stepOp at hs
  split at hs
  · simp at hs
  · rename_i op h
    cases op with
    | get t pc => exact stepGet_norz h a hs
    | ret pc o =>
      simp only at hs
      split at hs
      · exact stepRet_norz h a hs
      · split at hs
        · have := retPanic_pc ‹_›; subst this
          exact stepRetPanic_norz h a hs
        · simp at hs
    | take pc o add =>
      simp only at hs
      split at hs
      · exact stepTake_norz h a hs
      · split at hs
        · have := takePanic_pc ‹_›; subst this
          exact stepTakePanic_norz h a hs
        · simp at hs
    | resize n c pc old =>
      exfalso
      have := sumW_mem_le Op.rzW _ _ _ h
      have := a.rz
      simp only [Op.rzW] at *
      omega
    | retain keep =>
      simp only at hs
      split at hs
      · exact stepRetain_norz h a hs
      · simp at hs
    | status =>
      simp only at hs
      split at hs
      · exact stepStatus_norz h a hs
      · simp at hs
    | done => simp at hs

theorem startOp_norz {s s' : State} {sp : Spec} (a : NoRz s) (hr : sp.isResize = false)
    (hs : startOp s sp = some s') : NoRz s' ∧ s'.cfg = s.cfg := by
  obtain ⟨a1, a2, a3, a4⟩ := a
  cases sp
  all_goals simp only [Spec.isResize, Bool.true_eq_false] at hr
  all_goals simp only [startOp] at hs
  all_goals repeat' split at hs
  all_goals first
    | (simp at hs; done)
    | skip
  all_goals (simp only [Option.some.injEq] at hs; subst hs)
  all_goals refine ⟨⟨?_, ?_, ?_, ?_⟩, ?_⟩
  all_goals first
    | (simp only [sumW_append, sumW_cons, sumW_nil, Op.rzW] at *; omega)
    | assumption
    | rfl

theorem step_norz {s s' : State} {act : Action} (a : NoRz s) (hr : act.isResize = false)
    (hs : step s act = some s') : NoRz s' ∧ s'.cfg = s.cfg := by
  unfold step at hs
  cases act with
  | start sp =>
    simp only [Option.map_eq_some_iff] at hs
    obtain ⟨s1, h1, rfl⟩ := hs
    have := startOp_norz a hr h1
    exact ⟨⟨this.1.rz, this.1.debt, this.1.max, this.1.closed⟩, this.2⟩
  | step i oc =>
    simp only [Option.map_eq_some_iff] at hs
    obtain ⟨s1, h1, rfl⟩ := hs
    have := stepOp_norz a h1
    exact ⟨⟨this.1.rz, this.1.debt, this.1.max, this.1.closed⟩, this.2⟩

def noResize (acts : List Action) : Prop := ∀ a ∈ acts, a.isResize = false

theorem NoRz.init (cfg : Cfg) : NoRz (init cfg) ∧ (init cfg).cfg = cfg := by
  refine ⟨⟨?_, ?_, ?_, ?_⟩, ?_⟩ <;> simp [DeadpoolVerif.init, Sem.new]

theorem run_norz (cfg : Cfg) (acts : List Action) (h : noResize acts) :
    NoRz (run (init cfg) acts) ∧ (run (init cfg) acts).cfg = cfg := by
  suffices g : ∀ s, NoRz s → s.cfg = cfg → NoRz (run s acts) ∧ (run s acts).cfg = cfg from
    g _ (NoRz.init cfg).1 (NoRz.init cfg).2
  induction acts with
  | nil => intro s a c; exact ⟨a, c⟩
  | cons act acts ih =>
    intro s a c
    rw [run_cons]
    have hr : act.isResize = false := h act (by simp)
    have hrest : noResize acts := fun b hb => h b (by simp [hb])
    cases hst : step s act with
    | none => exact ih hrest s a c
    | some s1 =>
      have := step_norz a hr hst
      exact ih hrest s1 this.1 (this.2.trans c)

end DeadpoolVerif
