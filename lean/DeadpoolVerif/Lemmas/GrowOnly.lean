/-
Histories in which `max_size` is never lowered: every `resize(n)` takes the mutex with
`n ≥` the current `max_size`, and the pool is not closed.  In such histories the ghost `debt`
(capacity a shrink could not collect) stays 0, so the accounting invariant gives the C01
bound with the *current* `max_size`.
-/
import DeadpoolVerif.Lemmas.Acct

namespace DeadpoolVerif

/-- the action does not lower `max_size`: it is not a `close()`, and if it is the step in
which a `resize(n)` takes the mutex then `n` is at least the current `max_size` -/
def growOnlyAct (s : State) : Action → Bool
  | .start .close => false
  | .step i _ =>
    match s.ops[i]? with
    | some (.resize n false .lock _) => decide (s.maxSize ≤ n)
    | some (.resize _ true _ _) => false
    | _ => true
  | _ => true

/-- every action of the history is `growOnlyAct` in the state it is taken in -/
def GrowOnly : State → List Action → Prop
  | _, [] => True
  | s, a :: as => growOnlyAct s a = true ∧ GrowOnly ((step s a).getD s) as

instance GrowOnly.dec : ∀ (s : State) (acts : List Action), Decidable (GrowOnly s acts)
  | _, [] => isTrue trivial
  | s, a :: as =>
    have := GrowOnly.dec ((step s a).getD s) as
    show Decidable (growOnlyAct s a = true ∧ GrowOnly ((step s a).getD s) as) from inferInstance

/-- a step that does not lower `max_size` does not create debt -/
theorem stepOp_debt_zero {s s' : State} {i : Nat} {oc : Outcome} (hd : s.debt = 0)
    (hg : growOnlyAct s (.step i oc) = true) (hs : stepOp s i oc = some s') : s'.debt = 0 := by
  unfold stepOp at hs
  split at hs
  · simp at hs
  · rename_i op hop
    cases op with
    | get t pc =>
      simp only at hs
      unfold stepGet at hs
      simp only [arriveRecycle, arrivePostCreate, handOut, failPermit] at hs
      repeat' split at hs
      all_goals first | (simp at hs; done) | skip
      all_goals (simp only [Option.some.injEq] at hs; subst hs)
      all_goals first
        | exact hd
        | (simp only [State.setOp, State.emit]; omega)
    | ret pc o =>
      simp only at hs
      split at hs
      · cases pc
        all_goals simp only [stepRet] at hs
        all_goals repeat' split at hs
        all_goals first | (simp at hs; done) | skip
        all_goals (simp only [Option.some.injEq] at hs; subst hs)
        all_goals first
          | exact hd
          | (simp only [State.setOp, State.emit]; omega)
      · split at hs
        · simp only [stepRetPanic, Option.some.injEq] at hs; subst hs; exact hd
        · simp at hs
    | take pc o add =>
      simp only at hs
      split at hs
      · cases pc
        all_goals simp only [stepTake] at hs
        all_goals repeat' split at hs
        all_goals first | (simp at hs; done) | skip
        all_goals (simp only [Option.some.injEq] at hs; subst hs)
        all_goals first
          | exact hd
          | (simp only [State.setOp, State.emit]; split <;> omega)
          | (simp only [State.setOp, State.emit]; omega)
      · split at hs
        · simp only [stepTakePanic, Option.some.injEq] at hs; subst hs; exact hd
        · simp at hs
    | resize n c pc old =>
      simp only at hs
      split at hs
      · cases c
        · -- resize(n)
          cases pc
          all_goals simp only [growOnlyAct, hop] at hg
          all_goals simp only [stepResize, finishResize, Bool.false_eq_true, if_false] at hs
          all_goals repeat' split at hs
          all_goals first | (simp at hs; done) | skip
          all_goals (simp only [Option.some.injEq] at hs; subst hs)
          all_goals try (simp only [decide_eq_true_eq] at hg)
          all_goals first
            | exact hd
            | (simp only [State.setOp, State.emit]; omega)
        · -- close(): excluded
          simp [growOnlyAct, hop] at hg
      · simp at hs
    | retain keep =>
      simp only at hs
      split at hs
      · unfold stepRetain at hs
        split at hs
        · simp at hs
        · simp only [Option.some.injEq] at hs; subst hs; exact hd
      · simp at hs
    | status =>
      simp only at hs
      split at hs
      · unfold stepStatus at hs
        split at hs
        · simp at hs
        · simp only [Option.some.injEq] at hs; subst hs; exact hd
      · simp at hs
    | done => simp at hs

theorem step_debt_zero {s s' : State} {a : Action} (hd : s.debt = 0)
    (hg : growOnlyAct s a = true) (hs : step s a = some s') : s'.debt = 0 := by
  unfold step at hs
  cases a with
  | start sp =>
    simp only [Option.map_eq_some_iff] at hs
    obtain ⟨s1, h1, rfl⟩ := hs
    cases sp
    all_goals simp only [startOp] at h1
    all_goals repeat' split at h1
    all_goals first | (simp at h1; done) | skip
    all_goals (simp only [Option.some.injEq] at h1; subst h1; exact hd)
  | step i oc =>
    simp only [Option.map_eq_some_iff] at hs
    obtain ⟨s1, h1, rfl⟩ := hs
    have := stepOp_debt_zero (s' := s1) hd hg h1
    exact this

theorem run_debt_zero (s : State) (acts : List Action) (hd : s.debt = 0) (hg : GrowOnly s acts) :
    (run s acts).debt = 0 := by
  induction acts generalizing s with
  | nil => exact hd
  | cons a as ih =>
    rw [run_cons]
    obtain ⟨h1, h2⟩ := hg
    cases hst : step s a with
    | none => rw [hst] at h2; exact ih s hd h2
    | some s1 => rw [hst] at h2; exact ih s1 (step_debt_zero hd h1 hst) h2

end DeadpoolVerif
