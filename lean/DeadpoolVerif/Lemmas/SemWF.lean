/-
Structural invariants of the semaphore model and how each call changes the set of
registered waiters.
-/
import DeadpoolVerif.Lemmas.Sem

namespace DeadpoolVerif
namespace Sem

/-- every waiter the semaphore knows about -/
def waiting (s : Sem) : List Nat := s.queue ++ s.assigned

structure WF (s : Sem) : Prop where
  nodup : s.waiting.Nodup
  /-- a free permit is never left unused while somebody queues -/
  free : 0 < s.permits → s.queue = []
  /-- `close` empties the queue and nobody enqueues afterwards -/
  closedq : s.closed = true → s.queue = []

theorem WF.new (n : Nat) : (Sem.new n).WF := by
  constructor <;> simp [Sem.new, waiting]

theorem take_append_drop_perm (l : List Nat) (k : Nat) (a : List Nat) :
    (l.drop k ++ (a ++ l.take k)).Perm (l ++ a) := by
  have h1 : (l.drop k ++ (a ++ l.take k)).Perm ((a ++ l.take k) ++ l.drop k) :=
    List.perm_append_comm
  rw [List.append_assoc, List.take_append_drop] at h1
  exact h1.trans List.perm_append_comm

theorem waiting_addPermits_perm (s : Sem) (n : Nat) :
    (s.addPermits n).waiting.Perm s.waiting := by
  simp only [addPermits, waiting]
  exact take_append_drop_perm _ _ _

theorem mem_waiting_addPermits (s : Sem) (n j : Nat) :
    j ∈ (s.addPermits n).waiting ↔ j ∈ s.waiting :=
  (waiting_addPermits_perm s n).mem_iff

theorem WF.addPermits {s : Sem} (w : s.WF) (n : Nat) : (s.addPermits n).WF := by
  refine ⟨?_, ?_, ?_⟩
  · exact (waiting_addPermits_perm s n).nodup_iff.mpr w.nodup
  · intro hp
    simp only [Sem.addPermits] at *
    by_cases hq : s.queue = []
    · simp [hq]
    · have : s.permits = 0 := by
        by_cases h0 : 0 < s.permits
        · exact absurd (w.free h0) hq
        · omega
      have hk : min n s.queue.length = s.queue.length := by omega
      rw [hk]
      simp
  · intro hc
    have := w.closedq hc
    simp [Sem.addPermits, this]

theorem WF.tryAcquire {s s' : Sem} {r : TryRes} (w : s.WF) (h : s.tryAcquire = (s', r)) :
    s'.WF ∧ s'.waiting = s.waiting ∧ s'.closed = s.closed := by
  unfold Sem.tryAcquire at h
  repeat' split at h
  all_goals (simp only [Prod.mk.injEq] at h; obtain ⟨rfl, _⟩ := h)
  · exact ⟨w, rfl, rfl⟩
  · exact ⟨w, rfl, rfl⟩
  · refine ⟨⟨w.nodup, ?_, w.closedq⟩, rfl, rfl⟩
    intro hp
    apply w.free
    simp only at hp
    omega

theorem WF.close {s : Sem} (w : s.WF) : s.close.WF := by
  refine ⟨?_, fun _ => rfl, fun _ => rfl⟩
  have := w.nodup
  simp only [waiting, Sem.close, List.nil_append] at *
  exact (List.nodup_append.mp this).2.1

theorem mem_waiting_close (s : Sem) (j : Nat) : j ∈ s.close.waiting ↔ j ∈ s.assigned := by
  simp [waiting, Sem.close]

theorem nodup_erase_waiting {q a : List Nat} (h : (q ++ a).Nodup) (me : Nat) :
    (q.erase me ++ a).Nodup ∧ (q ++ a.erase me).Nodup := by
  have ⟨hq, ha, hd⟩ := List.nodup_append.mp h
  constructor
  · refine List.nodup_append.mpr ⟨hq.erase me, ha, ?_⟩
    intro x hx y hy
    exact hd x (List.mem_of_mem_erase hx) y hy
  · refine List.nodup_append.mpr ⟨hq, ha.erase me, ?_⟩
    intro x hx y hy
    exact hd x hx y (List.mem_of_mem_erase hy)

/-- `dropAcquire` removes `me` from the waiters and nothing else -/
theorem WF.dropAcquire {s : Sem} (w : s.WF) (me : Nat) :
    (s.dropAcquire me).WF ∧ (∀ j, j ∈ (s.dropAcquire me).waiting ↔ (j ∈ s.waiting ∧ j ≠ me)) ∧
    (s.dropAcquire me).closed = s.closed := by
  have ⟨hq, ha, hd⟩ := List.nodup_append.mp w.nodup
  unfold Sem.dropAcquire
  split
  · rename_i hm
    have hnq : me ∉ s.queue := fun hq' => hd me hq' me hm rfl
    let s1 : Sem := { s with assigned := s.assigned.erase me }
    have w1 : s1.WF := ⟨(nodup_erase_waiting w.nodup me).2, w.free, w.closedq⟩
    refine ⟨w1.addPermits 1, ?_, rfl⟩
    intro j
    rw [mem_waiting_addPermits]
    simp only [waiting, List.mem_append]
    rw [ha.mem_erase_iff]
    constructor
    · rintro (h | ⟨h1, h2⟩)
      · exact ⟨Or.inl h, fun e => hnq (e ▸ h)⟩
      · exact ⟨Or.inr h2, h1⟩
    · rintro ⟨h | h, hne⟩
      · exact Or.inl h
      · exact Or.inr ⟨hne, h⟩
  · rename_i hm
    refine ⟨⟨(nodup_erase_waiting w.nodup me).1, ?_, ?_⟩, ?_, rfl⟩
    · intro hp; simp [w.free hp]
    · intro hc; simp [w.closedq hc]
    · intro j
      simp only [waiting, List.mem_append]
      rw [hq.mem_erase_iff]
      constructor
      · rintro (⟨h1, h2⟩ | h)
        · exact ⟨Or.inl h2, h1⟩
        · exact ⟨Or.inr h, fun e => hm (e ▸ h)⟩
      · rintro ⟨h | h, hne⟩
        · exact Or.inl ⟨hne, h⟩
        · exact Or.inr h

/-- `pollAcquire`: afterwards `me` waits iff the answer was `pending`; nobody else changes -/
theorem WF.pollAcquire {s s' : Sem} {me : Nat} {r : PollRes} (w : s.WF)
    (h : s.pollAcquire me = (s', r)) :
    s'.WF ∧ (∀ j, j ∈ s'.waiting ↔ ((j ∈ s.waiting ∧ j ≠ me) ∨ (r = .pending ∧ j = me))) ∧
    s'.closed = s.closed ∧ (r = .pending → me ∈ s'.queue ∧ s'.permits = 0 ∧ s.closed = false) ∧
    (r = .closed → s.closed = true) := by
  have ⟨hq, ha, hd⟩ := List.nodup_append.mp w.nodup
  unfold Sem.pollAcquire at h
  split at h
  · -- closed: behaves like dropAcquire
    rename_i hc
    have hd' := w.dropAcquire me
    have : s' = s.dropAcquire me ∧ r = .closed := by
      unfold Sem.dropAcquire
      split at h <;> rename_i hm <;> simp only [hm, if_true, if_false] <;>
        (simp only [Prod.mk.injEq] at h; exact ⟨h.1.symm, h.2.symm⟩)
    obtain ⟨rfl, rfl⟩ := this
    refine ⟨hd'.1, ?_, hd'.2.2, by simp, fun _ => hc⟩
    intro j
    rw [hd'.2.1]
    simp
  · rename_i hc
    have hcf : s.closed = false := by simpa using hc
    split at h
    · rename_i hm
      simp only [Prod.mk.injEq] at h
      obtain ⟨rfl, rfl⟩ := h
      have hnq : me ∉ s.queue := fun hq' => hd me hq' me hm rfl
      refine ⟨⟨(nodup_erase_waiting w.nodup me).2, w.free, w.closedq⟩, ?_, rfl, by simp, by simp⟩
      intro j
      simp only [waiting, List.mem_append]
      rw [ha.mem_erase_iff]
      constructor
      · rintro (h | ⟨h1, h2⟩)
        · exact Or.inl ⟨Or.inl h, fun e => hnq (e ▸ h)⟩
        · exact Or.inl ⟨Or.inr h2, h1⟩
      · rintro (⟨h | h, hne⟩ | ⟨h, _⟩)
        · exact Or.inl h
        · exact Or.inr ⟨hne, h⟩
        · exact absurd h (by simp)
    · rename_i hm
      split at h
      · rename_i hp
        split at h
        · rename_i hmq
          simp only [Prod.mk.injEq] at h
          obtain ⟨rfl, rfl⟩ := h
          refine ⟨w, ?_, rfl, fun _ => ⟨hmq, hp, hcf⟩, by simp⟩
          intro j
          constructor
          · intro hj
            by_cases e : j = me
            · exact Or.inr ⟨rfl, e⟩
            · exact Or.inl ⟨hj, e⟩
          · rintro (⟨h, _⟩ | ⟨_, rfl⟩)
            · exact h
            · simp [waiting, hmq]
        · rename_i hmq
          simp only [Prod.mk.injEq] at h
          obtain ⟨rfl, rfl⟩ := h
          refine ⟨⟨?_, ?_, ?_⟩, ?_, rfl, fun _ => ⟨by simp, hp, hcf⟩, by simp⟩
          · simp only [waiting, List.append_assoc]
            have : (s.queue ++ ([me] ++ s.assigned)).Perm ([me] ++ (s.queue ++ s.assigned)) := by
              rw [← List.append_assoc, ← List.append_assoc]
              exact List.Perm.append_right _ List.perm_append_comm
            refine this.nodup_iff.mpr ?_
            simp only [List.singleton_append, List.nodup_cons]
            refine ⟨?_, w.nodup⟩
            simp only [List.mem_append, not_or]
            exact ⟨hmq, hm⟩
          · intro hp'; simp only at hp'; omega
          · intro hc'; simp only at hc'; rw [hcf] at hc'; exact absurd hc' (by simp)
          · intro j
            simp only [waiting, List.mem_append, List.mem_singleton]
            constructor
            · rintro ((h | h) | h)
              · exact Or.inl ⟨Or.inl h, fun e => hmq (e ▸ h)⟩
              · exact Or.inr ⟨trivial, h⟩
              · exact Or.inl ⟨Or.inr h, fun e => hm (e ▸ h)⟩
            · rintro (⟨h | h, _⟩ | ⟨_, h⟩)
              · exact Or.inl (Or.inl h)
              · exact Or.inr h
              · exact Or.inl (Or.inr h)
      · rename_i hp
        simp only [Prod.mk.injEq] at h
        obtain ⟨rfl, rfl⟩ := h
        have hq0 : s.queue = [] := w.free (by omega)
        refine ⟨⟨?_, ?_, ?_⟩, ?_, rfl, by simp, by simp⟩
        · simpa [waiting, hq0] using ha
        · intro _; simp [hq0]
        · intro _; simp [hq0]
        · intro j
          simp only [waiting, hq0, List.erase_nil, List.nil_append]
          constructor
          · intro h; exact Or.inl ⟨h, fun e => hm (e ▸ h)⟩
          · rintro (⟨h, _⟩ | ⟨h, _⟩)
            · exact h
            · exact absurd h (by simp)

end Sem
end DeadpoolVerif
