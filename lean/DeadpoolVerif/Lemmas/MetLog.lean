/-
Metrics against the event log (C13 at trace level): for every object id, the hand-out events
of that id in the log, in order, carry `recycle_count` 0, 1, 2, ... (the ghost `handouts`
counter is the real number of hand-out events), one creation instant, and last-recycled
instants that never move backwards; and every live object agrees with the log.
-/
import DeadpoolVerif.Lemmas.ConserveStep
import DeadpoolVerif.Lemmas.ObjInvStep
import DeadpoolVerif.Lemmas.LogMono

namespace DeadpoolVerif

set_option linter.unusedVariables false

/-- `a ≤ b` on optional instants, `none` (never recycled) lowest -/
def optLE : Option Nat → Option Nat → Prop
  | none, _ => True
  | some _, none => False
  | some a, some b => a ≤ b

theorem optLE_refl (a : Option Nat) : optLE a a := by
  cases a <;> simp [optLE]

/-- the object carried by a hand-out event of object id `x` -/
def Ev.hoObj (x : Nat) : Ev → Option Obj
  | .handout _ o => if o.id = x then some o else none
  | _ => none

/-- the objects (with metrics) of the hand-out events of id `x`, oldest first -/
def hoOf (x : Nat) (log : List Ev) : List Obj := log.filterMap (Ev.hoObj x)

theorem hoOf_append (x : Nat) (a b : List Ev) : hoOf x (a ++ b) = hoOf x a ++ hoOf x b := by
  simp [hoOf, List.filterMap_append]

/-- a list of events without hand-outs -/
def noHo (es : List Ev) : Prop := ∀ e ∈ es, ∀ x, e.hoObj x = none

theorem hoOf_noHo {es : List Ev} (h : noHo es) (x : Nat) : hoOf x es = [] := by
  simp only [hoOf, List.filterMap_eq_nil_iff]
  intro e he
  exact h e he x

theorem noHo_drain (j : Nat) (l : List Obj) : noHo (drainEvs j l) := by
  induction l with
  | nil => intro e he; cases he
  | cons o rest ih =>
    intro e he x
    simp only [drainEvs, List.mem_cons] at he
    rcases he with rfl | rfl | he
    · rfl
    · rfl
    · exact ih e he x

theorem noHo_retain (j : Nat) (keep : List Bool) (k : Nat) (l : List Obj) :
    noHo (retainEvs j keep k l) := by
  induction l generalizing k with
  | nil => intro e he; cases he
  | cons o rest ih =>
    intro e he x
    simp only [retainEvs] at he
    split at he
    · simp only [List.mem_cons] at he
      rcases he with rfl | he
      · rfl
      · exact ih (k + 1) e he x
    · simp only [List.mem_cons] at he
      rcases he with rfl | rfl | he
      · rfl
      · rfl
      · exact ih (k + 1) e he x

theorem noHo_append {a b : List Ev} (ha : noHo a) (hb : noHo b) : noHo (a ++ b) := by
  intro e he
  rcases List.mem_append.mp he with h | h
  · exact ha e h
  · exact hb e h

/-- same identity and metrics (the ghost `idleSince` may differ) -/
def metEq (o o' : Obj) : Prop :=
  o'.id = o.id ∧ o'.created = o.created ∧ o'.recycled = o.recycled ∧ o'.rc = o.rc ∧
    o'.handouts = o.handouts

theorem metEq_refl (o : Obj) : metEq o o := ⟨rfl, rfl, rfl, rfl, rfl⟩

/-- a live object agrees with the hand-out events of its id -/
def Obj.agrees (log : List Ev) (o : Obj) : Prop :=
  o.handouts = (hoOf o.id log).length ∧
    ∀ p ∈ hoOf o.id log, p.created = o.created ∧ optLE p.recycled o.recycled

theorem Obj.agrees_metEq {log : List Ev} {o o' : Obj} (h : o.agrees log) (e : metEq o o') :
    o'.agrees log := by
  obtain ⟨e1, e2, e3, _, e5⟩ := e
  unfold Obj.agrees at *
  rw [e1, e2, e3, e5]
  exact h

theorem mem_live_iff {s : State} {o : Obj} :
    o ∈ s.live ↔ o ∈ s.idle ∨ o ∈ s.out ∨ ∃ op ∈ s.ops, op.held = some o := by
  simp only [State.live, List.mem_append, List.mem_filterMap, or_assoc]

structure MetLog (s : State) : Prop where
  live : ∀ o ∈ s.live, o.agrees s.log
  idx : ∀ x k p, (hoOf x s.log)[k]? = some p → p.handouts = k + 1
  created : ∀ x, ∀ p ∈ hoOf x s.log, ∀ q ∈ hoOf x s.log, p.created = q.created
  mono : ∀ x, (hoOf x s.log).Pairwise (fun p q => optLE p.recycled q.recycled)
  ids : ∀ x, s.nextId ≤ x → hoOf x s.log = []

theorem MetLog.init (cfg : Cfg) : MetLog (init cfg) := by
  refine ⟨?_, ?_, ?_, ?_, ?_⟩ <;> simp [DeadpoolVerif.init, State.live, hoOf]

/-- transitions that log no hand-out: every live object of the new state is a live object of
the old one (same metrics) or a new object with a fresh id -/
theorem MetLog.of_noHo {s s' : State} (m : MetLog s) (es : List Ev) (hlog : s'.log = s.log ++ es)
    (hes : noHo es) (hn : s.nextId ≤ s'.nextId)
    (hlive : ∀ o' ∈ s'.live, (∃ o ∈ s.live, metEq o o') ∨ (s.nextId ≤ o'.id ∧ o'.handouts = 0)) :
    MetLog s' := by
  have hh : ∀ x, hoOf x s'.log = hoOf x s.log := by
    intro x; rw [hlog, hoOf_append, hoOf_noHo hes, List.append_nil]
  refine ⟨?_, ?_, ?_, ?_, ?_⟩
  · intro o' ho'
    rcases hlive o' ho' with ⟨o, ho, e⟩ | ⟨h1, h2⟩
    · have := Obj.agrees_metEq (m.live o ho) e
      unfold Obj.agrees at *
      rw [hh]; exact this
    · unfold Obj.agrees
      rw [hh, m.ids _ h1]
      exact ⟨by simpa using h2, by simp⟩
  · intro x; rw [hh]; exact m.idx x
  · intro x; rw [hh]; exact m.created x
  · intro x; rw [hh]; exact m.mono x
  · intro x hx; rw [hh]; exact m.ids x (by omega)

theorem sumW_mem_le' {α : Type} (f : α → Nat) {l : List α} {y : α} (h : y ∈ l) :
    f y ≤ sumW f l := by
  obtain ⟨i, hi⟩ := List.getElem?_of_mem h
  exact sumW_mem_le f l i y hi

theorem idCnt_pos_of_mem {l : List Obj} {o : Obj} (h : o ∈ l) : 1 ≤ idCnt o.id l := by
  have := sumW_mem_le' (fun o' : Obj => eqInd o'.id o.id) h
  simp only [eqInd, if_true] at this
  exact this

theorem hoOf_single_handout (x i : Nat) (o : Obj) (r : Res) :
    hoOf x [Ev.handout i o, Ev.result i r] = if o.id = x then [o] else [] := by
  by_cases h : o.id = x <;> simp [hoOf, Ev.hoObj, h]

/-- the hand-out step: the object in the hands of operation `i` is given to the caller -/
theorem handOut_metlog {s : State} {i : Nat} {y : Op} {o ob : Obj} (m : MetLog s) (v : ObjInv s)
    (h : s.ops[i]? = some y) (hy : y.held = some o)
    (hb : ob.id = o.id ∧ ob.created = o.created ∧ ob.handouts = o.handouts ∧
      (ob.recycled = o.recycled ∨ ob.recycled = some s.now))
    (c' : Conserve (handOut s i ob)) : MetLog (handOut s i ob) := by
  obtain ⟨hb1, hb2, hb3, hb4⟩ := hb
  have holive : o ∈ s.live := mem_live_iff.mpr (Or.inr (Or.inr ⟨y, List.mem_of_getElem? h, hy⟩))
  have hoa := m.live o holive
  have hot : o.timeOK s.now := by
    have := v.ops y (List.mem_of_getElem? h)
    cases y with
    | get t pc =>
      cases pc <;> simp only [Op.held, reduceCtorEq, Option.some.injEq] at hy <;> subst hy <;>
        exact this.2
    | ret pc o2 =>
      cases pc <;> simp only [Op.held, reduceCtorEq, Option.some.injEq] at hy <;> subst hy <;>
        exact this.2
    | take pc o2 a => simp only [Op.held, Option.some.injEq] at hy; subst hy; exact this.2
    | _ => simp [Op.held] at hy
  -- the new object and what the step appends
  let op : Obj := { ob with handouts := ob.handouts + 1 }
  have hopid : op.id = o.id := hb1
  have hlog : (handOut s i ob).log = s.log ++ [Ev.handout i op, Ev.result i (.ok op.id)] := rfl
  have hh : ∀ x, hoOf x (handOut s i ob).log =
      hoOf x s.log ++ (if op.id = x then [op] else []) := by
    intro x; rw [hlog, hoOf_append, hoOf_single_handout]
  -- every earlier hand-out of this id is below the new one
  have hle : ∀ p ∈ hoOf o.id s.log, p.created = op.created ∧ optLE p.recycled op.recycled := by
    intro p hp
    obtain ⟨q1, q2⟩ := hoa.2 p hp
    refine ⟨q1.trans hb2.symm, ?_⟩
    show optLE p.recycled ob.recycled
    rcases hb4 with e | e
    · rw [e]; exact q2
    · rw [e]
      cases hpr : p.recycled with
      | none => trivial
      | some r =>
        rw [hpr] at q2
        cases hor : o.recycled with
        | none => rw [hor] at q2; exact absurd q2 (by simp [optLE])
        | some r' =>
          rw [hor] at q2
          have := (hot.2.2 r' hor).2
          simp only [optLE] at q2 ⊢
          omega
  -- uniqueness of the id among the live objects of the new state
  have hpl := c'.place o.id
  have hout : (handOut s i ob).out = s.out ++ [op] := rfl
  have hidle : (handOut s i ob).idle = s.idle := rfl
  have hops : (handOut s i ob).ops = s.ops.set i .done := rfl
  have hnid : (handOut s i ob).nextId = s.nextId := rfl
  rw [hout, hidle, hops, hnid, idCnt_append, idCnt_cons, idCnt_nil, hopid] at hpl
  have hone : eqInd o.id o.id = 1 := by simp [eqInd]
  have hlt := ltInd_le_one o.id s.nextId
  have z1 : idCnt o.id s.idle = 0 := by omega
  have z2 : idCnt o.id s.out = 0 := by omega
  have z3 : sumW (Op.heldCnt o.id) (s.ops.set i .done) = 0 := by omega
  have z4 : ltInd o.id s.nextId = 1 := by omega
  have hidlt : o.id < s.nextId := by
    unfold ltInd at z4
    split at z4
    · assumption
    · omega
  have others : ∀ o' ∈ (handOut s i ob).live, o' = op ∨ (o'.id ≠ o.id ∧ o' ∈ s.live) := by
    intro o' ho'
    rw [mem_live_iff, hout, hidle, hops] at ho'
    rcases ho' with h1 | h1 | ⟨op2, hop2, hh2⟩
    · right
      refine ⟨?_, mem_live_iff.mpr (Or.inl h1)⟩
      intro e
      have := idCnt_pos_of_mem h1
      rw [e] at this; omega
    · rcases List.mem_append.mp h1 with h2 | h2
      · right
        refine ⟨?_, mem_live_iff.mpr (Or.inr (Or.inl h2))⟩
        intro e
        have := idCnt_pos_of_mem h2
        rw [e] at this; omega
      · left; simpa using h2
    · right
      have hle2 := sumW_mem_le' (Op.heldCnt o.id) hop2
      rw [z3] at hle2
      refine ⟨?_, ?_⟩
      · intro e
        simp only [Op.heldCnt, hh2, eqInd, e, if_true] at hle2
        omega
      · rcases List.mem_or_eq_of_mem_set hop2 with h3 | h3
        · exact mem_live_iff.mpr (Or.inr (Or.inr ⟨op2, h3, hh2⟩))
        · subst h3; simp [Op.held] at hh2
  refine ⟨?_, ?_, ?_, ?_, ?_⟩
  · intro o' ho'
    rcases others o' ho' with rfl | ⟨hne, hl⟩
    · unfold Obj.agrees
      rw [hh, hopid, if_pos rfl]
      refine ⟨?_, ?_⟩
      · simp only [List.length_append, List.length_singleton]
        show ob.handouts + 1 = _
        rw [hb3, hoa.1]
      · intro p hp
        rcases List.mem_append.mp hp with h1 | h1
        · exact hle p h1
        · simp only [List.mem_singleton] at h1
          subst h1
          exact ⟨rfl, optLE_refl _⟩
    · have := m.live o' hl
      unfold Obj.agrees at *
      rw [hh, hopid, if_neg (fun e => hne e.symm), List.append_nil]
      exact this
  · intro x k p hk
    rw [hh] at hk
    by_cases hx : op.id = x
    · rw [if_pos hx] at hk
      rw [hopid] at hx
      subst hx
      by_cases hlen : k < (hoOf o.id s.log).length
      · rw [List.getElem?_append_left hlen] at hk
        exact m.idx _ k p hk
      · rw [List.getElem?_append_right (by omega)] at hk
        cases hd : k - (hoOf o.id s.log).length with
        | zero =>
          rw [hd] at hk
          simp only [List.getElem?_cons_zero, Option.some.injEq] at hk
          subst hk
          show ob.handouts + 1 = k + 1
          rw [hb3, hoa.1]; omega
        | succ n => rw [hd] at hk; simp at hk
    · rw [if_neg hx, List.append_nil] at hk
      exact m.idx x k p hk
  · intro x p hp q hq
    rw [hh] at hp hq
    by_cases hx : op.id = x
    · rw [if_pos hx] at hp hq
      rw [hopid] at hx
      subst hx
      have key : ∀ r ∈ hoOf o.id s.log ++ [op], r.created = op.created := by
        intro r hr
        rcases List.mem_append.mp hr with h1 | h1
        · exact (hle r h1).1
        · simp only [List.mem_singleton] at h1; rw [h1]
      rw [key p hp, key q hq]
    · rw [if_neg hx, List.append_nil] at hp hq
      exact m.created x p hp q hq
  · intro x
    rw [hh]
    by_cases hx : op.id = x
    · rw [if_pos hx]
      rw [hopid] at hx
      subst hx
      rw [List.pairwise_append]
      refine ⟨m.mono _, List.pairwise_singleton _ _, ?_⟩
      intro a ha b hb
      simp only [List.mem_singleton] at hb
      subst hb
      exact (hle a ha).2
    · rw [if_neg hx, List.append_nil]
      exact m.mono x
  · intro x hx
    rw [hh]
    have hx' : s.nextId ≤ x := hx
    rw [m.ids x hx', if_neg]
    · rfl
    · rw [hopid]; omega

theorem live_of_idle {s : State} {o : Obj} (h : o ∈ s.idle) : o ∈ s.live :=
  mem_live_iff.mpr (Or.inl h)

theorem live_of_out {s : State} {o : Obj} (h : o ∈ s.out) : o ∈ s.live :=
  mem_live_iff.mpr (Or.inr (Or.inl h))

theorem live_of_op {s : State} {i : Nat} {y : Op} {o : Obj} (h : s.ops[i]? = some y)
    (hy : y.held = some o) : o ∈ s.live :=
  mem_live_iff.mpr (Or.inr (Or.inr ⟨y, List.mem_of_getElem? h, hy⟩))

theorem live_of_op' {s : State} {y : Op} {o : Obj} (h : y ∈ s.ops)
    (hy : y.held = some o) : o ∈ s.live :=
  mem_live_iff.mpr (Or.inr (Or.inr ⟨y, h, hy⟩))

theorem stepGet_metlog {s s' : State} {i : Nat} {t : Timeouts} {pc : GPc} {oc : Outcome}
    (h : s.ops[i]? = some (.get t pc)) (m : MetLog s) (v : ObjInv s) (c' : Conserve s')
    (hs : stepGet s i t pc oc = some s') : MetLog s' := by
  unfold stepGet at hs
  simp only [arriveRecycle, arrivePostCreate, failPermit] at hs
  repeat' split at hs
  all_goals first | (simp at hs; done) | skip
  all_goals (simp only [Option.some.injEq] at hs; subst hs)
  all_goals try (have t5 := popIdle_mem ‹popIdle _ _ = some _›)
  all_goals first
    | (-- hand-out
       first
         | refine handOut_metlog m v h rfl ?_ c'
         | refine handOut_metlog (s := { s with size := s.size + 1 })
             ⟨m.live, m.idx, m.created, m.mono, m.ids⟩ ⟨v.idle, v.out, v.ops, v.sorted, v.log⟩
             h rfl ?_ c'
       first
         | exact ⟨rfl, rfl, rfl, Or.inl rfl⟩
         | exact ⟨rfl, rfl, rfl, Or.inr rfl⟩)
    | (-- no hand-out logged
       first
         | refine MetLog.of_noHo m [] (List.append_nil _).symm ?_ ?_ ?_
         | refine MetLog.of_noHo m _ rfl ?_ ?_ ?_
       · simp [noHo, Ev.hoObj]
       · first | exact Nat.le_refl _ | exact Nat.le_succ _
       · intro o' ho'
         rw [mem_live_iff] at ho'
         try simp only [State.setOp, State.emit] at ho'
         rcases ho' with h1 | h1 | ⟨op2, hop2, hh2⟩
         · first
             | exact Or.inl ⟨o', live_of_idle h1, metEq_refl _⟩
             | exact Or.inl ⟨o', live_of_idle (t5.2.subset h1), metEq_refl _⟩
         · exact Or.inl ⟨o', live_of_out h1, metEq_refl _⟩
         · rcases List.mem_or_eq_of_mem_set hop2 with h3 | h3
           · exact Or.inl ⟨o', live_of_op' h3 hh2, metEq_refl _⟩
           · subst h3
             simp only [Op.held, reduceCtorEq, Option.some.injEq] at hh2 <;> first
               | (subst hh2; exact Or.inl ⟨_, live_of_op h rfl, metEq_refl _⟩)
               | (subst hh2; exact Or.inl ⟨_, live_of_idle t5.1, metEq_refl _⟩)
               | (subst hh2; exact Or.inr ⟨Nat.le_refl _, rfl⟩))

/-- the bookkeeping common to all transitions that log no hand-out: where every live object
of the new state comes from (`h` = the operation's slot before the step) -/
macro "live_track" h:ident : tactic => `(tactic| (
  intro o' ho'
  rw [mem_live_iff] at ho'
  try simp only [State.setOp, State.emit, finishResize] at ho'
  rcases ho' with h1 | h1 | ⟨op2, hop2, hh2⟩
  · first
      | exact Or.inl ⟨o', live_of_idle h1, metEq_refl _⟩
      | exact Or.inl ⟨o', live_of_idle ((retainKept_sublist _ _ _).subset h1), metEq_refl _⟩
      | exact Or.inl ⟨o', live_of_idle
          (by rw [‹State.idle _ = _ :: _›]; exact List.mem_cons_of_mem _ h1), metEq_refl _⟩
      | (rcases List.mem_append.mp h1 with h2 | h2
         · exact Or.inl ⟨o', live_of_idle h2, metEq_refl _⟩
         · simp only [List.mem_singleton] at h2
           subst h2
           exact Or.inl ⟨_, live_of_op $h rfl, ⟨rfl, rfl, rfl, rfl, rfl⟩⟩)
      | (simp at h1; done)
  · exact Or.inl ⟨o', live_of_out h1, metEq_refl _⟩
  · first
      | (rcases List.mem_or_eq_of_mem_set hop2 with h3 | h3
         · exact Or.inl ⟨o', live_of_op' h3 hh2, metEq_refl _⟩
         · subst h3
           simp only [Op.held, reduceCtorEq, Option.some.injEq] at hh2 <;>
             (subst hh2; exact Or.inl ⟨_, live_of_op $h rfl, metEq_refl _⟩))
      | exact Or.inl ⟨o', live_of_op' hop2 hh2, metEq_refl _⟩))

theorem stepRet_metlog {s s' : State} {i : Nat} {pc : RPc} {o : Obj}
    (h : s.ops[i]? = some (.ret pc o)) (m : MetLog s)
    (hs : stepRet s i pc o = some s') : MetLog s' := by
  cases pc
  all_goals simp only [stepRet] at hs
  all_goals repeat' split at hs
  all_goals first | (simp at hs; done) | skip
  all_goals (simp only [Option.some.injEq] at hs; subst hs)
  all_goals first
    | refine MetLog.of_noHo m [] (List.append_nil _).symm ?_ ?_ ?_
    | refine MetLog.of_noHo m _ rfl ?_ ?_ ?_
  all_goals first
    | (simp [noHo, Ev.hoObj]; done)
    | exact Nat.le_refl _
    | live_track h

theorem stepTake_metlog {s s' : State} {i : Nat} {pc : TPc} {o : Obj} {add : Bool}
    (h : s.ops[i]? = some (.take pc o add)) (m : MetLog s)
    (hs : stepTake s i pc o add = some s') : MetLog s' := by
  cases pc
  all_goals simp only [stepTake] at hs
  all_goals repeat' split at hs
  all_goals first | (simp at hs; done) | skip
  all_goals (simp only [Option.some.injEq] at hs; subst hs)
  all_goals first
    | refine MetLog.of_noHo m [] (List.append_nil _).symm ?_ ?_ ?_
    | refine MetLog.of_noHo m _ rfl ?_ ?_ ?_
  all_goals first
    | (simp [noHo, Ev.hoObj]; done)
    | exact Nat.le_refl _
    | live_track h

theorem stepTakePanic_metlog {s s' : State} {i : Nat} {o : Obj} {add : Bool}
    (h : s.ops[i]? = some (.take .detach o add)) (m : MetLog s)
    (hs : stepTakePanic s i o = some s') : MetLog s' := by
  simp only [stepTakePanic, Option.some.injEq] at hs
  subst hs
  refine MetLog.of_noHo m _ rfl ?_ ?_ ?_
  · simp [noHo, Ev.hoObj]
  · exact Nat.le_refl _
  · live_track h

theorem stepRetPanic_metlog {s s' : State} {i : Nat} {o : Obj}
    (h : s.ops[i]? = some (.ret .detach o)) (m : MetLog s)
    (hs : stepRetPanic s i o = some s') : MetLog s' := by
  simp only [stepRetPanic, Option.some.injEq] at hs
  subst hs
  refine MetLog.of_noHo m _ rfl ?_ ?_ ?_
  · simp [noHo, Ev.hoObj]
  · exact Nat.le_refl _
  · live_track h

theorem stepResize_metlog {s s' : State} {i n : Nat} {c : Bool} {pc : ZPc} {old : Nat}
    (h : s.ops[i]? = some (.resize n c pc old)) (m : MetLog s)
    (hs : stepResize s i n c pc old = some s') : MetLog s' := by
  cases pc
  all_goals simp only [stepResize] at hs
  all_goals repeat' split at hs
  all_goals first | (simp at hs; done) | skip
  all_goals (simp only [Option.some.injEq] at hs; subst hs)
  all_goals first
    | refine MetLog.of_noHo m [] (List.append_nil _).symm ?_ ?_ ?_
    | refine MetLog.of_noHo m _ rfl ?_ ?_ ?_
  all_goals first
    | (simp [noHo, Ev.hoObj]; done)
    | exact noHo_append (noHo_drain _ _) (by simp [noHo, Ev.hoObj])
    | exact Nat.le_refl _
    | live_track h

theorem stepRetain_metlog {s s' : State} {i : Nat} {keep : List Bool}
    (h : s.ops[i]? = some (.retain keep)) (m : MetLog s)
    (hs : stepRetain s i keep = some s') : MetLog s' := by
  unfold stepRetain at hs
  split at hs
  · simp at hs
  · simp only [Option.some.injEq] at hs; subst hs
    refine MetLog.of_noHo m _ rfl ?_ ?_ ?_
    · exact noHo_append (noHo_retain _ _ _ _) (by simp [noHo, Ev.hoObj])
    · exact Nat.le_refl _
    · live_track h

theorem stepStatus_metlog {s s' : State} {i : Nat}
    (h : s.ops[i]? = some .status) (m : MetLog s)
    (hs : stepStatus s i = some s') : MetLog s' := by
  unfold stepStatus at hs
  split at hs
  · simp at hs
  · simp only [Option.some.injEq] at hs; subst hs
    refine MetLog.of_noHo m _ rfl ?_ ?_ ?_
    · simp [noHo, Ev.hoObj]
    · exact Nat.le_refl _
    · live_track h

theorem startOp_metlog {s s' : State} {sp : Spec} (m : MetLog s)
    (hs : startOp s sp = some s') : MetLog s' := by
  cases sp
  all_goals simp only [startOp] at hs
  all_goals repeat' split at hs
  all_goals first | (simp at hs; done) | skip
  all_goals (simp only [Option.some.injEq] at hs; subst hs)
  all_goals try (have hm := findOut_mem ‹findOut _ _ = some _›)
  all_goals refine MetLog.of_noHo m [] (List.append_nil _).symm (by simp [noHo]) (Nat.le_refl _) ?_
  all_goals (
    intro o' ho'
    rw [mem_live_iff] at ho'
    rcases ho' with h1 | h1 | ⟨op2, hop2, hh2⟩
    · exact Or.inl ⟨o', live_of_idle h1, metEq_refl _⟩
    · first
        | exact Or.inl ⟨o', live_of_out h1, metEq_refl _⟩
        | exact Or.inl ⟨o', live_of_out (List.mem_of_mem_erase h1), metEq_refl _⟩
    · rcases List.mem_append.mp hop2 with h3 | h3
      · exact Or.inl ⟨o', live_of_op' h3 hh2, metEq_refl _⟩
      · simp only [List.mem_singleton] at h3
        subst h3
        simp only [Op.held, reduceCtorEq, Option.some.injEq] at hh2 <;>
          (subst hh2; exact Or.inl ⟨_, live_of_out hm, metEq_refl _⟩))

theorem stepOp_metlog {s s' : State} {i : Nat} {oc : Outcome} (m : MetLog s) (v : ObjInv s)
    (c' : Conserve s') (hs : stepOp s i oc = some s') : MetLog s' := by
  unfold stepOp at hs
  split at hs
  · simp at hs
  · rename_i op h
    cases op with
    | get t pc => exact stepGet_metlog h m v c' hs
    | ret pc o =>
      simp only at hs
      split at hs
      · exact stepRet_metlog h m hs
      · split at hs
        · have := retPanic_pc ‹_›; subst this
          exact stepRetPanic_metlog h m hs
        · simp at hs
    | take pc o add =>
      simp only at hs
      split at hs
      · exact stepTake_metlog h m hs
      · split at hs
        · have := takePanic_pc ‹_›; subst this
          exact stepTakePanic_metlog h m hs
        · simp at hs
    | resize n cl pc old =>
      simp only at hs
      split at hs
      · exact stepResize_metlog h m hs
      · simp at hs
    | retain keep =>
      simp only at hs
      split at hs
      · exact stepRetain_metlog h m hs
      · simp at hs
    | status =>
      simp only at hs
      split at hs
      · exact stepStatus_metlog h m hs
      · simp at hs
    | done => simp at hs

theorem MetLog.tick {s : State} (m : MetLog s) : MetLog { s with now := s.now + 1 } :=
  ⟨m.live, m.idx, m.created, m.mono, m.ids⟩

theorem step_metlog {s s' : State} {act : Action} (m : MetLog s) (v : ObjInv s) (c : Conserve s)
    (hs : step s act = some s') : MetLog s' := by
  have c' := step_conserve c hs
  unfold step at hs
  cases act with
  | start sp =>
    simp only [Option.map_eq_some_iff] at hs
    obtain ⟨s1, h1, rfl⟩ := hs
    exact (startOp_metlog m h1).tick
  | step i oc =>
    simp only [Option.map_eq_some_iff] at hs
    obtain ⟨s1, h1, rfl⟩ := hs
    exact (stepOp_metlog m v (stepOp_conserve c h1) h1).tick

/-- `MetLog` holds after any list of actions from the initial state. -/
theorem run_metlog (cfg : Cfg) (acts : List Action) : MetLog (run (init cfg) acts) := by
  suffices h : ∀ s, MetLog s → ObjInv s → Conserve s → MetLog (run s acts) from
    h _ (MetLog.init cfg) (ObjInv.init cfg) (Conserve.init cfg)
  induction acts with
  | nil => intro s a _ _; exact a
  | cons act acts ih =>
    intro s a v c
    rw [run_cons]
    cases hst : step s act with
    | none => exact ih s a v c
    | some s1 => exact ih s1 (step_metlog a v c hst) (step_objinv v hst) (step_conserve c hst)

end DeadpoolVerif
