/-
`Link`: the semaphore's waiter lists and the slots-mutex owner agree with the program
counters of the operations.  Preserved by every transition.
-/
import DeadpoolVerif.Lemmas.SemWF
import DeadpoolVerif.Lemmas.Acct

namespace DeadpoolVerif

/-- the op is suspended in `Semaphore::acquire` -/
def Op.isQ : Op → Bool
  | .get _ .queued => true
  | _ => false

/-- the op is inside the slots-mutex region of `resize` -/
def Op.holdsLock : Op → Bool
  | .resize _ _ .shrink _ | .resize _ _ .grow _ => true
  | _ => false

structure Link (s : State) : Prop where
  wf : s.sem.WF
  /-- every registered waiter is an operation suspended in `acquire` -/
  waiters : ∀ j ∈ s.sem.waiting, ∃ op, s.ops[j]? = some op ∧ op.isQ = true
  /-- every operation suspended in `acquire` is registered, unless the pool was closed
  (then it has been woken and will fail with `Closed` at its next poll) -/
  queued : ∀ j op, s.ops[j]? = some op → op.isQ = true → j ∈ s.sem.waiting ∨ s.sem.closed = true
  /-- the mutex owner recorded in `lock` is exactly the resize inside its critical region -/
  lockOwner : ∀ j, s.lock = some j ↔ ∃ op, s.ops[j]? = some op ∧ op.holdsLock = true

theorem Link.init (cfg : Cfg) : Link (init cfg) := by
  refine ⟨Sem.WF.new _, ?_, ?_, ?_⟩ <;> simp [DeadpoolVerif.init, Sem.new, Sem.waiting]

theorem getElem?_set_ne' {l : List Op} {i j : Nat} {x : Op} (h : j ≠ i) :
    (l.set i x)[j]? = l[j]? := by
  rw [List.getElem?_set]
  simp [Ne.symm h]

theorem getElem?_set_self' {l : List Op} {i : Nat} {x y : Op} (h : l[i]? = some y) :
    (l.set i x)[i]? = some x := by
  have : i < l.length := by
    rcases Nat.lt_or_ge i l.length with h' | h'
    · exact h'
    · rw [List.getElem?_eq_none h'] at h; simp at h
  rw [List.getElem?_set]
  simp [this]

/-- the general transition lemma: operation `i` is replaced by `x` -/
theorem Link.update {s s' : State} {i : Nat} {x y : Op} (l : Link s) (h : s.ops[i]? = some y)
    (hops : s'.ops = s.ops.set i x) (hwf : s'.sem.WF)
    (hsub : ∀ j, j ≠ i → j ∈ s'.sem.waiting → j ∈ s.sem.waiting)
    (hsup : ∀ j, j ≠ i → j ∈ s.sem.waiting → j ∈ s'.sem.waiting ∨ s'.sem.closed = true)
    (hi : i ∈ s'.sem.waiting → x.isQ = true)
    (hq : x.isQ = true → i ∈ s'.sem.waiting ∨ s'.sem.closed = true)
    (hc : s.sem.closed = true → s'.sem.closed = true)
    (hlock : (s'.lock = s.lock ∧ x.holdsLock = y.holdsLock) ∨
      (y.holdsLock = false ∧ x.holdsLock = true ∧ s.lock = none ∧ s'.lock = some i) ∨
      (y.holdsLock = true ∧ x.holdsLock = false ∧ s'.lock = none)) : Link s' := by
  refine ⟨hwf, ?_, ?_, ?_⟩
  · intro j hj
    by_cases e : j = i
    · subst e
      exact ⟨x, by rw [hops]; exact getElem?_set_self' h, hi hj⟩
    · obtain ⟨op, h1, h2⟩ := l.waiters j (hsub j e hj)
      exact ⟨op, by rw [hops, getElem?_set_ne' e]; exact h1, h2⟩
  · intro j op hj hop
    by_cases e : j = i
    · subst e
      rw [hops, getElem?_set_self' h] at hj
      simp only [Option.some.injEq] at hj
      subst hj
      exact hq hop
    · rw [hops, getElem?_set_ne' e] at hj
      rcases l.queued j op hj hop with h1 | h1
      · exact hsup j e h1
      · exact Or.inr (hc h1)
  · intro j
    have hy : ∀ k, s.lock = some k ↔ ∃ op, s.ops[k]? = some op ∧ op.holdsLock = true := l.lockOwner
    by_cases e : j = i
    · subst e
      rw [hops, getElem?_set_self' h]
      simp only [Option.some.injEq, exists_eq_left']
      rcases hlock with ⟨h1, h2⟩ | ⟨h1, h2, h3, h4⟩ | ⟨h1, h2, h3⟩
      · rw [h1, h2, hy j]
        simp [h]
      · simp [h2, h4]
      · simp [h2, h3]
    · rw [hops, getElem?_set_ne' e]
      rcases hlock with ⟨h1, h2⟩ | ⟨h1, h2, h3, h4⟩ | ⟨h1, h2, h3⟩
      · rw [h1]; exact hy j
      · rw [h4]
        constructor
        · intro hji; simp only [Option.some.injEq] at hji; exact absurd hji.symm e
        · intro hex
          have := (hy j).mpr hex
          rw [h3] at this; simp at this
      · rw [h3]
        constructor
        · intro hh; simp at hh
        · intro hex
          have hj := (hy j).mpr hex
          have hi' := (hy i).mpr ⟨y, h, h1⟩
          rw [hj] at hi'
          simp only [Option.some.injEq] at hi'
          exact absurd hi' e

/-- neither the semaphore's waiter set nor the lock is touched -/
theorem Link.frame {s s' : State} {i : Nat} {x y : Op} (l : Link s) (h : s.ops[i]? = some y)
    (hops : s'.ops = s.ops.set i x) (hwf : s'.sem.WF)
    (hw : ∀ j, j ∈ s'.sem.waiting ↔ j ∈ s.sem.waiting) (hc : s'.sem.closed = s.sem.closed)
    (hy : y.isQ = false) (hx : x.isQ = false)
    (hlock : s'.lock = s.lock) (hl : x.holdsLock = y.holdsLock) : Link s' := by
  refine l.update h hops hwf (fun j _ hj => (hw j).mp hj) (fun j _ hj => Or.inl ((hw j).mpr hj))
    ?_ ?_ (fun hcl => by rw [hc]; exact hcl) (Or.inl ⟨hlock, hl⟩)
  · intro hi
    obtain ⟨op, h1, h2⟩ := l.waiters i ((hw i).mp hi)
    rw [h] at h1
    simp only [Option.some.injEq] at h1
    subst h1
    rw [hy] at h2
    exact absurd h2 (by simp)
  · intro hq; rw [hx] at hq; exact absurd hq (by simp)

/-- a new operation is appended -/
theorem Link.append {s s' : State} {x : Op} (l : Link s)
    (hops : s'.ops = s.ops ++ [x]) (hsem : s'.sem = s.sem) (hlock : s'.lock = s.lock)
    (hx : x.isQ = false) (hl : x.holdsLock = false) : Link s' := by
  have lt_of_some : ∀ {j : Nat} {op : Op}, s.ops[j]? = some op → j < s.ops.length := by
    intro j op hj
    rcases Nat.lt_or_ge j s.ops.length with h' | h'
    · exact h'
    · rw [List.getElem?_eq_none h'] at hj; simp at hj
  have get_app : ∀ {j : Nat} {op : Op}, (s.ops ++ [x])[j]? = some op → op = x ∨ s.ops[j]? = some op := by
    intro j op hj
    rcases Nat.lt_or_ge j s.ops.length with h' | h'
    · rw [List.getElem?_append_left h'] at hj; exact Or.inr hj
    · rw [List.getElem?_append_right h'] at hj
      have : ([x] : List Op)[j - s.ops.length]? = some op := hj
      cases hk : j - s.ops.length with
      | zero => rw [hk] at this; simp at this; exact Or.inl this.symm
      | succ n => rw [hk] at this; simp at this
  refine ⟨by rw [hsem]; exact l.wf, ?_, ?_, ?_⟩
  · intro j hj
    rw [hsem] at hj
    obtain ⟨op, h1, h2⟩ := l.waiters j hj
    exact ⟨op, by rw [hops, List.getElem?_append_left (lt_of_some h1)]; exact h1, h2⟩
  · intro j op hj hop
    rw [hops] at hj
    rw [hsem]
    rcases get_app hj with rfl | h1
    · rw [hx] at hop; exact absurd hop (by simp)
    · exact l.queued j op h1 hop
  · intro j
    rw [hlock, l.lockOwner j, hops]
    constructor
    · rintro ⟨op, h1, h2⟩
      exact ⟨op, by rw [List.getElem?_append_left (lt_of_some h1)]; exact h1, h2⟩
    · rintro ⟨op, h1, h2⟩
      rcases get_app h1 with rfl | h3
      · rw [hl] at h2; exact absurd h2 (by simp)
      · exact ⟨op, h3, h2⟩

end DeadpoolVerif

namespace DeadpoolVerif

/-- `Semaphore::acquire` polled by operation `i` -/
theorem Link.poll {s s' : State} {i : Nat} {x y : Op} {r : PollRes} (l : Link s)
    (h : s.ops[i]? = some y) (hops : s'.ops = s.ops.set i x)
    (hp : s.sem.pollAcquire i = (s'.sem, r)) (hx : x.isQ = (r == .pending))
    (hlock : s'.lock = s.lock) (hl : x.holdsLock = y.holdsLock) : Link s' := by
  obtain ⟨wf', mem, cl, pend, _⟩ := l.wf.pollAcquire hp
  refine l.update h hops wf' ?_ ?_ ?_ ?_ (fun hc => by rw [cl]; exact hc) (Or.inl ⟨hlock, hl⟩)
  · intro j hj hw
    rcases (mem j).mp hw with ⟨h1, _⟩ | ⟨_, h2⟩
    · exact h1
    · exact absurd h2 hj
  · intro j hj hw
    exact Or.inl ((mem j).mpr (Or.inl ⟨hw, hj⟩))
  · intro hw
    rcases (mem i).mp hw with ⟨_, h2⟩ | ⟨h1, _⟩
    · exact absurd rfl h2
    · rw [hx, h1]; rfl
  · intro hq
    rw [hx] at hq
    have : r = .pending := by cases r <;> simp_all
    exact Or.inl (by simp only [Sem.waiting, List.mem_append]; exact Or.inl (pend this).1)

/-- the `Acquire` future of operation `i` is dropped -/
theorem Link.drop {s s' : State} {i : Nat} {x y : Op} (l : Link s)
    (h : s.ops[i]? = some y) (hops : s'.ops = s.ops.set i x)
    (hs : s'.sem = s.sem.dropAcquire i) (hx : x.isQ = false)
    (hlock : s'.lock = s.lock) (hl : x.holdsLock = y.holdsLock) : Link s' := by
  obtain ⟨wf', mem, cl⟩ := l.wf.dropAcquire i
  rw [← hs] at wf' mem cl
  refine l.update h hops wf' ?_ ?_ ?_ ?_ (fun hc => by rw [cl]; exact hc) (Or.inl ⟨hlock, hl⟩)
  · intro j _ hw; exact ((mem j).mp hw).1
  · intro j hj hw; exact Or.inl ((mem j).mpr ⟨hw, hj⟩)
  · intro hw; exact absurd rfl ((mem i).mp hw).2
  · intro hq; rw [hx] at hq; exact absurd hq (by simp)

/-- a poll that stays pending followed by dropping the future (deadline) -/
theorem Link.pollDrop {s s' : State} {i : Nat} {x : Op} {t : Timeouts} {sem1 : Sem} (l : Link s)
    (h : s.ops[i]? = some (.get t .queued)) (hops : s'.ops = s.ops.set i x)
    (hp : s.sem.pollAcquire i = (sem1, .pending)) (hs : s'.sem = sem1.dropAcquire i)
    (hx : x.isQ = false) (hlock : s'.lock = s.lock) (hl : x.holdsLock = false) : Link s' := by
  let s1 : State := { s with sem := sem1, ops := s.ops.set i (.get t .queued) }
  have l1 : Link s1 := Link.poll (s' := s1) (x := .get t .queued) l h rfl hp rfl rfl rfl
  have h1 : s1.ops[i]? = some (.get t .queued) := getElem?_set_self' h
  have hops1 : s'.ops = s1.ops.set i x := by
    rw [hops]
    show s.ops.set i x = (s.ops.set i (.get t .queued)).set i x
    rw [List.set_set]
  exact Link.drop (s := s1) l1 h1 hops1 hs hx hlock hl

end DeadpoolVerif
