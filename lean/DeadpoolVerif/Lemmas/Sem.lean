/-
Token arithmetic and structural invariants of the semaphore model.
-/
import DeadpoolVerif.Model.Sem

namespace DeadpoolVerif
namespace Sem

theorem tokens_def (s : Sem) : s.tokens = s.permits + s.assigned.length := rfl

theorem tryAcquire_ok {s s' : Sem} (h : s.tryAcquire = (s', .ok)) :
    s'.tokens + 1 = s.tokens ∧ s.permits ≠ 0 ∧ s.closed = false ∧
    s' = { s with permits := s.permits - 1 } := by
  unfold tryAcquire at h
  split at h
  · simp at h
  · split at h
    · simp at h
    · rename_i hc hp
      simp only [Prod.mk.injEq, and_true] at h
      subst h
      simp only [tokens]
      exact ⟨by omega, hp, by simpa using hc⟩

theorem tryAcquire_fail {s s' : Sem} {r : TryRes} (h : s.tryAcquire = (s', r)) (hr : r ≠ .ok) :
    s' = s := by
  unfold tryAcquire at h
  split at h
  · simp only [Prod.mk.injEq] at h; exact h.1.symm
  · split at h
    · simp only [Prod.mk.injEq] at h; exact h.1.symm
    · simp only [Prod.mk.injEq] at h; exact absurd h.2.symm hr

theorem addPermits_tokens (s : Sem) (n : Nat) : (s.addPermits n).tokens = s.tokens + n := by
  simp only [addPermits, tokens, List.length_append, List.length_take]
  omega

theorem addPermits_closed (s : Sem) (n : Nat) : (s.addPermits n).closed = s.closed := rfl

theorem length_erase_mem {l : List Nat} {a : Nat} (h : a ∈ l) :
    (l.erase a).length + 1 = l.length := by
  rw [List.length_erase_of_mem h]
  have : 0 < l.length := List.length_pos_of_mem h
  omega

theorem pollAcquire_ok {s s' : Sem} {me : Nat} (h : s.pollAcquire me = (s', .ok)) :
    s'.tokens + 1 = s.tokens := by
  unfold pollAcquire at h
  split at h
  · split at h <;> simp at h
  · split at h
    · rename_i hm
      simp only [Prod.mk.injEq, and_true] at h
      subst h
      simp only [tokens]
      have := length_erase_mem hm
      omega
    · split at h
      · split at h <;> simp at h
      · rename_i hp
        simp only [Prod.mk.injEq, and_true] at h
        subst h
        simp only [tokens]
        omega

theorem pollAcquire_pending {s s' : Sem} {me : Nat} (h : s.pollAcquire me = (s', .pending)) :
    s'.tokens = s.tokens ∧ s'.permits = s.permits ∧ s'.assigned = s.assigned ∧
    s'.closed = s.closed := by
  unfold pollAcquire at h
  split at h
  · split at h <;> simp at h
  · split at h
    · simp at h
    · split at h
      · split at h
        · simp only [Prod.mk.injEq, and_true] at h; subst h; simp
        · simp only [Prod.mk.injEq, and_true] at h; subst h; simp [tokens]
      · simp at h

theorem pollAcquire_closed {s s' : Sem} {me : Nat} (h : s.pollAcquire me = (s', .closed)) :
    s'.tokens = s.tokens := by
  unfold pollAcquire at h
  split at h
  · split at h
    · rename_i hm
      simp only [Prod.mk.injEq, and_true] at h
      subst h
      rw [addPermits_tokens]
      simp only [tokens]
      have := length_erase_mem hm
      omega
    · simp only [Prod.mk.injEq, and_true] at h
      subst h
      simp [tokens]
  · split at h
    · simp at h
    · split at h
      · split at h <;> simp at h
      · simp at h

theorem dropAcquire_tokens (s : Sem) (me : Nat) : (s.dropAcquire me).tokens = s.tokens := by
  unfold dropAcquire
  split
  · rename_i hm
    rw [addPermits_tokens]
    simp only [tokens]
    have := length_erase_mem hm
    omega
  · simp [tokens]

theorem close_tokens (s : Sem) : s.close.tokens = s.tokens := rfl

end Sem
end DeadpoolVerif
