/-
`ObjInv` is preserved by every transition.
-/
import DeadpoolVerif.Lemmas.ObjInv

namespace DeadpoolVerif

/-- closes goals about the metrics / time stamps of one object -/
macro "obj_close" : tactic => `(tactic| (
  simp only [Obj.used, Obj.fresh, Obj.timeOK, Op.objOK, Ev.metricsOK, Option.some.injEq,
    reduceCtorEq, false_iff, iff_false, Nat.add_eq_zero_iff, Nat.succ_ne_zero, and_false, not_false_eq_true,
    forall_eq', true_and, and_true] at *
  first
    | omega
    | (refine ⟨?_, ?_⟩ <;> first | omega | assumption | (intro r hr; subst hr; omega) | (intro r hr; omega))
    | simp_all
    | (constructor <;> simp_all <;> omega)))

theorem stepGet_objinv {s s' : State} {i : Nat} {t : Timeouts} {pc : GPc} {oc : Outcome}
    (h : s.ops[i]? = some (.get t pc)) (v : ObjInv s)
    (hs : stepGet s i t pc oc = some s') : ObjInv s' := by
  have hop := v.ops _ (List.mem_of_getElem? h)
  unfold stepGet at hs
  simp only [arriveRecycle, arrivePostCreate, handOut, failPermit] at hs
  repeat' split at hs
  all_goals first | (simp at hs; done) | skip
  all_goals (simp only [Option.some.injEq] at hs; subst hs)
  all_goals try (have t5 := popIdle_mem ‹popIdle _ _ = some _›)
  all_goals try (have hio := v.idle _ t5.1)
  all_goals refine ⟨?_, ?_, ?_, ?_, ?_⟩
  all_goals first
    | exact v.idle
    | exact v.out
    | exact v.sorted
    | exact v.log
    | exact v.sorted.sublist t5.2
    | (intro o ho; exact v.idle o (t5.2.subset ho))
    | (refine forall_mem_set (P := Op.objOK s.now) (i := i) v.ops ?_
       first
         | (simp only [Op.objOK] at *; done)
         | (simp only [Op.objOK] at *; first | trivial | assumption | obj_close))
    | (refine forall_mem_append_single (P := fun (o : Obj) => o.used ∧ o.timeOK s.now) v.out ?_
       first | exact used_bump_recycled _ _ hop | exact used_bump_fresh _ _ hop | obj_close)
    | (intro e he
       simp only [State.setOp, State.emit, List.mem_append, List.mem_cons, List.not_mem_nil, or_false] at he
       rcases he with he | he
       · exact v.log e he
       · rcases he with rfl | rfl <;>
           first
             | trivial
             | (apply metricsOK_call_recycle; simp only [Op.objOK] at *; first | exact hop.1 | exact hio.1)
             | exact (used_bump_recycled _ _ hop).1
             | exact (used_bump_fresh _ _ hop).1
             | obj_close)
    | skip

theorem pairwise_append_single {l : List Obj} {x : Obj}
    (h : l.Pairwise (fun a b => a.idleSince ≤ b.idleSince)) (hx : ∀ a ∈ l, a.idleSince ≤ x.idleSince) :
    (l ++ [x]).Pairwise (fun a b => a.idleSince ≤ b.idleSince) := by
  rw [List.pairwise_append]
  refine ⟨h, by simp, ?_⟩
  intro a ha b hb
  simp only [List.mem_singleton] at hb
  subst hb
  exact hx a ha

theorem used_set_idleSince (o : Obj) (now : Nat) (h : o.used ∧ Obj.timeOK now o) :
    ({ o with idleSince := now } : Obj).used ∧ Obj.timeOK now { o with idleSince := now } := by
  obtain ⟨⟨h1, h2⟩, h3, h4, h5⟩ := h
  exact ⟨⟨h1, h2⟩, h3, Nat.le_refl _, h5⟩

theorem stepRet_objinv {s s' : State} {i : Nat} {pc : RPc} {o : Obj}
    (h : s.ops[i]? = some (.ret pc o)) (v : ObjInv s)
    (hs : stepRet s i pc o = some s') : ObjInv s' := by
  have hop : o.used ∧ o.timeOK s.now := v.ops _ (List.mem_of_getElem? h)
  cases pc
  all_goals simp only [stepRet] at hs
  all_goals repeat' split at hs
  all_goals first | (simp at hs; done) | skip
  all_goals (simp only [Option.some.injEq] at hs; subst hs)
  all_goals refine ⟨?_, ?_, ?_, ?_, ?_⟩
  all_goals first
    | exact v.idle
    | exact v.out
    | exact v.sorted
    | exact v.log
    | (refine forall_mem_set (P := Op.objOK s.now) (i := i) v.ops ?_
       first
         | exact hop
         | exact used_set_idleSince _ _ hop
         | trivial)
    | (refine forall_mem_append_single (P := fun (o : Obj) => o.used ∧ o.timeOK s.now) v.idle ?_
       exact used_set_idleSince _ _ hop)
    | (refine pairwise_append_single v.sorted ?_
       intro a ha
       exact (v.idle a ha).2.2.1)
    | (intro e he
       simp only [State.setOp, State.emit, List.mem_append, List.mem_cons, List.not_mem_nil, or_false] at he
       rcases he with he | he
       · exact v.log e he
       · rcases he with rfl | rfl <;> trivial)

theorem stepTake_objinv {s s' : State} {i : Nat} {pc : TPc} {o : Obj} {add : Bool}
    (h : s.ops[i]? = some (.take pc o add)) (v : ObjInv s)
    (hs : stepTake s i pc o add = some s') : ObjInv s' := by
  have hop : o.used ∧ o.timeOK s.now := v.ops _ (List.mem_of_getElem? h)
  cases pc
  all_goals simp only [stepTake] at hs
  all_goals repeat' split at hs
  all_goals first | (simp at hs; done) | skip
  all_goals (simp only [Option.some.injEq] at hs; subst hs)
  all_goals refine ⟨?_, ?_, ?_, ?_, ?_⟩
  all_goals first
    | exact v.idle
    | exact v.out
    | exact v.sorted
    | exact v.log
    | (refine forall_mem_set (P := Op.objOK s.now) (i := i) v.ops ?_
       first
         | exact hop
         | trivial
         | (split <;> first | exact hop | trivial))
    | (intro e he
       simp only [State.setOp, State.emit, List.mem_append, List.mem_cons, List.not_mem_nil, or_false] at he
       rcases he with he | he
       · exact v.log e he
       · rcases he with rfl | rfl <;> trivial)

theorem stepTakePanic_objinv {s s' : State} {i : Nat} {o : Obj} {add : Bool}
    (h : s.ops[i]? = some (.take .detach o add)) (v : ObjInv s)
    (hs : stepTakePanic s i o = some s') : ObjInv s' := by
  simp only [stepTakePanic, Option.some.injEq] at hs
  subst hs
  refine ⟨v.idle, v.out, ?_, v.sorted, ?_⟩
  · exact forall_mem_set (P := Op.objOK s.now) (i := i) v.ops trivial
  · intro e he
    simp only [State.setOp, State.emit, List.mem_append, List.mem_cons, List.not_mem_nil,
      or_false] at he
    rcases he with he | rfl | rfl | rfl
    · exact v.log e he
    · trivial
    · trivial
    · trivial

theorem stepRetPanic_objinv {s s' : State} {i : Nat} {o : Obj}
    (h : s.ops[i]? = some (.ret .detach o)) (v : ObjInv s)
    (hs : stepRetPanic s i o = some s') : ObjInv s' := by
  simp only [stepRetPanic, Option.some.injEq] at hs
  subst hs
  refine ⟨v.idle, v.out, ?_, v.sorted, ?_⟩
  · exact forall_mem_set (P := Op.objOK s.now) (i := i) v.ops trivial
  · intro e he
    simp only [State.setOp, State.emit, List.mem_append, List.mem_cons, List.not_mem_nil,
      or_false] at he
    rcases he with he | rfl | rfl | rfl
    · exact v.log e he
    · trivial
    · trivial
    · trivial

theorem stepResize_objinv {s s' : State} {i n old : Nat} {isClose : Bool} {pc : ZPc}
    (h : s.ops[i]? = some (.resize n isClose pc old)) (v : ObjInv s)
    (hs : stepResize s i n isClose pc old = some s') : ObjInv s' := by
  cases pc
  all_goals simp only [stepResize, finishResize] at hs
  all_goals repeat' split at hs
  all_goals first | (simp at hs; done) | skip
  all_goals (simp only [Option.some.injEq] at hs; subst hs)
  all_goals try (have hsub : (List.Sublist _ s.idle) := (‹s.idle = _ :: _› ▸ List.sublist_cons_self _ _))
  all_goals refine ⟨?_, ?_, ?_, ?_, ?_⟩
  all_goals first
    | exact v.idle
    | exact v.out
    | exact v.sorted
    | exact v.log
    | exact v.ops
    | (refine forall_mem_set (P := Op.objOK s.now) (i := i) v.ops ?_; trivial)
    | (intro o ho; exact v.idle o (hsub.subset ho))
    | exact v.sorted.sublist hsub
    | (intro o ho; exact absurd ho List.not_mem_nil)
    | exact List.Pairwise.nil
    | (intro e he
       simp only [State.setOp, State.emit, List.mem_append, List.mem_cons, List.not_mem_nil, or_false] at he
       rcases he with he | he
       · exact v.log e he
       · rcases he with rfl | rfl <;> trivial)
    | (intro e he
       simp only [State.setOp, State.emit, List.mem_append, List.mem_cons, List.not_mem_nil, or_false] at he
       rcases he with he | rfl
       · exact v.log e he
       · trivial)
    | (intro e he
       simp only [State.setOp, State.emit, List.mem_append, List.mem_cons, List.not_mem_nil, or_false] at he
       rcases he with he | he | rfl
       · exact v.log e he
       · exact drainEvs_metrics i _ e he
       · trivial)

theorem stepRetain_objinv {s s' : State} {i : Nat} {keep : List Bool}
    (h : s.ops[i]? = some (.retain keep)) (v : ObjInv s)
    (hs : stepRetain s i keep = some s') : ObjInv s' := by
  unfold stepRetain at hs
  split at hs
  · simp at hs
  · simp only [Option.some.injEq] at hs
    subst hs
    have hsub := retainKept_sublist keep 0 s.idle
    refine ⟨fun o ho => v.idle o (hsub.subset ho), v.out, ?_, v.sorted.sublist hsub, ?_⟩
    · exact forall_mem_set (P := Op.objOK s.now) (i := i) v.ops trivial
    · intro e he
      simp only [State.setOp, State.emit, List.mem_append, List.mem_cons, List.not_mem_nil,
        or_false] at he
      rcases he with he | he | rfl
      · exact v.log e he
      · exact retainEvs_metrics i keep 0 s.idle (fun o ho => (v.idle o ho).1) e he
      · trivial

theorem stepStatus_objinv {s s' : State} {i : Nat}
    (h : s.ops[i]? = some .status) (v : ObjInv s)
    (hs : stepStatus s i = some s') : ObjInv s' := by
  unfold stepStatus at hs
  split at hs
  · simp at hs
  · simp only [Option.some.injEq] at hs
    subst hs
    refine ⟨v.idle, v.out, ?_, v.sorted, ?_⟩
    · exact forall_mem_set (P := Op.objOK s.now) (i := i) v.ops trivial
    · intro e he
      simp only [State.setOp, State.emit, List.mem_append, List.mem_cons, List.not_mem_nil,
        or_false] at he
      rcases he with he | rfl
      · exact v.log e he
      · trivial

theorem startOp_objinv {s s' : State} {sp : Spec} (v : ObjInv s)
    (hs : startOp s sp = some s') : ObjInv s' := by
  cases sp
  all_goals simp only [startOp] at hs
  all_goals repeat' split at hs
  all_goals first | (simp at hs; done) | skip
  all_goals (simp only [Option.some.injEq] at hs; subst hs)
  all_goals try (have hm := findOut_mem ‹findOut _ _ = some _›)
  all_goals refine ⟨v.idle, ?_, ?_, v.sorted, v.log⟩
  all_goals first
    | exact v.out
    | (intro o ho; exact v.out o (List.mem_of_mem_erase ho))
    | (refine forall_mem_append_single (P := Op.objOK s.now) v.ops ?_
       first | trivial | exact v.out _ hm)

theorem stepOp_objinv {s s' : State} {i : Nat} {oc : Outcome} (v : ObjInv s)
    (hs : stepOp s i oc = some s') : ObjInv s' := by
  unfold stepOp at hs
  split at hs
  · simp at hs
  · rename_i op h
    cases op with
    | get t pc => exact stepGet_objinv h v hs
    | ret pc o =>
      simp only at hs
      split at hs
      · exact stepRet_objinv h v hs
      · split at hs
        · have := retPanic_pc ‹_›; subst this
          exact stepRetPanic_objinv h v hs
        · simp at hs
    | take pc o add =>
      simp only at hs
      split at hs
      · exact stepTake_objinv h v hs
      · split at hs
        · have := takePanic_pc ‹_›; subst this
          exact stepTakePanic_objinv h v hs
        · simp at hs
    | resize n cl pc old =>
      simp only at hs
      split at hs
      · exact stepResize_objinv h v hs
      · simp at hs
    | retain keep =>
      simp only at hs
      split at hs
      · exact stepRetain_objinv h v hs
      · simp at hs
    | status =>
      simp only at hs
      split at hs
      · exact stepStatus_objinv h v hs
      · simp at hs
    | done => simp at hs

theorem step_objinv {s s' : State} {act : Action} (v : ObjInv s) (hs : step s act = some s') :
    ObjInv s' := by
  unfold step at hs
  cases act with
  | start sp =>
    simp only [Option.map_eq_some_iff] at hs
    obtain ⟨s1, h1, rfl⟩ := hs
    exact (startOp_objinv v h1).tick
  | step i oc =>
    simp only [Option.map_eq_some_iff] at hs
    obtain ⟨s1, h1, rfl⟩ := hs
    exact (stepOp_objinv v h1).tick

/-- `ObjInv` holds after any list of actions from the initial state. -/
theorem run_objinv (cfg : Cfg) (acts : List Action) : ObjInv (run (init cfg) acts) := by
  suffices h : ∀ s, ObjInv s → ObjInv (run s acts) from h _ (ObjInv.init cfg)
  induction acts with
  | nil => intro s a; exact a
  | cons act acts ih =>
    intro s a
    rw [run_cons]
    apply ih
    cases hst : step s act with
    | none => exact a
    | some s1 => exact step_objinv a hst

end DeadpoolVerif
