/-
`U.Acct` is preserved by every transition of the unmanaged pool model.
-/
import DeadpoolVerif.Lemmas.UAcct

namespace DeadpoolVerif
namespace U

/-- facts about the operation being replaced -/
macro "u_prep" h:ident : tactic => `(tactic| (
  have b1 := sumW_mem_le Op.popW _ _ _ $h
  have b2 := sumW_mem_le Op.pendW _ _ _ $h
  have b3 := sumW_mem_le Op.inFlightW _ _ _ $h
  have b4 := sumW_mem_le Op.addW _ _ _ $h
  have b5 := sumW_mem_le Op.takeW _ _ _ $h
  have b6 := sumW_mem_le Op.pushW _ _ _ $h
  have b7 := sumW_mem_le Op.waitW _ _ _ $h
  have b8 := sumW_mem_le Op.tryW _ _ _ $h
  have b9 := sumW_mem_le Op.clearW _ _ _ $h))

theorem getLast_length {l : List Nat} {x : Nat} (h : l.getLast? = some x) : 0 < l.length := by
  cases l with
  | nil => simp at h
  | cons a l => simp

theorem getLast_none_length {l : List Nat} (h : l.getLast? = none) : l.length = 0 := by
  cases l with
  | nil => rfl
  | cons a l => simp [List.getLast?_cons] at h

theorem stepGet_acct {s s' : State} {i : Nat} {w : Tmo} {try_ remove : Bool} {pc : GPc} {oc : Outcome}
    (h : s.ops[i]? = some (.get w try_ remove pc)) (a : Acct s)
    (hs : stepGet s i w try_ remove pc oc = some s') : Acct s' := by
  u_prep h
  obtain ⟨ao, a2, a3, a4, a5⟩ := a
  cases try_ <;> cases pc <;> cases oc <;> simp only [stepGet] at hs
  all_goals first | (simp at hs; done) | skip
  all_goals repeat' split at hs
  all_goals first | (simp at hs; done) | skip
  all_goals try (exact absurd trivial ‹¬True›)
  all_goals (simp only [Option.some.injEq] at hs; subst hs)
  all_goals try (have t1 := Sem.tryAcquire_ok ‹Sem.tryAcquire _ = (_, TryRes.ok)›)
  all_goals try (have t2 := Sem.pollAcquire_ok ‹Sem.pollAcquire _ _ = (_, PollRes.ok)›)
  all_goals try (have t3 := Sem.pollAcquire_pending ‹Sem.pollAcquire _ _ = (_, PollRes.pending)›)
  all_goals try (have t4 := Sem.pollAcquire_closed ‹Sem.pollAcquire _ _ = (_, PollRes.closed)›)
  all_goals try (have c1 := tryAcquire_closed ‹Sem.tryAcquire _ = _›)
  all_goals try (have c2 := pollAcquire_closed' ‹Sem.pollAcquire _ _ = _›)
  all_goals try (have c3 := pollAcquire_closed_is_closed ‹Sem.pollAcquire _ _ = (_, PollRes.closed)›)
  all_goals try (have g1 := getLast_length ‹List.getLast? _ = some _›)
  all_goals try (have g2 := getLast_none_length ‹List.getLast? _ = none›)
  all_goals try (cases remove)
  all_goals refine ⟨?_, ?_, ?_, ?_, ?_⟩
  all_goals first
    | (intro hc'
       have hc : s.sem.closed = false := by
         first
           | exact hc'
           | (simp only [State.setOp, State.emit, finishGet, failGet, Sem.addPermits_closed, dropAcquire_closed] at hc'
              first | exact hc' | (rw [c1] at hc'; exact hc') | (rw [c2] at hc'; exact hc')
                    | (rw [dropAcquire_closed, c2] at hc'; exact hc'))
       first
         | (rw [c3] at hc; exact absurd hc (by simp))
         | (obtain ⟨o1, o2, o3⟩ := ao hc
            refine ⟨?_, ?_, ?_⟩ <;> (u_simp h <;> omega)))
    | (u_simp h <;> omega)
    | (u_simp h <;> assumption)
    | (u_simp h; apply decFault_eq_none ‹_›; omega)

/-- closes the five fields of `Acct` for a leaf of a step function -/
macro "u_leaf" h:ident ao:ident st:ident : tactic => `(tactic| (
  refine ⟨?_, ?_, ?_, ?_, ?_⟩
  all_goals first
    | (intro hc'
       have hc : (State.sem $st).closed = false := by
         first
           | exact hc'
           | (simp only [State.setOp, State.emit, clear, Sem.addPermits_closed, dropAcquire_closed, Sem.close] at hc'
              first | exact hc' | (simp at hc'; done))
       obtain ⟨o1, o2, o3⟩ := $ao hc
       refine ⟨?_, ?_, ?_⟩ <;> (u_simp $h <;> omega))
    | (intro hc'; simp only [State.setOp, State.emit, clear, Sem.close] at hc'; simp at hc'; done)
    | (u_simp $h <;> omega)
    | (u_simp $h <;> assumption)
    | (u_simp $h; apply decFault_eq_none ‹_›; omega)))

theorem closed_of_clearW {s : State}
    (ao : s.sem.closed = false →
      s.sem.tokens + sumW Op.popW s.ops + sumW Op.pendW s.ops = s.queue.length ∧
      s.dropped.length = 0 ∧ sumW Op.clearW s.ops = 0)
    (h : 1 ≤ sumW Op.clearW s.ops) : s.sem.closed = true := by
  rcases Bool.eq_false_or_eq_true s.sem.closed with h1 | h1
  · exact h1
  · have := (ao h1).2.2; omega

theorem length_erase_nat {l : List Nat} {a : Nat} (h : a ∈ l) : (l.erase a).length + 1 = l.length := by
  rw [List.length_erase_of_mem h]
  have : 0 < l.length := List.length_pos_of_mem h
  omega

/-- closes the fields of `Acct` for a step that runs `clear` (only on a closed pool) -/
macro "u_clear_leaf" h:ident hcl:ident : tactic => `(tactic| (
  refine ⟨?_, ?_, ?_, ?_, ?_⟩
  all_goals first
    | (intro hc'; simp only [State.setOp, State.emit, clear] at hc'; rw [$hcl:ident] at hc'; simp at hc'; done)
    | (u_simp $h <;> omega)
    | (u_simp $h <;> assumption)
    | (u_simp $h; apply decFault_eq_none ‹_›; omega)))

theorem stepAdd_acct {s s' : State} {i id : Nat} {try_ : Bool} {pc : APc} {oc : Outcome}
    (h : s.ops[i]? = some (.add id try_ pc)) (a : Acct s)
    (hs : stepAdd s i id try_ pc oc = some s') : Acct s' := by
  u_prep h
  have c9 := sumW_mem_le Op.clearW _ _ _ h
  obtain ⟨ao, a2, a3, a4, a5⟩ := a
  cases try_ <;> cases pc <;> cases oc <;> simp only [stepAdd] at hs
  all_goals first | (simp at hs; done) | skip
  all_goals repeat' split at hs
  all_goals first | (simp at hs; done) | skip
  all_goals (simp only [Option.some.injEq] at hs; subst hs)
  all_goals try (have t1 := Sem.tryAcquire_ok ‹Sem.tryAcquire _ = (_, TryRes.ok)›)
  all_goals try (have t2 := Sem.pollAcquire_ok ‹Sem.pollAcquire _ _ = (_, PollRes.ok)›)
  all_goals try (have t3 := Sem.pollAcquire_pending ‹Sem.pollAcquire _ _ = (_, PollRes.pending)›)
  all_goals try (have t4 := Sem.pollAcquire_closed ‹Sem.pollAcquire _ _ = (_, PollRes.closed)›)
  all_goals first
    | u_leaf h ao s
    | (have hcl : s.sem.closed = true := ‹s.sem.closed = true›
       u_clear_leaf h hcl)
    | (simp only [Op.clearW] at c9
       have hcl := closed_of_clearW ao c9
       u_clear_leaf h hcl)

theorem stepRet_acct {s s' : State} {i id : Nat} {pc : RPc}
    (h : s.ops[i]? = some (.ret id pc)) (a : Acct s)
    (hs : stepRet s i id pc = some s') : Acct s' := by
  u_prep h
  have c9 := sumW_mem_le Op.clearW _ _ _ h
  obtain ⟨ao, a2, a3, a4, a5⟩ := a
  cases pc <;> simp only [stepRet] at hs
  case clear =>
    simp only [Option.some.injEq] at hs; subst hs
    have hcl := closed_of_clearW ao (by simpa [Op.clearW] using c9)
    u_clear_leaf h hcl
  case cleanup =>
    split at hs
    · rename_i hcl
      simp only [Option.some.injEq] at hs; subst hs
      u_clear_leaf h hcl
    · simp only [Option.some.injEq] at hs; subst hs
      u_leaf h ao s
  case push =>
    split at hs
    · rename_i hcl
      simp only [Option.some.injEq] at hs; subst hs
      u_clear_leaf h hcl
    · simp only [Option.some.injEq] at hs; subst hs
      u_leaf h ao s
  all_goals (simp only [Option.some.injEq] at hs; subst hs)
  all_goals u_leaf h ao s

theorem stepTake_acct {s s' : State} {i id : Nat} {pc : TPc} {v : Bool}
    (h : s.ops[i]? = some (.take id pc v)) (a : Acct s)
    (hs : stepTake s i id pc v = some s') : Acct s' := by
  u_prep h
  obtain ⟨ao, a2, a3, a4, a5⟩ := a
  cases pc <;> simp only [stepTake] at hs
  all_goals (simp only [Option.some.injEq] at hs; subst hs)
  all_goals try (cases v)
  all_goals u_leaf h ao s

theorem stepClose_acct {s s' : State} {i : Nat} {pc : CPc}
    (h : s.ops[i]? = some (.close pc)) (a : Acct s)
    (hs : stepClose s i pc = some s') : Acct s' := by
  u_prep h
  have c9 := sumW_mem_le Op.clearW _ _ _ h
  obtain ⟨ao, a2, a3, a4, a5⟩ := a
  cases pc <;> simp only [stepClose] at hs
  case sem =>
    simp only [Option.some.injEq] at hs; subst hs
    u_leaf h ao s
  case sizeSem =>
    simp only [Option.some.injEq] at hs; subst hs
    have hcl := closed_of_clearW ao (by simpa [Op.clearW] using c9)
    u_clear_leaf h hcl
  case clear =>
    simp only [Option.some.injEq] at hs; subst hs
    have hcl := closed_of_clearW ao (by simpa [Op.clearW] using c9)
    u_clear_leaf h hcl

theorem startOp_acct {s s' : State} {sp : Spec} (a : Acct s) (hs : startOp s sp = some s') :
    Acct s' := by
  obtain ⟨ao, a2, a3, a4, a5⟩ := a
  cases sp <;> simp only [startOp] at hs
  all_goals repeat' split at hs
  all_goals first | (simp at hs; done) | skip
  all_goals (simp only [Option.some.injEq] at hs; subst hs)
  all_goals try (have e1 := length_erase_nat ‹_ ∈ s.hands›)
  all_goals refine ⟨?_, ?_, ?_, ?_, ?_⟩
  all_goals first
    | (intro hc
       obtain ⟨o1, o2, o3⟩ := ao hc
       simp only [sumW_append, sumW_cons, sumW_nil, Op.popW, Op.pendW, Op.clearW] at *
       exact ⟨by omega, o2, by omega⟩)
    | (simp only [sumW_append, sumW_cons, sumW_nil, Op.popW, Op.pendW, Op.inFlightW, Op.addW, Op.takeW,
        Op.pushW, Op.waitW, Op.tryW, Op.clearW] at *; omega)
    | assumption

theorem stepOp_acct {s s' : State} {i : Nat} {oc : Outcome} (a : Acct s)
    (hs : stepOp s i oc = some s') : Acct s' := by
  unfold stepOp at hs
  split at hs
  · simp at hs
  · rename_i op h
    cases op with
    | get w t r pc => exact stepGet_acct h a hs
    | add id t pc => exact stepAdd_acct h a hs
    | ret id pc =>
      simp only at hs
      split at hs
      · exact stepRet_acct h a hs
      · simp at hs
    | take id pc v =>
      simp only at hs
      split at hs
      · exact stepTake_acct h a hs
      · simp at hs
    | close pc =>
      simp only at hs
      split at hs
      · exact stepClose_acct h a hs
      · simp at hs
    | status =>
      simp only at hs
      split at hs
      · simp only [Option.some.injEq] at hs
        subst hs
        u_prep h
        obtain ⟨ao, a2, a3, a4, a5⟩ := a
        u_leaf h ao s
      · simp at hs
    | done => simp at hs

theorem step_acct {s s' : State} {act : Action} (a : Acct s) (hs : step s act = some s') :
    Acct s' := by
  cases act with
  | start sp => exact startOp_acct a hs
  | step i oc => exact stepOp_acct a hs

/-- `U.Acct` holds after any list of actions from the initial state (for any pool built by
`new`, `from_config` or from an iterator). -/
theorem run_acct (cfg : Cfg) (hc : cfg.initial ≤ cfg.maxSize) (acts : List Action) :
    Acct (run (init cfg) acts) := by
  suffices h : ∀ s, Acct s → Acct (run s acts) from h _ (Acct.init cfg hc)
  induction acts with
  | nil => intro s a; exact a
  | cons act acts ih =>
    intro s a
    rw [run_cons]
    apply ih
    cases hst : step s act with
    | none => exact a
    | some s1 => exact step_acct a hst

end U
end DeadpoolVerif
