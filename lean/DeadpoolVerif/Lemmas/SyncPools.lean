/-
C15: an environment that answers `Manager::recycle` honestly never sees a spoiled connection
handed out again.  Invariant and its preservation.
-/
import DeadpoolVerif.Model.SyncPools
import DeadpoolVerif.Lemmas.Frame

namespace DeadpoolVerif
namespace SP

/-- what must hold of an operation: past the `Manager::recycle` callback the connection in hand
passed an honest check; connections on the creation path have never been handed out -/
def GoodOp (cfg : Cfg) (sp : Spoiled) : Op → Prop
  | .get _ (.recycling k o _) => cfg.pre.length < k → sp o.id o.handouts = false
  | .get _ (.createSize o) => o.handouts = 0
  | .get _ (.postCreate _ o _) => o.handouts = 0
  | _ => True

def GoodEv (sp : Spoiled) : Ev → Prop
  | .handout _ o => 1 < o.handouts → sp o.id (o.handouts - 1) = false
  | _ => True

structure J (sp : Spoiled) (s : State) : Prop where
  ops : ∀ op ∈ s.ops, GoodOp s.cfg sp op
  log : ∀ e ∈ s.log, GoodEv sp e

theorem J.init (sp : Spoiled) (cfg : Cfg) : J sp (init cfg) := by
  constructor
  · intro op h; cases h
  · intro e h; cases h

theorem retainEvs_good (sp : Spoiled) (i : Nat) (keep : List Bool) (k : Nat) (l : List Obj) :
    ∀ e ∈ retainEvs i keep k l, GoodEv sp e := by
  induction l generalizing k with
  | nil => intro e he; cases he
  | cons o rest ih =>
    intro e he
    simp only [retainEvs] at he
    split at he
    · rcases List.mem_cons.mp he with rfl | he
      · trivial
      · exact ih _ e he
    · rcases List.mem_cons.mp he with rfl | he
      · trivial
      · rcases List.mem_cons.mp he with rfl | he
        · trivial
        · exact ih _ e he

theorem drainEvs_good (sp : Spoiled) (i : Nat) (l : List Obj) :
    ∀ e ∈ drainEvs i l, GoodEv sp e := by
  induction l with
  | nil => intro e he; cases he
  | cons o rest ih =>
    intro e he
    simp only [drainEvs, List.mem_cons] at he
    rcases he with rfl | rfl | he
    · trivial
    · trivial
    · exact ih e he

/-- closes `∀ e ∈ s'.log, e ∈ s.log ∨ GoodEv sp e` when the new events are trivially good -/
macro "log_trivial" : tactic => `(tactic| (
  intro e he
  simp only [State.setOp, State.emit, List.mem_append, List.mem_cons, List.not_mem_nil, or_false] at he
  first
    | exact Or.inl he
    | (rcases he with he | he
       · exact Or.inl he
       · right
         first
           | (subst he; trivial)
           | (rcases he with he | he <;> (subst he; trivial))
           | (rcases he with he | he | he <;> (subst he; trivial)))))

/-- one step of an operation: entry `i` is replaced by a good operation, only good events are
appended, the configuration stays -/
theorem stepOp_good {sp : Spoiled} {s s' : State} {i : Nat} {oc : Outcome} {y : Op}
    (hy : s.ops[i]? = some y) (hg : GoodOp s.cfg sp y)
    (hok : okAllowed sp s (.step i oc) = true) (hs : stepOp s i oc = some s') :
    s'.cfg = s.cfg ∧ (∃ x, s'.ops = s.ops.set i x ∧ GoodOp s.cfg sp x) ∧
      ∀ e ∈ s'.log, e ∈ s.log ∨ GoodEv sp e := by
  unfold stepOp at hs
  rw [hy] at hs
  simp only at hs
  cases y with
  | get t pc =>
    simp only at hs
    cases pc with
    | recycling k o susp =>
      cases oc with
      | ok =>
        simp only [okAllowed, hy] at hok
        simp only [stepGet] at hs
        split at hs
        · rename_i hk
          simp only [arriveRecycle, Option.some.injEq] at hs; subst hs
          refine ⟨rfl, ⟨_, rfl, ?_⟩, ?_⟩
          · intro hlt
            by_cases hkk : k = s.cfg.pre.length
            · simpa [hkk] using hok
            · exact hg (by omega)
          · log_trivial
        · rename_i hk
          simp only [handOut, Option.some.injEq] at hs; subst hs
          refine ⟨rfl, ⟨_, rfl, trivial⟩, ?_⟩
          intro e he
          simp only [State.setOp, State.emit, List.mem_append, List.mem_cons, List.not_mem_nil, or_false] at he
          rcases he with he | rfl | rfl
          · exact Or.inl he
          · right
            intro _
            simp only [Nat.add_sub_cancel]
            by_cases hkk : k = s.cfg.pre.length
            · simpa [hkk] using hok
            · apply hg
              simp only [Cfg.nRecycle] at hk
              omega
          · right; trivial
      | err => simp only [stepGet, Option.some.injEq] at hs; subst hs; (refine ⟨rfl, ⟨_, rfl, trivial⟩, ?_⟩; log_trivial)
      | panic => simp only [stepGet, Option.some.injEq] at hs; subst hs; (refine ⟨rfl, ⟨_, rfl, trivial⟩, ?_⟩; log_trivial)
      | run => simp [stepGet] at hs
      | pending =>
        simp only [stepGet] at hs
        repeat' split at hs
        all_goals first
          | (simp at hs; done)
          | skip
        all_goals (simp only [Option.some.injEq] at hs; subst hs)
        · (refine ⟨rfl, ⟨_, rfl, trivial⟩, ?_⟩; log_trivial)
        · (refine ⟨rfl, ⟨_, rfl, hg⟩, ?_⟩; log_trivial)
      | deadline =>
        simp only [stepGet] at hs
        split at hs
        · simp only [Option.some.injEq] at hs; subst hs; (refine ⟨rfl, ⟨_, rfl, trivial⟩, ?_⟩; log_trivial)
        · simp at hs
      | cancel =>
        simp only [stepGet] at hs
        split at hs
        · simp only [Option.some.injEq] at hs; subst hs; (refine ⟨rfl, ⟨_, rfl, trivial⟩, ?_⟩; log_trivial)
        · simp at hs
    | createSize o =>
      have h0 : o.handouts = 0 := hg
      cases oc <;> simp only [stepGet, arrivePostCreate, handOut] at hs
      repeat' split at hs
      all_goals first
        | (simp at hs; done)
        | skip
      all_goals (simp only [Option.some.injEq] at hs; subst hs)
      · (refine ⟨rfl, ⟨_, rfl, h0⟩, ?_⟩; log_trivial)
      · refine ⟨rfl, ⟨_, rfl, trivial⟩, ?_⟩
        intro e he
        simp only [State.setOp, State.emit, List.mem_append, List.mem_cons, List.not_mem_nil, or_false] at he
        rcases he with he | rfl | rfl
        · exact Or.inl he
        · right; intro h1; simp [h0] at h1
        · right; trivial
    | postCreate k o susp =>
      have h0 : o.handouts = 0 := hg
      cases oc <;> simp only [stepGet, arrivePostCreate, handOut] at hs
      all_goals repeat' split at hs
      all_goals first
        | (simp at hs; done)
        | skip
      all_goals (simp only [Option.some.injEq] at hs; subst hs)
      all_goals first
        | (refine ⟨rfl, ⟨_, rfl, h0⟩, ?_⟩; log_trivial)
        | (refine ⟨rfl, ⟨_, rfl, trivial⟩, ?_⟩; log_trivial)
        | (refine ⟨rfl, ⟨_, rfl, trivial⟩, ?_⟩
           intro e he
           simp only [State.setOp, State.emit, List.mem_append, List.mem_cons, List.not_mem_nil, or_false] at he
           rcases he with he | rfl | rfl
           · exact Or.inl he
           · right; intro h1; simp [h0] at h1
           · right; trivial)
    | pop =>
      cases oc <;> simp only [stepGet, arriveRecycle, failPermit] at hs
      all_goals repeat' split at hs
      all_goals first
        | (simp at hs; done)
        | skip
      all_goals (simp only [Option.some.injEq] at hs; subst hs)
      · refine ⟨rfl, ⟨_, rfl, ?_⟩, ?_⟩
        · intro h; exact absurd h (Nat.not_lt_zero _)
        · log_trivial
      · refine ⟨rfl, ⟨_, rfl, trivial⟩, ?_⟩; log_trivial
      · refine ⟨rfl, ⟨_, rfl, trivial⟩, ?_⟩; log_trivial
    | creating susp =>
      cases oc <;> simp only [stepGet, failPermit] at hs
      all_goals repeat' split at hs
      all_goals first
        | (simp at hs; done)
        | skip
      all_goals (simp only [Option.some.injEq] at hs; subst hs)
      all_goals first
        | (refine ⟨rfl, ⟨_, rfl, trivial⟩, ?_⟩; log_trivial)
        | (refine ⟨rfl, ⟨_, rfl, ?_⟩, ?_⟩; (show _ = 0; rfl); log_trivial)
    | _ =>
      cases oc <;> simp only [stepGet, failPermit] at hs
      all_goals repeat' split at hs
      all_goals first
        | (simp at hs; done)
        | skip
      all_goals (simp only [Option.some.injEq] at hs; subst hs)
      all_goals first
        | (refine ⟨rfl, ⟨_, rfl, trivial⟩, ?_⟩; log_trivial)
        | (refine ⟨rfl, ⟨_, rfl, ?_⟩, ?_⟩; (simp [GoodOp]; done); log_trivial)
        | (refine ⟨rfl, ⟨_, rfl, ?_⟩, ?_⟩; (intro h; simp at h; done); log_trivial)
  | ret pc o =>
    simp only at hs
    split at hs
    · cases pc
      all_goals simp only [stepRet] at hs
      all_goals repeat' split at hs
      all_goals first
        | (simp at hs; done)
        | skip
      all_goals (simp only [Option.some.injEq] at hs; subst hs)
      all_goals (refine ⟨rfl, ⟨_, rfl, trivial⟩, ?_⟩; log_trivial)
    · split at hs
      · simp only [stepRetPanic, Option.some.injEq] at hs; subst hs
        (refine ⟨rfl, ⟨_, rfl, trivial⟩, ?_⟩; log_trivial)
      · simp at hs
  | take pc o add =>
    simp only at hs
    split at hs
    · cases pc
      all_goals simp only [stepTake] at hs
      all_goals repeat' split at hs
      all_goals first
        | (simp at hs; done)
        | skip
      all_goals (simp only [Option.some.injEq] at hs; subst hs)
      all_goals (refine ⟨rfl, ⟨_, rfl, trivial⟩, ?_⟩; log_trivial)
    · split at hs
      · simp only [stepTakePanic, Option.some.injEq] at hs; subst hs
        (refine ⟨rfl, ⟨_, rfl, trivial⟩, ?_⟩; log_trivial)
      · simp at hs
  | resize n c pc old =>
    simp only at hs
    split at hs
    · cases pc
      all_goals simp only [stepResize, finishResize] at hs
      all_goals repeat' split at hs
      all_goals first
        | (simp at hs; done)
        | skip
      all_goals (simp only [Option.some.injEq] at hs; subst hs)
      all_goals first
        | (refine ⟨rfl, ⟨_, rfl, trivial⟩, ?_⟩; log_trivial)
        | (refine ⟨rfl, ⟨_, (ops_set_self hy).symm, trivial⟩, ?_⟩; log_trivial)
        | (refine ⟨rfl, ⟨_, rfl, trivial⟩, ?_⟩
           intro e he
           simp only [State.setOp, State.emit, List.mem_append, List.mem_cons, List.not_mem_nil,
             or_false] at he
           rcases he with he | he | he
           · exact Or.inl he
           · exact Or.inr (drainEvs_good sp i _ e he)
           · right; subst he; trivial)
    · simp at hs
  | retain keep =>
    simp only at hs
    split at hs
    · unfold stepRetain at hs
      split at hs
      · simp at hs
      · simp only [Option.some.injEq] at hs; subst hs
        refine ⟨rfl, ⟨_, rfl, trivial⟩, ?_⟩
        intro e he
        simp only [State.setOp, State.emit, List.mem_append, List.mem_cons, List.not_mem_nil, or_false] at he
        rcases he with he | he | rfl
        · exact Or.inl he
        · exact Or.inr (retainEvs_good sp _ _ _ _ e he)
        · right; trivial
    · simp at hs
  | status =>
    simp only at hs
    split at hs
    · unfold stepStatus at hs
      split at hs
      · simp at hs
      · simp only [Option.some.injEq] at hs; subst hs
        refine ⟨rfl, ⟨_, rfl, trivial⟩, ?_⟩; log_trivial
    · simp at hs
  | done => simp at hs

theorem J.step {sp : Spoiled} {s s' : State} {a : Action} (h : J sp s)
    (hok : okAllowed sp s a = true) (hs : step s a = some s') : J sp s' := by
  unfold DeadpoolVerif.step at hs
  cases a with
  | start spec =>
    simp only [Option.map_eq_some_iff] at hs
    obtain ⟨s1, h1, rfl⟩ := hs
    obtain ⟨x, hx, hk⟩ := startOp_ops h1
    have hcfg : s1.cfg = s.cfg ∧ s1.log = s.log := by
      cases spec
      all_goals simp only [startOp] at h1
      all_goals repeat' split at h1
      all_goals first
        | (simp at h1; done)
        | skip
      all_goals (simp only [Option.some.injEq] at h1; subst h1)
      all_goals exact ⟨rfl, rfl⟩
    constructor
    · intro op hop
      simp only [] at hop
      show GoodOp s1.cfg sp op
      rw [hcfg.1]
      rw [hx] at hop
      simp only [List.mem_append, List.mem_singleton] at hop
      rcases hop with hop | rfl
      · exact h.ops op hop
      · rcases hk with rfl | ⟨o, rfl⟩ | ⟨o, rfl⟩ | ⟨n, c, rfl⟩ | ⟨k, rfl⟩ | rfl <;> trivial
    · intro e he
      simp only [] at he
      rw [hcfg.2] at he
      exact h.log e he
  | step i oc =>
    simp only [Option.map_eq_some_iff] at hs
    obtain ⟨s1, h1, rfl⟩ := hs
    cases hy : s.ops[i]? with
    | none => simp [stepOp, hy] at h1
    | some y =>
      obtain ⟨hcfg, ⟨x, hx, hgx⟩, hlog⟩ := stepOp_good hy (h.ops y (List.mem_of_getElem? hy)) hok h1
      constructor
      · intro op hop
        simp only [] at hop
        show GoodOp s1.cfg sp op
        rw [hcfg]
        rw [hx] at hop
        rcases List.mem_or_eq_of_mem_set hop with hop | rfl
        · exact h.ops op hop
        · exact hgx
      · intro e he
        simp only [] at he
        rcases hlog e he with h1 | h1
        · exact h.log e h1
        · exact h1

theorem J.run {sp : Spoiled} {s : State} {acts : List Action} (h : J sp s) (hh : Honest sp s acts) :
    J sp (run s acts) := by
  induction acts generalizing s with
  | nil => exact h
  | cons a as ih =>
    rw [run_cons]
    obtain ⟨hok, hrest⟩ := hh
    cases hst : DeadpoolVerif.step s a with
    | none => simp only [hst, Option.getD_none] at hrest ⊢; exact ih h hrest
    | some s1 => simp only [hst, Option.getD_some] at hrest ⊢; exact ih (h.step hok hst) hrest

end SP
end DeadpoolVerif
