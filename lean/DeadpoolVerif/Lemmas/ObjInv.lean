/-
Per-object invariants: metrics tell the truth (recycle_count = hand-outs - 1, `recycled`
absent exactly until the first reuse, timestamps ordered) wherever the object is, and the
idle queue is ordered by the time the objects were returned.
-/
import DeadpoolVerif.Lemmas.Frame

namespace DeadpoolVerif

/-- an object that has been in a caller's hands -/
def Obj.used (o : Obj) : Prop :=
  o.handouts = o.rc + 1 ∧ (o.recycled = none ↔ o.rc = 0)

/-- an object that was just created and never handed out -/
def Obj.fresh (o : Obj) : Prop := o.handouts = 0 ∧ o.rc = 0 ∧ o.recycled = none

def Obj.timeOK (now : Nat) (o : Obj) : Prop :=
  o.created ≤ now ∧ o.idleSince ≤ now ∧ ∀ r, o.recycled = some r → o.created ≤ r ∧ r ≤ now

theorem Obj.timeOK_mono {o : Obj} {n m : Nat} (h : o.timeOK n) (hnm : n ≤ m) : o.timeOK m := by
  obtain ⟨h1, h2, h3⟩ := h
  exact ⟨by omega, by omega, fun r hr => ⟨(h3 r hr).1, by have := (h3 r hr).2; omega⟩⟩

def Op.objOK (now : Nat) : Op → Prop
  | .get _ (.recycling _ o _) => o.used ∧ o.timeOK now
  | .get _ (.createSize o) | .get _ (.postCreate _ o _) => o.fresh ∧ o.timeOK now
  | .get _ (.unreadyLock o _) | .get _ (.unreadyDetach o _) => (o.used ∨ o.fresh) ∧ o.timeOK now
  | .ret _ o => o.used ∧ o.timeOK now
  | .take _ o _ => o.used ∧ o.timeOK now
  | _ => True

/-- what the metrics carried by an event must look like -/
def Ev.metricsOK : Ev → Prop
  | .call _ .postC _ o => o.fresh
  | .call _ _ _ o => o.used
  | .handout _ o => o.used
  | .pred _ _ o _ => o.used
  | _ => True

structure ObjInv (s : State) : Prop where
  idle : ∀ o ∈ s.idle, o.used ∧ o.timeOK s.now
  out : ∀ o ∈ s.out, o.used ∧ o.timeOK s.now
  ops : ∀ op ∈ s.ops, op.objOK s.now
  sorted : s.idle.Pairwise (fun a b => a.idleSince ≤ b.idleSince)
  log : ∀ e ∈ s.log, e.metricsOK

theorem ObjInv.init (cfg : Cfg) : ObjInv (init cfg) := by
  refine ⟨?_, ?_, ?_, ?_, ?_⟩ <;> simp [DeadpoolVerif.init]

theorem Op.objOK_mono {op : Op} {n m : Nat} (h : op.objOK n) (hnm : n ≤ m) : op.objOK m := by
  cases op with
  | get t pc =>
    cases pc <;> simp only [Op.objOK] at * <;> first | trivial | exact ⟨h.1, Obj.timeOK_mono h.2 hnm⟩
  | ret pc o => exact ⟨h.1, Obj.timeOK_mono h.2 hnm⟩
  | take pc o a => exact ⟨h.1, Obj.timeOK_mono h.2 hnm⟩
  | _ => trivial

theorem ObjInv.tick {s : State} (v : ObjInv s) : ObjInv { s with now := s.now + 1 } :=
  ⟨fun o ho => ⟨(v.idle o ho).1, Obj.timeOK_mono (v.idle o ho).2 (Nat.le_succ _)⟩,
   fun o ho => ⟨(v.out o ho).1, Obj.timeOK_mono (v.out o ho).2 (Nat.le_succ _)⟩,
   fun op hop => Op.objOK_mono (v.ops op hop) (Nat.le_succ _), v.sorted, v.log⟩

/-! helper lemmas for the list bookkeeping -/

theorem forall_mem_set {P : Op → Prop} {l : List Op} {i : Nat} {x : Op}
    (h : ∀ op ∈ l, P op) (hx : P x) : ∀ op ∈ l.set i x, P op := by
  intro op hop
  rcases List.mem_or_eq_of_mem_set hop with h1 | rfl
  · exact h op h1
  · exact hx

theorem forall_mem_append_single {α : Type} {P : α → Prop} {l : List α} {x : α}
    (h : ∀ a ∈ l, P a) (hx : P x) : ∀ a ∈ l ++ [x], P a := by
  intro a ha
  simp only [List.mem_append, List.mem_singleton] at ha
  rcases ha with h1 | rfl
  · exact h a h1
  · exact hx

theorem popIdle_mem {m : QueueMode} {idle rest : List Obj} {o : Obj}
    (h : popIdle m idle = some (o, rest)) : o ∈ idle ∧ rest.Sublist idle := by
  unfold popIdle at h
  split at h
  · split at h
    · simp only [Option.some.injEq, Prod.mk.injEq] at h
      obtain ⟨rfl, rfl⟩ := h
      exact ⟨by simp, List.sublist_cons_self _ _⟩
    · simp at h
  · split at h
    · rename_i heq
      simp only [Option.some.injEq, Prod.mk.injEq] at h
      obtain ⟨rfl, rfl⟩ := h
      exact ⟨List.mem_of_getLast? heq, List.dropLast_sublist _⟩
    · simp at h

theorem retainKept_sublist (keep : List Bool) (k : Nat) (l : List Obj) :
    (retainKept keep k l).Sublist l := by
  induction l generalizing k with
  | nil => simp [retainKept]
  | cons o rest ih =>
    simp only [retainKept]
    split
    · exact (ih (k + 1)).cons_cons o
    · exact (ih (k + 1)).cons o

theorem drainEvs_metrics (i : Nat) (l : List Obj) : ∀ e ∈ drainEvs i l, e.metricsOK := by
  induction l with
  | nil => intro e he; simp [drainEvs] at he
  | cons o rest ih =>
    intro e he
    simp only [drainEvs, List.mem_cons] at he
    rcases he with rfl | rfl | he
    · trivial
    · trivial
    · exact ih e he

theorem retainEvs_metrics (i : Nat) (keep : List Bool) (k : Nat) (l : List Obj)
    (h : ∀ o ∈ l, o.used) : ∀ e ∈ retainEvs i keep k l, e.metricsOK := by
  induction l generalizing k with
  | nil => simp [retainEvs]
  | cons o rest ih =>
    have ho := h o (by simp)
    have hr := ih (k + 1) (fun x hx => h x (by simp [hx]))
    simp only [retainEvs]
    split
    · intro e he
      rcases List.mem_cons.mp he with rfl | he'
      · exact ho
      · exact hr e he'
    · intro e he
      rcases List.mem_cons.mp he with rfl | he'
      · exact ho
      · rcases List.mem_cons.mp he' with rfl | he''
        · trivial
        · exact hr e he''

theorem used_bump_recycled (o : Obj) (now : Nat) (hop : o.used ∧ Obj.timeOK now o) :
    ({ o with rc := o.rc + 1, recycled := some now, handouts := o.handouts + 1 } : Obj).used ∧
    Obj.timeOK now { o with rc := o.rc + 1, recycled := some now, handouts := o.handouts + 1 } := by
  obtain ⟨⟨h1, h2⟩, h3, h4, h5⟩ := hop
  refine ⟨⟨?_, ?_⟩, ?_, ?_, ?_⟩
  · show o.handouts + 1 = o.rc + 1 + 1; omega
  · show (some now = none ↔ o.rc + 1 = 0); simp
  · exact h3
  · exact h4
  · intro r hr
    have : now = r := by simpa using hr
    subst this
    exact ⟨h3, Nat.le_refl _⟩

theorem used_bump_fresh (o : Obj) (now : Nat) (hop : o.fresh ∧ Obj.timeOK now o) :
    ({ o with handouts := o.handouts + 1 } : Obj).used ∧
    Obj.timeOK now { o with handouts := o.handouts + 1 } := by
  obtain ⟨⟨h1, h2, h3⟩, h4⟩ := hop
  refine ⟨⟨?_, ?_⟩, h4⟩
  · show o.handouts + 1 = o.rc + 1; omega
  · show (o.recycled = none ↔ o.rc = 0); simp [h2, h3]

theorem metricsOK_call_recycle (c : Cfg) (k i : Nat) (o : Obj) (h : o.used) :
    (Ev.call i (c.recyclePhase k).1 (c.recyclePhase k).2 o).metricsOK := by
  unfold Cfg.recyclePhase
  split
  · exact h
  · split <;> exact h

end DeadpoolVerif
