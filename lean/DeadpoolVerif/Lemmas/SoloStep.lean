/-
State-level relational invariant for a get() that runs alone from an arbitrary state.
-/
import DeadpoolVerif.Lemmas.Solo
import DeadpoolVerif.Lemmas.Acct

namespace DeadpoolVerif

/-- how the current state `s` differs from the state `s0` before the call, as a function
of the program counter of the (only) running get `i` -/
structure SoloRel (s0 s : State) (i : Nat) (t : Timeouts) (pc : GPc) : Prop where
  ops : s.ops = s0.ops ++ [.get t pc]
  sem : SemRel s0.sem s.sem i pc.hold
  users : s.users = s0.users + pc.usersW
  out : s.out = s0.out
  idle : s.idle.Sublist s0.idle
  size : s.size + s0.idle.length = s0.size + s.idle.length + pc.sizeW
  max : s.maxSize = s0.maxSize
  lock : s.lock = s0.lock
  cfg : s.cfg = s0.cfg
  nid : s0.nextId ≤ s.nextId

/-- the call is over and left nothing behind but the idle objects it discarded -/
structure SoloDone (s0 s : State) : Prop where
  ops : s.ops = s0.ops ++ [.done]
  sem : s.sem = s0.sem
  users : s.users = s0.users
  out : s.out = s0.out
  idle : s.idle.Sublist s0.idle
  size : s.size + s0.idle.length = s0.size + s.idle.length
  max : s.maxSize = s0.maxSize
  lock : s.lock = s0.lock
  cfg : s.cfg = s0.cfg
  nid : s0.nextId ≤ s.nextId

theorem set_append_last {l : List Op} {a x : Op} : (l ++ [a]).set l.length x = l ++ [x] := by
  induction l with
  | nil => rfl
  | cons b l ih => simp [ih]

theorem getElem?_append_last {l : List Op} {a : Op} : (l ++ [a])[l.length]? = some a := by
  simp

theorem popIdle_sublist {m : QueueMode} {idle rest : List Obj} {o : Obj}
    (h : popIdle m idle = some (o, rest)) : rest.Sublist idle := by
  unfold popIdle at h
  split at h
  · split at h
    · simp only [Option.some.injEq, Prod.mk.injEq] at h
      obtain ⟨_, rfl⟩ := h
      exact List.sublist_cons_self _ _
    · simp at h
  · split at h
    · simp only [Option.some.injEq, Prod.mk.injEq] at h
      obtain ⟨_, rfl⟩ := h
      exact List.dropLast_sublist _
    · simp at h

/-- result of one solo step -/
inductive SoloNext (s0 s' : State) (i : Nat) (t : Timeouts) : Prop
  | cont (pc' : GPc) (r : SoloRel s0 s' i t pc')
  | done (d : SoloDone s0 s')
  | handout (o : Obj) (h : s'.out = s0.out ++ [o]) (hd : s'.ops = s0.ops ++ [.done])

/-- closes the non-semaphore fields of `SoloRel` / `SoloDone` -/
macro "solo_rest" : tactic => `(tactic| (
  all_goals simp only [State.setOp, State.emit, GPc.usersW, GPc.sizeW, set_append_last,
    List.length_append, List.length_cons, List.length_nil] at *
  all_goals first
    | assumption
    | omega
    | rfl
    | (rename_i ri t5 _; exact t5.trans ri)
    | skip))

theorem solo_step {s0 s s' : State} {t : Timeouts} {pc : GPc} {oc : Outcome}
    (w0 : s0.sem.WF) (hi : s0.ops.length ∉ s0.sem.waiting)
    (r : SoloRel s0 s s0.ops.length t pc) (hsz : pc.sizeW ≤ s.size)
    (hs : stepGet s s0.ops.length t pc oc = some s') :
    SoloNext s0 s' s0.ops.length t := by
  have ru := r.users
  have rs := r.size
  have ro := r.out
  have rm := r.max
  have rl := r.lock
  have rc := r.cfg
  have rops := r.ops
  have rn := r.nid
  have rsem := r.sem
  have ri := r.idle
  cases pc with
  | enter =>
    have e : s.sem = s0.sem := rsem
    cases oc <;> simp only [stepGet] at hs
    all_goals first | (simp at hs; done) | skip
    split at hs <;> (simp only [Option.some.injEq] at hs; subst hs)
    · refine .done ⟨by simp only [State.setOp, State.emit, rops, set_append_last], e, ?_, ro, ri, ?_, rm, rl, rc, ?_⟩
      solo_rest
    · refine .cont .acquire ⟨by simp only [State.setOp, rops, set_append_last], e, ?_, ro, ri, ?_, rm, rl, rc, ?_⟩
      solo_rest
  | acquire =>
    have e : s.sem = s0.sem := rsem
    cases oc <;> simp only [stepGet] at hs
    all_goals first | (simp at hs; done) | skip
    rw [e] at hs
    repeat' split at hs
    all_goals (simp only [Option.some.injEq] at hs; subst hs)
    all_goals first
      | (have q := (SemRel.tryAcquire (i := s0.ops.length) ‹Sem.tryAcquire s0.sem = (_, TryRes.ok)›).1 rfl
         refine .cont .pop ⟨by simp only [State.setOp, rops, set_append_last], q, ?_, ro, ri, ?_, rm, rl, rc, ?_⟩
         solo_rest)
      | (have q := (SemRel.pollFresh (i := s0.ops.length) w0 hi ‹Sem.pollAcquire s0.sem _ = (_, PollRes.ok)›).1 rfl
         refine .cont .pop ⟨by simp only [State.setOp, rops, set_append_last], q, ?_, ro, ri, ?_, rm, rl, rc, ?_⟩
         solo_rest)
      | (have q := (SemRel.pollFresh (i := s0.ops.length) w0 hi ‹Sem.pollAcquire s0.sem _ = (_, PollRes.pending)›).2.1 rfl
         refine .cont .queued ⟨by simp only [State.setOp, rops, set_append_last], q, ?_, ro, ri, ?_, rm, rl, rc, ?_⟩
         solo_rest)
      | (have q := (SemRel.pollFresh (i := s0.ops.length) w0 hi ‹Sem.pollAcquire s0.sem _ = (_, PollRes.closed)›).2.2 rfl
         refine .cont (.dropUsers .closed) ⟨by simp only [State.setOp, rops, set_append_last], q, ?_, ro, ri, ?_, rm, rl, rc, ?_⟩
         solo_rest)
      | (refine .cont _ ⟨by (simp only [State.setOp, rops, set_append_last] <;> rfl), by exact e, ?_, ro, ri, ?_, rm, rl, rc, ?_⟩
         solo_rest)
  | queued =>
    have rq : SemRel s0.sem s.sem s0.ops.length .queued := rsem
    cases oc <;> simp only [stepGet] at hs
    all_goals first | (simp at hs; done) | skip
    all_goals repeat' split at hs
    all_goals first | (simp at hs; done) | skip
    all_goals (simp only [Option.some.injEq] at hs; subst hs)
    all_goals try (have q3 := SemRel.pollQueued hi rq ‹Sem.pollAcquire _ _ = _›)
    all_goals first
      | (exact PollRes.noConfusion q3.1)
      | (refine .cont .queued ⟨by simp only [State.setOp, rops, set_append_last], by (show SemRel _ _ _ _; rw [q3.2]; exact rq), ?_, ro, ri, ?_, rm, rl, rc, ?_⟩
         solo_rest)
      | (refine .cont (.dropUsers .timeoutWait) ⟨by simp only [State.setOp, rops, set_append_last], by (show Sem.dropAcquire _ _ = _; rw [q3.2]; exact SemRel.dropQueued hi rq), ?_, ro, ri, ?_, rm, rl, rc, ?_⟩
         solo_rest)
      | (refine .cont (.dropUsers .cancelled) ⟨by simp only [State.setOp, rops, set_append_last], SemRel.dropQueued hi rq, ?_, ro, ri, ?_, rm, rl, rc, ?_⟩
         solo_rest)
  | dropPermit res =>
    have rp : SemRel s0.sem s.sem s0.ops.length .permit := rsem
    cases oc <;> simp only [stepGet] at hs
    all_goals first | (simp at hs; done) | skip
    simp only [Option.some.injEq] at hs; subst hs
    refine .cont (.dropUsers res) ⟨by simp only [State.setOp, rops, set_append_last], SemRel.release w0 rp, ?_, ro, ri, ?_, rm, rl, rc, ?_⟩
    solo_rest
  | dropUsers res =>
    have e : s.sem = s0.sem := rsem
    cases oc <;> simp only [stepGet] at hs
    all_goals first | (simp at hs; done) | skip
    simp only [Option.some.injEq] at hs; subst hs
    refine .done ⟨by simp only [State.setOp, State.emit, rops, set_append_last], e, ?_, ro, ri, ?_, rm, rl, rc, ?_⟩
    solo_rest
  | _ =>
    -- the op holds a permit and keeps it: the semaphore is not touched
    have rp : SemRel s0.sem s.sem s0.ops.length .permit := rsem
    cases oc <;> simp only [stepGet, arriveRecycle, arrivePostCreate, handOut, failPermit] at hs
    all_goals first | (simp at hs; done) | skip
    all_goals repeat' split at hs
    all_goals first | (simp at hs; done) | skip
    all_goals (simp only [Option.some.injEq] at hs; subst hs)
    all_goals try (have t5 := popIdle_sublist ‹popIdle _ _ = some _›)
    all_goals try (have t6 := popIdle_some ‹popIdle _ _ = some _›)
    all_goals try (have t7 := popIdle_none ‹popIdle _ _ = none›)
    all_goals first
      | (apply SoloNext.handout
         · show s.out ++ [_] = s0.out ++ [_]; rw [ro]
         · simp only [State.setOp, State.emit, rops, set_append_last])
      | (refine .cont _ ⟨by (simp only [State.setOp, State.emit, rops, set_append_last] <;> rfl), by exact rp, ?_, ?_, ?_, ?_, ?_, ?_, ?_, ?_⟩ <;>
          simp only [State.setOp, State.emit, GPc.usersW, GPc.sizeW] at * <;>
          first | assumption | omega | exact t5.trans ri | rfl)

end DeadpoolVerif
