/-
A get() that runs alone (no other operation takes a step meanwhile) and ends without
handing out an object leaves the semaphore exactly as it found it.  The relational
invariant `SemRel` says how the current semaphore differs from the initial one depending
on what the operation holds.
-/
import DeadpoolVerif.Lemmas.LinkStep

namespace DeadpoolVerif

/-- what the running get() holds of the semaphore -/
inductive Hold | nothing | permit | queued
deriving DecidableEq, Repr

def GPc.hold : GPc → Hold
  | .enter | .acquire | .dropUsers _ => .nothing
  | .queued => .queued
  | _ => .permit

/-- relation between the semaphore before the call (`s0`) and now (`s`) -/
def SemRel (s0 s : Sem) (i : Nat) : Hold → Prop
  | .nothing => s = s0
  | .permit => s = { s0 with permits := s0.permits - 1 } ∧ 0 < s0.permits
  | .queued => s = { s0 with queue := s0.queue ++ [i] } ∧ s0.permits = 0 ∧ s0.closed = false

theorem SemRel.tryAcquire {s0 s' : Sem} {i : Nat} {r : TryRes} (h : s0.tryAcquire = (s', r)) :
    (r = .ok → SemRel s0 s' i .permit) ∧ (r ≠ .ok → s' = s0) := by
  unfold Sem.tryAcquire at h
  repeat' split at h
  all_goals (simp only [Prod.mk.injEq] at h; obtain ⟨rfl, rfl⟩ := h)
  · simp
  · simp
  · refine ⟨fun _ => ⟨rfl, by omega⟩, fun h => absurd rfl h⟩

/-- first poll, from a state in which `i` is not a registered waiter -/
theorem SemRel.pollFresh {s0 s' : Sem} {i : Nat} {r : PollRes} (w : s0.WF) (hi : i ∉ s0.waiting)
    (h : s0.pollAcquire i = (s', r)) :
    (r = .ok → SemRel s0 s' i .permit) ∧ (r = .pending → SemRel s0 s' i .queued) ∧
    (r = .closed → s' = s0) := by
  simp only [Sem.waiting, List.mem_append, not_or] at hi
  unfold Sem.pollAcquire at h
  simp only [hi.2, if_false, hi.1] at h
  repeat' split at h
  all_goals (simp only [Prod.mk.injEq] at h; obtain ⟨rfl, rfl⟩ := h)
  · refine ⟨by simp, by simp, fun _ => ?_⟩
    rw [List.erase_of_not_mem hi.1]
  · rename_i hc hp
    refine ⟨by simp, fun _ => ⟨rfl, hp, by simpa using hc⟩, by simp⟩
  · rename_i hc hp
    have hq : s0.queue = [] := w.free (by omega)
    refine ⟨fun _ => ⟨?_, by omega⟩, by simp, by simp⟩
    simp [hq]

/-- a re-poll while queued, nobody else having moved, stays pending -/
theorem SemRel.pollQueued {s0 s s' : Sem} {i : Nat} {r : PollRes} (hi : i ∉ s0.waiting)
    (rel : SemRel s0 s i .queued) (h : s.pollAcquire i = (s', r)) : r = .pending ∧ s' = s := by
  obtain ⟨hs, hp, hc⟩ := rel
  simp only [Sem.waiting, List.mem_append, not_or] at hi
  have f1 : s.closed = false := by rw [hs]; exact hc
  have f2 : i ∉ s.assigned := by rw [hs]; exact hi.2
  have f3 : s.permits = 0 := by rw [hs]; exact hp
  have f4 : i ∈ s.queue := by rw [hs]; simp
  unfold Sem.pollAcquire at h
  simp only [f1, Bool.false_eq_true, if_false, f2, f3, if_true, f4] at h
  simp only [Prod.mk.injEq] at h
  exact ⟨h.2.symm, h.1.symm⟩

theorem erase_append_self {q : List Nat} {i : Nat} (h : i ∉ q) : (q ++ [i]).erase i = q := by
  rw [List.erase_append_right _ h]
  simp

theorem SemRel.dropQueued {s0 s : Sem} {i : Nat} (hi : i ∉ s0.waiting)
    (rel : SemRel s0 s i .queued) : s.dropAcquire i = s0 := by
  obtain ⟨rfl, _, _⟩ := rel
  simp only [Sem.waiting, List.mem_append, not_or] at hi
  unfold Sem.dropAcquire
  simp only [hi.2, if_false, erase_append_self hi.1]

theorem SemRel.release {s0 s : Sem} {i : Nat} (w : s0.WF) (rel : SemRel s0 s i .permit) :
    s.addPermits 1 = s0 := by
  obtain ⟨rfl, hp⟩ := rel
  have hq : s0.queue = [] := w.free hp
  unfold Sem.addPermits
  simp only [hq, List.length_nil, Nat.min_zero, List.drop_nil, List.take_nil, List.append_nil,
    Nat.sub_zero]
  have : s0.permits - 1 + 1 = s0.permits := by omega
  rw [this]
  cases s0
  simp_all

end DeadpoolVerif
