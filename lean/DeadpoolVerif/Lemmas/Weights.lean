/-
Ghost weights of operations, by program counter (DESIGN.md Appendix A), and the
accounting invariant `Acct`.
-/
import DeadpoolVerif.Model.Managed
import DeadpoolVerif.Lemmas.Sum
import DeadpoolVerif.Lemmas.Sem

namespace DeadpoolVerif

/-- the op holds a capacity token -/
def GPc.permW : GPc → Nat
  | .enter | .acquire | .queued | .dropUsers _ => 0
  | _ => 1

/-- the op has an object of the pool in hand, or is creating one -/
def GPc.objW : GPc → Nat
  | .recycling .. | .creating _ | .createSize _ | .postCreate .. | .unreadyLock ..
  | .unreadyDetach .. => 1
  | _ => 0

/-- the object in hand is counted in `size` -/
def GPc.sizeW : GPc → Nat
  | .recycling .. | .postCreate .. | .unreadyLock .. => 1
  | _ => 0

/-- the op is counted in `users` -/
def GPc.usersW : GPc → Nat
  | .enter => 0
  | _ => 1

def Op.permW : Op → Nat
  | .get _ pc => pc.permW
  | .ret .users _ | .ret .lock _ | .ret .addPermits _ => 1
  | .take .users .. | .take .lock .. | .take .addPermits .. => 1
  | .resize n _ .grow old => n - old
  | _ => 0

def Op.objW : Op → Nat
  | .get _ pc => pc.objW
  | .ret .users _ | .ret .lock _ => 1
  | .take .users .. | .take .lock .. => 1
  | _ => 0

def Op.sizeW : Op → Nat
  | .get _ pc => pc.sizeW
  | .ret .users _ | .ret .lock _ => 1
  | .take .users .. | .take .lock .. => 1
  | _ => 0

def Op.usersW : Op → Nat
  | .get _ pc => pc.usersW
  | .ret .users _ => 1
  | .take .users .. => 1
  | _ => 0

theorem Op.sizeW_le_objW (op : Op) : op.sizeW ≤ op.objW := by
  cases op with
  | get t pc => cases pc <;> simp [Op.sizeW, Op.objW, GPc.sizeW, GPc.objW]
  | ret pc o => cases pc <;> simp [Op.sizeW, Op.objW]
  | take pc o a => cases pc <;> simp [Op.sizeW, Op.objW]
  | _ => simp [Op.sizeW, Op.objW]

theorem Op.objW_le_permW (op : Op) : op.objW ≤ op.permW := by
  cases op with
  | get t pc => cases pc <;> simp [Op.permW, Op.objW, GPc.permW, GPc.objW]
  | ret pc o => cases pc <;> simp [Op.permW, Op.objW]
  | take pc o a => cases pc <;> simp [Op.permW, Op.objW]
  | _ => simp [Op.objW]

/-- The accounting invariant (I1, I2, I4 of DESIGN.md and "no counter wrapped"). -/
structure Acct (s : State) : Prop where
  /-- I1 token conservation -/
  tok : s.sem.tokens + sumW Op.permW s.ops + s.out.length = s.maxSize + s.debt
  /-- I2 `size` counts the objects that exist and are registered -/
  siz : s.size = s.idle.length + s.out.length + sumW Op.sizeW s.ops
  /-- I2 `users` counts callers inside get() and live `Object`s -/
  usr : s.users = s.out.length + sumW Op.usersW s.ops
  /-- I4 every idle object and every object in hand is backed by a token -/
  cov : s.idle.length + sumW Op.objW s.ops ≤ s.sem.tokens + sumW Op.permW s.ops
  /-- no checked subtraction ever failed -/
  nf : s.fault = none

theorem Acct.init (cfg : Cfg) : Acct (init cfg) := by
  constructor <;> simp [DeadpoolVerif.init, Sem.new, Sem.tokens]

end DeadpoolVerif
