/-
Invariants of the SyncWrapper model.
-/
import DeadpoolVerif.Model.Sync

namespace DeadpoolVerif
namespace Sy

def phaseOf (s : State) : Phase :=
  if s.value then (match s.lock with | some i => .inClosure i | none => .idle) else .gone

/-- the invariant bundle -/
structure SInv (s : State) : Prop where
  /-- the mutex is held exactly by the task that is in its closure -/
  lockRunning : ∀ (i : Nat), s.lock = some i ↔ ∃ t : Task, s.tasks[i]? = some t ∧ t.pc = .running
  lockValue : s.lock.isSome → s.value = true
  aliveValue : s.alive = true → s.value = true ∧ s.dropPending = false
  deadPending : s.alive = false → s.dropPending = true ∨ s.value = false
  pendingValue : s.dropPending = true → s.value = true ∧ s.alive = false
  destroyedCount : s.destroyed = if s.value then 0 else 1
  deadNoFutures : s.alive = false → noFutures s = true
  delivered : ∀ (i : Nat) (t : Task) (r : Res), s.tasks[i]? = some t → t.delivered = some r → t.pc = .done r
  notAborted : ∀ (i : Nat) (t : Task), s.tasks[i]? = some t → t.pc ≠ .done .aborted
  doneOk : ∀ (i : Nat) (t : Task), s.tasks[i]? = some t → t.pc = .done .ok → t.beh = .ok ∧ Ev.finish i false ∈ s.log
  finished : ∀ (i : Nat) (p : Bool), Ev.finish i p ∈ s.log →
    ∃ t : Task, s.tasks[i]? = some t ∧ t.pc = .done (if p then .panic else .ok)
  panicked : (∃ i, Ev.finish i true ∈ s.log) → s.poisoned = true
  poisonedWhy : s.poisoned = true → ∃ i, Ev.finish i true ∈ s.log
  scanned : ∃ es, s.log = .create .blocking :: es ∧ scan .idle es = some (phaseOf s)

theorem scan_append (p : Phase) (es : List Ev) (e : Ev) (q r : Phase)
    (h : scan p es = some q) (hn : q.next e = some r) : scan p (es ++ [e]) = some r := by
  induction es generalizing p with
  | nil => simp [scan] at h; subst h; simp [scan, hn]
  | cons x xs ih =>
    simp only [scan, List.cons_append] at h ⊢
    cases hx : p.next x with
    | none => simp [hx] at h
    | some p' => simp [hx] at h ⊢; exact ih p' h

theorem init_inv : SInv init := by
  refine { lockRunning := ?_, lockValue := ?_, aliveValue := ?_, deadPending := ?_, pendingValue := ?_,
           destroyedCount := ?_, deadNoFutures := ?_, delivered := ?_, notAborted := ?_, doneOk := ?_, finished := ?fin,
           panicked := ?_, poisonedWhy := ?_, scanned := ?_ } <;> simp [init, noFutures, phaseOf, scan]

theorem all_set {α : Type} (l : List α) (p : α → Bool) (i : Nat) (x : α) (h : l.all p = true) (hx : p x = true) :
    (l.set i x).all p = true := by
  rw [List.all_eq_true] at h ⊢
  intro y hy
  rcases List.mem_or_eq_of_mem_set hy with h1 | h1
  · exact h y h1
  · subst h1; exact hx

theorem getElem?_append_one {α : Type} (l : List α) (x : α) (i : Nat) (y : α)
    (h : (l ++ [x])[i]? = some y) : l[i]? = some y ∨ (i = l.length ∧ y = x) := by
  by_cases hi : i < l.length
  · left; rwa [List.getElem?_append_left hi] at h
  · right
    rw [List.getElem?_append_right (by omega)] at h
    cases hk : i - l.length with
    | zero => simp [hk] at h; exact ⟨by omega, h.symm⟩
    | succ k => simp [hk] at h

theorem getElem?_append_mono {α : Type} (l : List α) (x : α) (i : Nat) (y : α)
    (h : l[i]? = some y) : (l ++ [x])[i]? = some y := by
  have hi : i < l.length := by
    rcases List.getElem?_eq_some_iff.mp h with ⟨hi, _⟩; exact hi
  rwa [List.getElem?_append_left hi]

theorem call_inv {s : State} (b : Beh) (h : SInv s) (ha : s.alive = true) :
    SInv { s with tasks := s.tasks ++ [{ beh := b }] } := by
  obtain ⟨es, hl, hsc⟩ := h.scanned
  refine { lockRunning := ?_, lockValue := h.lockValue, aliveValue := h.aliveValue, deadPending := h.deadPending,
           pendingValue := h.pendingValue, destroyedCount := h.destroyedCount, deadNoFutures := ?_,
           delivered := ?_, notAborted := ?_, doneOk := ?_, finished := ?fin,
           panicked := h.panicked, poisonedWhy := h.poisonedWhy, scanned := ⟨es, hl, hsc⟩ }
  case fin =>
    intro i p hp
    obtain ⟨t, ht, hd⟩ := h.finished i p hp
    exact ⟨t, getElem?_append_mono _ _ _ _ ht, hd⟩
  · intro i
    rw [h.lockRunning i]
    constructor
    · rintro ⟨t, ht, hr⟩; exact ⟨t, getElem?_append_mono _ _ _ _ ht, hr⟩
    · rintro ⟨t, ht, hr⟩
      rcases getElem?_append_one _ _ _ _ ht with h1 | ⟨_, h1⟩
      · exact ⟨t, h1, hr⟩
      · subst h1; simp at hr
  · intro hd; simp [ha] at hd
  · intro i t r ht hd
    rcases getElem?_append_one _ _ _ _ ht with h1 | ⟨_, h1⟩
    · exact h.delivered i t r h1 hd
    · subst h1; simp at hd
  · intro i t ht
    rcases getElem?_append_one _ _ _ _ ht with h1 | ⟨_, h1⟩
    · exact h.notAborted i t h1
    · subst h1; simp
  · intro i t ht hp
    rcases getElem?_append_one _ _ _ _ ht with h1 | ⟨_, h1⟩
    · exact h.doneOk i t h1 hp
    · subst h1; simp at hp

theorem forall_set {α : Type} (l : List α) (i : Nat) (x : α) (P : Nat → α → Prop)
    (h : ∀ j u, l[j]? = some u → P j u) (hx : P i x) :
    ∀ j u, (l.set i x)[j]? = some u → P j u := by
  intro j u hj
  rw [List.getElem?_set] at hj
  split at hj
  · rename_i hij
    subst hij
    split at hj
    · simp at hj; subst hj; exact hx
    · simp at hj
  · exact h j u hj

theorem running_set (l : List Task) (i : Nat) (x t : Task) (hi : l[i]? = some t) (j : Nat) :
    (∃ u : Task, (l.set i x)[j]? = some u ∧ u.pc = .running) ↔
      (j = i ∧ x.pc = .running) ∨ (j ≠ i ∧ ∃ u : Task, l[j]? = some u ∧ u.pc = .running) := by
  have hlt : i < l.length := (List.getElem?_eq_some_iff.mp hi).1
  rw [List.getElem?_set]
  by_cases hij : i = j
  · subst hij; simp [hlt]
  · have hji : ¬ j = i := fun h => hij h.symm
    simp [hij, hji]

theorem exists_set (l : List Task) (i : Nat) (x t : Task) (hi : l[i]? = some t) (Q : Task → Prop) (j : Nat)
    (h : ∃ u : Task, l[j]? = some u ∧ Q u) (hx : j = i → Q t → Q x) :
    ∃ u : Task, (l.set i x)[j]? = some u ∧ Q u := by
  have hlt : i < l.length := (List.getElem?_eq_some_iff.mp hi).1
  obtain ⟨u, hu, hq⟩ := h
  rw [List.getElem?_set]
  by_cases hij : i = j
  · subst hij
    rw [hi] at hu; cases hu
    exact ⟨x, by simp [hlt], hx rfl hq⟩
  · exact ⟨u, by simp [hij, hu], hq⟩

/-- an update of task `i` that touches neither the mutex nor the history -/
theorem update_inv {s : State} (h : SInv s) (i : Nat) (t t' : Task) (ht : s.tasks[i]? = some t)
    (hpc : t'.pc = .running ↔ t.pc = .running)
    (hfut : s.alive = false → (t'.cancelled || t'.delivered.isSome) = true)
    (hdel : ∀ r, t'.delivered = some r → t'.pc = .done r)
    (hna : t'.pc ≠ .done .aborted)
    (hok : t'.pc = .done .ok → t'.beh = .ok ∧ Ev.finish i false ∈ s.log)
    (hdone : ∀ r, t.pc = .done r → t'.pc = .done r) :
    SInv (setTask s i t') := by
  obtain ⟨es, hl, hsc⟩ := h.scanned
  refine { lockRunning := ?_, lockValue := h.lockValue, aliveValue := h.aliveValue, deadPending := h.deadPending,
           pendingValue := h.pendingValue, destroyedCount := h.destroyedCount, deadNoFutures := ?_,
           delivered := ?_, notAborted := ?_, doneOk := ?_, finished := ?fin,
           panicked := h.panicked, poisonedWhy := h.poisonedWhy, scanned := ⟨es, hl, hsc⟩ }
  case fin =>
    intro j p hp
    exact exists_set s.tasks i t' t ht (fun u => u.pc = .done (if p then .panic else .ok)) j
      (h.finished j p hp) (fun _ hq => hdone _ hq)
  · intro j
    show s.lock = some j ↔ ∃ u : Task, (s.tasks.set i t')[j]? = some u ∧ u.pc = .running
    rw [running_set _ _ _ _ ht, h.lockRunning j]
    constructor
    · rintro ⟨u, hu, hr⟩
      by_cases hji : j = i
      · subst hji; rw [ht] at hu; cases hu; exact Or.inl ⟨rfl, hpc.mpr hr⟩
      · exact Or.inr ⟨hji, u, hu, hr⟩
    · rintro (⟨rfl, hr⟩ | ⟨_, u, hu, hr⟩)
      · exact ⟨t, ht, hpc.mp hr⟩
      · exact ⟨u, hu, hr⟩
  · intro hd
    exact all_set _ _ _ _ (h.deadNoFutures hd) (hfut hd)
  · intro j u r
    exact forall_set s.tasks i t' (fun j u => u.delivered = some r → u.pc = .done r)
      (fun j u hu => h.delivered j u r hu) (hdel r) j u
  · exact forall_set s.tasks i t' (fun _ u => u.pc ≠ .done .aborted) (fun j u hu => h.notAborted j u hu) hna
  · exact forall_set s.tasks i t' (fun j u => u.pc = .done .ok → u.beh = .ok ∧ Ev.finish j false ∈ s.log)
      (fun j u hu => h.doneOk j u hu) hok

theorem task_mem {s : State} {i : Nat} {t : Task} (ht : s.tasks[i]? = some t) : t ∈ s.tasks :=
  List.mem_of_getElem? (l := s.tasks) (i := i) ht

theorem fut_of_dead {s : State} (h : SInv s) {i : Nat} {t : Task} (ht : s.tasks[i]? = some t)
    (hd : s.alive = false) : (t.cancelled || t.delivered.isSome) = true := by
  have := h.deadNoFutures hd
  rw [noFutures, List.all_eq_true] at this
  exact this t (task_mem ht)

theorem begin_inv {s : State} (h : SInv s) (i : Nat) (t : Task) (ht : s.tasks[i]? = some t)
    (hpc : t.pc = .spawned) (hl : s.lock = none) (hp : s.poisoned = false) (hv : s.value = true) :
    SInv { setTask s i { t with pc := .running } with lock := some i, log := s.log ++ [.begin i .blocking] } := by
  obtain ⟨es, hlog, hsc⟩ := h.scanned
  have hno : ∀ j : Nat, ¬ ∃ u : Task, s.tasks[j]? = some u ∧ u.pc = .running := by
    intro j hj; have := (h.lockRunning j).mpr hj; simp [hl] at this
  refine { lockRunning := ?_, lockValue := ?_, aliveValue := h.aliveValue, deadPending := h.deadPending,
           pendingValue := h.pendingValue, destroyedCount := h.destroyedCount, deadNoFutures := ?_,
           delivered := ?_, notAborted := ?_, doneOk := ?_, finished := ?fin,
           panicked := ?_, poisonedWhy := ?_, scanned := ?_ }
  case fin =>
    intro j p hp
    simp at hp
    refine exists_set s.tasks i _ t ht (fun u => u.pc = .done (if p then .panic else .ok)) j
      (h.finished j p hp) ?_
    intro _ hq; rw [hpc] at hq; cases hq
  · intro j
    show some i = some j ↔ ∃ u : Task, (s.tasks.set i { t with pc := .running })[j]? = some u ∧ u.pc = .running
    rw [running_set _ _ _ _ ht]
    constructor
    · intro hij; cases hij; exact Or.inl ⟨rfl, rfl⟩
    · rintro (⟨rfl, _⟩ | ⟨_, hu⟩)
      · rfl
      · exact absurd hu (hno j)
  · intro _; exact hv
  · intro hd
    exact all_set _ _ _ _ (h.deadNoFutures hd) (fut_of_dead h (t := t) ht hd)
  · intro j u r
    refine forall_set s.tasks i _ (fun j u => u.delivered = some r → u.pc = .done r)
      (fun j u hu => h.delivered j u r hu) ?_ j u
    intro hd
    have := h.delivered i t r ht hd
    rw [hpc] at this; cases this
  · exact forall_set s.tasks i _ (fun _ u => u.pc ≠ .done .aborted) (fun j u hu => h.notAborted j u hu)
      (by simp)
  · exact forall_set s.tasks i _ (fun j u => u.pc = .done .ok → u.beh = .ok ∧ Ev.finish j false ∈ s.log ++ [Ev.begin i .blocking])
      (fun j u hu hk => ⟨(h.doneOk j u hu hk).1, List.mem_append_left _ (h.doneOk j u hu hk).2⟩) (by simp)
  · rintro ⟨j, hj⟩
    apply h.panicked
    simp at hj
    exact ⟨j, hj⟩
  · intro hq
    obtain ⟨j, hj⟩ := h.poisonedWhy hq
    exact ⟨j, List.mem_append_left _ hj⟩
  · refine ⟨es ++ [.begin i .blocking], by simp [hlog], ?_⟩
    apply scan_append _ _ _ _ _ hsc
    have hv' : (setTask s i { t with pc := .running }).value = true := hv
    simp [phaseOf, hv, hv', hl, Phase.next]

theorem finish_inv {s : State} (h : SInv s) (i : Nat) (t : Task) (ht : s.tasks[i]? = some t)
    (hpc : t.pc = .running) (hl : s.lock = some i) (r : Res) (p : Bool)
    (hr : (r = .ok ∧ t.beh = .ok ∧ p = false) ∨ (r = .panic ∧ p = true)) :
    SInv { setTask s i { t with pc := .done r } with
            lock := none, poisoned := s.poisoned || p, log := s.log ++ [.finish i p] } := by
  obtain ⟨es, hlog, hsc⟩ := h.scanned
  have hv : s.value = true := h.lockValue (by simp [hl])
  refine { lockRunning := ?_, lockValue := ?_, aliveValue := h.aliveValue, deadPending := h.deadPending,
           pendingValue := h.pendingValue, destroyedCount := h.destroyedCount, deadNoFutures := ?_,
           delivered := ?_, notAborted := ?_, doneOk := ?_, finished := ?fin,
           panicked := ?_, poisonedWhy := ?_, scanned := ?_ }
  case fin =>
    intro j q hq
    simp at hq
    rcases hq with hq | ⟨rfl, rfl⟩
    · refine exists_set s.tasks i _ t ht (fun u => u.pc = .done (if q then .panic else .ok)) j
        (h.finished j q hq) ?_
      intro _ hk; rw [hpc] at hk; cases hk
    · have hlt : j < s.tasks.length := (List.getElem?_eq_some_iff.mp ht).1
      refine ⟨{ t with pc := .done r }, ?_, ?_⟩
      · show (s.tasks.set j _)[j]? = _
        simp [hlt]
      · rcases hr with ⟨rfl, _, rfl⟩ | ⟨rfl, rfl⟩ <;> rfl
  · intro j
    show none = some j ↔ ∃ u : Task, (s.tasks.set i { t with pc := .done r })[j]? = some u ∧ u.pc = .running
    rw [running_set _ _ _ _ ht]
    constructor
    · intro hij; cases hij
    · rintro (⟨_, hk⟩ | ⟨hji, hu⟩)
      · cases hk
      · have := (h.lockRunning j).mpr hu
        rw [hl] at this; cases this; exact absurd rfl hji
  · intro hk; cases hk
  · intro hd
    exact all_set _ _ _ _ (h.deadNoFutures hd) (fut_of_dead h (t := t) ht hd)
  · intro j u r'
    refine forall_set s.tasks i _ (fun j u => u.delivered = some r' → u.pc = .done r')
      (fun j u hu => h.delivered j u r' hu) ?_ j u
    intro hd
    have := h.delivered i t r' ht hd
    rw [hpc] at this; cases this
  · refine forall_set s.tasks i _ (fun _ u => u.pc ≠ .done .aborted) (fun j u hu => h.notAborted j u hu) ?_
    rcases hr with ⟨rfl, _⟩ | ⟨rfl, _⟩ <;> simp
  · refine forall_set s.tasks i _ (fun j u => u.pc = .done .ok → u.beh = .ok ∧ Ev.finish j false ∈ s.log ++ [Ev.finish i p])
      (fun j u hu hk => ⟨(h.doneOk j u hu hk).1, List.mem_append_left _ (h.doneOk j u hu hk).2⟩) ?_
    intro hk
    rcases hr with ⟨rfl, hb, rfl⟩ | ⟨rfl, _⟩
    · exact ⟨hb, by simp⟩
    · simp at hk
  · rintro ⟨j, hj⟩
    simp at hj
    rcases hj with hj | ⟨_, rfl⟩
    · simp [h.panicked ⟨j, hj⟩]
    · simp
  · intro hq
    simp at hq
    rcases hq with hq | hq
    · obtain ⟨j, hj⟩ := h.poisonedWhy hq
      exact ⟨j, List.mem_append_left _ hj⟩
    · subst hq; exact ⟨i, by simp⟩
  · refine ⟨es ++ [.finish i p], by simp [hlog], ?_⟩
    apply scan_append _ _ _ _ _ hsc
    have hv' : (setTask s i { t with pc := .done r }).value = true := hv
    simp [phaseOf, hv, hv', hl, Phase.next]

theorem dropw_inv {s : State} (h : SInv s) (ha : s.alive = true) (hf : noFutures s = true) :
    SInv { s with alive := false, dropPending := true } := by
  obtain ⟨es, hlog, hsc⟩ := h.scanned
  exact { lockRunning := h.lockRunning, lockValue := h.lockValue,
          aliveValue := (by intro hk; cases hk),
          deadPending := fun _ => Or.inl rfl,
          pendingValue := fun _ => ⟨(h.aliveValue ha).1, rfl⟩,
          destroyedCount := h.destroyedCount, deadNoFutures := fun _ => hf,
          delivered := h.delivered, notAborted := h.notAborted, doneOk := h.doneOk, finished := h.finished,
          panicked := h.panicked, poisonedWhy := h.poisonedWhy, scanned := ⟨es, hlog, hsc⟩ }

theorem destroy_inv {s : State} (h : SInv s) (hp : s.dropPending = true) (hl : s.lock = none) :
    SInv { s with dropPending := false, destroyed := s.destroyed + 1, value := false,
                  log := s.log ++ [.destroy .blocking] } := by
  obtain ⟨es, hlog, hsc⟩ := h.scanned
  obtain ⟨hv, ha⟩ := h.pendingValue hp
  refine { lockRunning := h.lockRunning, lockValue := ?_, aliveValue := ?_, deadPending := fun _ => Or.inr rfl,
           pendingValue := ?_, destroyedCount := ?_, deadNoFutures := h.deadNoFutures,
           delivered := h.delivered, notAborted := h.notAborted, doneOk := ?_, finished := ?fin,
           panicked := ?_, poisonedWhy := ?_, scanned := ?_ }
  case fin =>
    intro j p hp
    simp at hp
    exact h.finished j p hp
  · intro hk; simp [hl] at hk
  · intro hk; simp [ha] at hk
  · intro hk; cases hk
  · have := h.destroyedCount; simp [hv] at this; simp [this]
  · intro j u hu hk
    exact ⟨(h.doneOk j u hu hk).1, List.mem_append_left _ (h.doneOk j u hu hk).2⟩
  · rintro ⟨j, hj⟩
    apply h.panicked
    simp at hj
    exact ⟨j, hj⟩
  · intro hq
    obtain ⟨j, hj⟩ := h.poisonedWhy hq
    exact ⟨j, List.mem_append_left _ hj⟩
  · refine ⟨es ++ [.destroy .blocking], by simp [hlog], ?_⟩
    apply scan_append _ _ _ _ _ hsc
    simp [phaseOf, hv, hl, Phase.next]

theorem step_inv {s s' : State} {a : Action} (h : SInv s) (hs : step s a = some s') : SInv s' := by
  cases a with
  | call b =>
    simp only [step] at hs
    split at hs
    · rename_i ha; simp at hs; subst hs; exact call_inv b h ha
    · simp at hs
  | «begin» i =>
    simp only [step] at hs
    split at hs
    · rename_i t ht
      split at hs
      · rename_i hc; simp at hs; subst hs
        exact begin_inv h i t ht hc.1 hc.2.1 hc.2.2.1 hc.2.2.2
      · simp at hs
    · simp at hs
  | finish i =>
    simp only [step] at hs
    split at hs
    · rename_i t ht
      split at hs
      · rename_i hc
        split at hs
        · rename_i hb; simp at hs; subst hs
          have := finish_inv h i t ht hc.1 hc.2 .ok false (Or.inl ⟨rfl, hb, rfl⟩)
          simp only [Bool.or_false] at this
          exact this
        · simp at hs; subst hs
          have := finish_inv h i t ht hc.1 hc.2 .panic true (Or.inr ⟨rfl, rfl⟩)
          simp only [Bool.or_true] at this
          exact this
      · simp at hs
    · simp at hs
  | cancel i =>
    simp only [step] at hs
    split at hs
    · rename_i t ht
      split at hs
      · simp at hs; subst hs
        apply update_inv h i t { t with cancelled := true } ht (by simp) (by simp)
        · intro r hr; exact h.delivered i t r ht hr
        · exact h.notAborted i t ht
        · exact h.doneOk i t ht
        · intro r hr; exact hr
      · simp at hs
    · simp at hs
  | result i r =>
    simp only [step] at hs
    split at hs
    · rename_i t ht
      split at hs
      · simp at hs
      · rename_i hnc
        have hnc1 : t.cancelled = false := by
          cases hc : t.cancelled with
          | true => exact absurd (Or.inl hc) hnc
          | false => rfl
        split at hs
        · rename_i r' hpc
          split at hs
          · rename_i hrr; simp at hs; subst hs; subst hrr
            apply update_inv h i t { t with delivered := some r } ht (by simp) ?_ ?_ (h.notAborted i t ht) (h.doneOk i t ht)
              (fun _ hr => hr)
            · intro _; simp
            · intro r2 hr2; simp at hr2; subst hr2; exact hpc
          · simp at hs
        · rename_i hpc
          split at hs
          · rename_i hso; simp at hs; subst hs
            -- never entered its closure: poisoned (→ Panic) or value gone (→ Aborted, unreachable)
            have halive : s.alive = true := by
              cases ha : s.alive with
              | true => rfl
              | false =>
                have := fut_of_dead h ht ha
                simp [hnc1] at this
                exact absurd (Or.inr this) hnc
            have hv := (h.aliveValue halive).1
            have hr : r = .panic := by
              simp only [spawnedOutcome, hv] at hso
              split at hso <;> simp at hso
              exact hso.symm
            subst hr
            apply update_inv h i t { t with pc := .done .panic, delivered := some .panic } ht (by simp [hpc])
              (by intro _; simp) (by simp) (by simp) (by simp) (by intro r hr; rw [hpc] at hr; cases hr)
          · simp at hs
        · simp at hs
    · simp at hs
  | dropw =>
    simp only [step] at hs
    split at hs
    · rename_i hc; simp at hs; subst hs; exact dropw_inv h hc.1 hc.2
    · simp at hs
  | destroy =>
    simp only [step] at hs
    split at hs
    · rename_i hc
      obtain ⟨hv, _⟩ := h.pendingValue hc.1
      simp [hv] at hs; subst hs
      exact destroy_inv h hc.1 hc.2
    · simp at hs

theorem run?_inv {s s' : State} {acts : List Action} (h : SInv s) (hr : run? s acts = some s') : SInv s' := by
  induction acts generalizing s with
  | nil => simp [run?] at hr; subst hr; exact h
  | cons a as ih =>
    simp only [run?] at hr
    cases hs : step s a with
    | none => simp [hs] at hr
    | some s1 => simp [hs] at hr; exact ih (step_inv h hs) hr

theorem reach_inv {s : State} {acts : List Action} (hr : run? init acts = some s) : SInv s :=
  run?_inv init_inv hr

end Sy
end DeadpoolVerif
