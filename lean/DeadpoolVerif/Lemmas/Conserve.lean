/-
Object conservation: every object id ever allocated is in exactly one place — idle, in a
caller's hands, in the hands of an operation, or gone (destroyed / taken / removed by
retain) — and the ids that are gone are exactly those `Manager::detach` was called for,
once each.  Stated by counting, so that every transition is linear arithmetic.
-/
import DeadpoolVerif.Lemmas.Frame

namespace DeadpoolVerif

/-- indicators (the `Decidable` instances are hidden inside, so that terms are syntactically
canonical atoms for `omega`) -/
def eqInd (a b : Nat) : Nat := if a = b then 1 else 0
def ltInd (a b : Nat) : Nat := if a < b then 1 else 0

theorem eqInd_le_one (a b : Nat) : eqInd a b ≤ 1 := by unfold eqInd; split <;> omega
theorem ltInd_le_one (a b : Nat) : ltInd a b ≤ 1 := by unfold ltInd; split <;> omega

/-- occurrences of `id` in a list of objects -/
def idCnt (id : Nat) (l : List Obj) : Nat := sumW (fun o => eqInd o.id id) l

/-- ids that leave the pool for good with this event -/
def Ev.goneIds : Ev → List Nat
  | .destroy _ id => [id]
  | .taken _ id => [id]
  | .retained _ _ removed => removed
  | _ => []

def Ev.detachIds : Ev → List Nat
  | .detach _ id => [id]
  | _ => []

def natCnt (id : Nat) (l : List Nat) : Nat := sumW (fun x => eqInd x id) l

def goneCnt (id : Nat) (log : List Ev) : Nat := sumW (fun e => natCnt id e.goneIds) log
def detachCnt (id : Nat) (log : List Ev) : Nat := sumW (fun e => natCnt id e.detachIds) log

def Op.heldCnt (id : Nat) (op : Op) : Nat :=
  match op.held with
  | some o => eqInd o.id id
  | none => 0

structure Conserve (s : State) : Prop where
  /-- an allocated id is in exactly one place; an unallocated id is nowhere -/
  place : ∀ id, ltInd id s.nextId =
    idCnt id s.idle + idCnt id s.out + sumW (Op.heldCnt id) s.ops + goneCnt id s.log
  /-- `detach` was called exactly once for every object that is gone, never for another -/
  detach : ∀ id, detachCnt id s.log = goneCnt id s.log

theorem Conserve.init (cfg : Cfg) : Conserve (init cfg) := by
  constructor <;> intro id <;> simp [DeadpoolVerif.init, idCnt, goneCnt, detachCnt, ltInd]

@[simp] theorem idCnt_nil (id : Nat) : idCnt id [] = 0 := rfl
@[simp] theorem idCnt_cons (id : Nat) (o : Obj) (l : List Obj) :
    idCnt id (o :: l) = eqInd o.id id + idCnt id l := by simp [idCnt]
@[simp] theorem idCnt_append (id : Nat) (l₁ l₂ : List Obj) :
    idCnt id (l₁ ++ l₂) = idCnt id l₁ + idCnt id l₂ := by simp [idCnt]
@[simp] theorem goneCnt_append (id : Nat) (l₁ l₂ : List Ev) :
    goneCnt id (l₁ ++ l₂) = goneCnt id l₁ + goneCnt id l₂ := by simp [goneCnt]
@[simp] theorem detachCnt_append (id : Nat) (l₁ l₂ : List Ev) :
    detachCnt id (l₁ ++ l₂) = detachCnt id l₁ + detachCnt id l₂ := by simp [detachCnt]
@[simp] theorem goneCnt_nil (id : Nat) : goneCnt id [] = 0 := rfl
@[simp] theorem detachCnt_nil (id : Nat) : detachCnt id [] = 0 := rfl
@[simp] theorem goneCnt_cons (id : Nat) (e : Ev) (l : List Ev) :
    goneCnt id (e :: l) = natCnt id e.goneIds + goneCnt id l := by simp [goneCnt]
@[simp] theorem detachCnt_cons (id : Nat) (e : Ev) (l : List Ev) :
    detachCnt id (e :: l) = natCnt id e.detachIds + detachCnt id l := by simp [detachCnt]
@[simp] theorem natCnt_nil (id : Nat) : natCnt id [] = 0 := rfl
@[simp] theorem natCnt_cons (id x : Nat) (l : List Nat) :
    natCnt id (x :: l) = eqInd x id + natCnt id l := by simp [natCnt]

theorem idCnt_erase {l : List Obj} {o : Obj} (h : o ∈ l) (id : Nat) :
    idCnt id (l.erase o) + eqInd o.id id = idCnt id l := by
  induction l with
  | nil => simp at h
  | cons a l ih =>
    by_cases e : a = o
    · subst e; simp only [List.erase_cons_head, idCnt_cons]; omega
    · have hm : o ∈ l := by
        rcases List.mem_cons.mp h with h1 | h1
        · exact absurd h1.symm e
        · exact h1
      have := ih hm
      rw [List.erase_cons_tail (by simpa using e)]
      simp only [idCnt_cons]
      omega

theorem idCnt_popIdle {m : QueueMode} {idle rest : List Obj} {o : Obj}
    (h : popIdle m idle = some (o, rest)) (id : Nat) :
    idCnt id rest + eqInd o.id id = idCnt id idle := by
  unfold popIdle at h
  split at h
  · split at h
    · simp only [Option.some.injEq, Prod.mk.injEq] at h
      obtain ⟨rfl, rfl⟩ := h
      simp only [idCnt_cons]; omega
    · simp at h
  · split at h
    · rename_i heq
      simp only [Option.some.injEq, Prod.mk.injEq] at h
      obtain ⟨rfl, rfl⟩ := h
      obtain ⟨ys, hys⟩ := List.getLast?_eq_some_iff.mp heq
      subst hys
      simp only [List.dropLast_concat, idCnt_append, idCnt_cons, idCnt_nil]
      omega
    · simp at h

theorem idCnt_retain (keep : List Bool) (k : Nat) (l : List Obj) (id : Nat) :
    idCnt id (retainKept keep k l) + idCnt id (retainRemoved keep k l) = idCnt id l := by
  induction l generalizing k with
  | nil => simp [retainKept, retainRemoved]
  | cons o rest ih =>
    simp only [retainKept, retainRemoved]
    have := ih (k + 1)
    split <;> simp only [idCnt_cons] <;> omega

theorem retainEvs_counts (i : Nat) (keep : List Bool) (k : Nat) (l : List Obj) (id : Nat) :
    detachCnt id (retainEvs i keep k l) = idCnt id (retainRemoved keep k l) ∧
    goneCnt id (retainEvs i keep k l) = 0 := by
  induction l generalizing k with
  | nil => simp [retainEvs, retainRemoved]
  | cons o rest ih =>
    simp only [retainEvs, retainRemoved]
    have := ih (k + 1)
    split <;> simp [Ev.detachIds, Ev.goneIds, this.1, this.2]

theorem drainEvs_counts (i : Nat) (l : List Obj) (id : Nat) :
    detachCnt id (drainEvs i l) = idCnt id l ∧ goneCnt id (drainEvs i l) = idCnt id l := by
  induction l with
  | nil => simp [drainEvs]
  | cons o rest ih => simp [drainEvs, Ev.detachIds, Ev.goneIds, ih.1, ih.2]

theorem natCnt_map_id (id : Nat) (l : List Obj) : natCnt id (l.map Obj.id) = idCnt id l := by
  induction l with
  | nil => rfl
  | cons o l ih => simp [ih]

theorem ltInd_succ (id n : Nat) : ltInd id (n + 1) = ltInd id n + eqInd n id := by
  unfold ltInd eqInd
  by_cases h1 : id < n
  · have : ¬ n = id := by omega
    have h2 : id < n + 1 := by omega
    simp [h1, this, h2]
  · by_cases h2 : n = id
    · have : id < n + 1 := by omega
      simp [h1, h2, this]
    · have : ¬ id < n + 1 := by omega
      simp [h1, h2, this]

end DeadpoolVerif
