/-
Unmanaged pool: every object that was ever added is in exactly one place — waiting in the
queue, in a caller's hands, handed back to a caller for good, in the hands of an operation,
or dropped by the pool (which happens only after close, see `U.Acct.open_`).
-/
import DeadpoolVerif.Lemmas.UAcctStep
import DeadpoolVerif.Lemmas.Conserve

namespace DeadpoolVerif
namespace U

/-- the object an operation has in hand -/
def Op.heldId : Op → Option Nat
  | .add id _ .start | .add id _ .queued | .add id _ .size | .add id _ .push => some id
  | .get _ _ _ (.avail id) => some id
  | .ret id .push => some id
  | .take id _ _ => some id
  | _ => none

def Op.heldCnt (id : Nat) (op : Op) : Nat :=
  match op.heldId with
  | some x => eqInd x id
  | none => 0

structure Conserve (s : State) : Prop where
  place : ∀ id, ltInd id s.nextId =
    natCnt id s.queue + natCnt id s.hands + natCnt id s.returned + natCnt id s.dropped +
    sumW (Op.heldCnt id) s.ops

theorem natCnt_append (id : Nat) (l₁ l₂ : List Nat) :
    natCnt id (l₁ ++ l₂) = natCnt id l₁ + natCnt id l₂ := by simp [natCnt]

theorem natCnt_range (id n : Nat) : natCnt id (List.range n) = ltInd id n := by
  induction n with
  | zero => simp [natCnt, ltInd]
  | succ n ih =>
    rw [List.range_succ, natCnt_append, ih, ltInd_succ]
    simp [natCnt_cons]

theorem Conserve.init (cfg : Cfg) : Conserve (init cfg) := by
  constructor
  intro id
  simp [U.init, natCnt_range]

theorem natCnt_erase {l : List Nat} {a : Nat} (h : a ∈ l) (id : Nat) :
    natCnt id (l.erase a) + eqInd a id = natCnt id l := by
  induction l with
  | nil => simp at h
  | cons b l ih =>
    by_cases e : b = a
    · subst e; simp only [List.erase_cons_head, natCnt_cons]; omega
    · have hm : a ∈ l := by
        rcases List.mem_cons.mp h with h1 | h1
        · exact absurd h1.symm e
        · exact h1
      have := ih hm
      rw [List.erase_cons_tail (by simpa using e)]
      simp only [natCnt_cons]
      omega

theorem natCnt_dropLast {l : List Nat} {x : Nat} (h : l.getLast? = some x) (id : Nat) :
    natCnt id l.dropLast + eqInd x id = natCnt id l := by
  obtain ⟨ys, hys⟩ := List.getLast?_eq_some_iff.mp h
  subst hys
  simp only [List.dropLast_concat, natCnt_append, natCnt_cons, natCnt_nil]
  omega

macro "uc_simp" h:ident : tactic => `(tactic|
  simp only [State.setOp, State.emit, finishGet, failGet, clear, sumW_set' _ _ $h, Op.heldCnt, Op.heldId,
    natCnt_append, natCnt_cons, natCnt_nil, Nat.add_zero, Nat.sub_zero, Nat.zero_add, Bool.false_eq_true,
    ↓reduceIte] at *)

macro "uc_leaf" c:ident h:ident : tactic => `(tactic| (
  refine ⟨fun id => ?_⟩
  have p := ($c).place id
  have b := sumW_mem_le (Op.heldCnt id) _ _ _ $h
  try (have g1 := natCnt_dropLast ‹List.getLast? _ = some _› id)
  first
    | (uc_simp $h <;> omega)
    | (uc_simp $h; split <;> uc_simp $h <;> omega)))

theorem stepOp_conserve {s s' : State} {i : Nat} {oc : Outcome} (c : Conserve s)
    (hs : stepOp s i oc = some s') : Conserve s' := by
  unfold stepOp at hs
  split at hs
  · simp at hs
  · rename_i op h
    cases op with
    | get w t r pc =>
      simp only at hs
      cases t <;> cases r <;> cases pc <;> cases oc <;> simp only [stepGet] at hs
      all_goals first | (simp at hs; done) | skip
      all_goals repeat' split at hs
      all_goals first | (simp at hs; done) | skip
      all_goals try (exact absurd trivial ‹¬True›)
      all_goals (simp only [Option.some.injEq] at hs; subst hs)
      all_goals uc_leaf c h
    | add id t pc =>
      simp only at hs
      cases t <;> cases pc <;> cases oc <;> simp only [stepAdd] at hs
      all_goals first | (simp at hs; done) | skip
      all_goals repeat' split at hs
      all_goals first | (simp at hs; done) | skip
      all_goals (simp only [Option.some.injEq] at hs; subst hs)
      all_goals uc_leaf c h
    | ret id pc =>
      simp only at hs
      split at hs
      · cases pc <;> simp only [stepRet] at hs
        all_goals repeat' split at hs
        all_goals (simp only [Option.some.injEq] at hs; subst hs)
        all_goals uc_leaf c h
      · simp at hs
    | take id pc v =>
      simp only at hs
      split at hs
      · cases pc <;> simp only [stepTake] at hs
        all_goals (simp only [Option.some.injEq] at hs; subst hs)
        all_goals uc_leaf c h
      · simp at hs
    | close pc =>
      simp only at hs
      split at hs
      · cases pc <;> simp only [stepClose] at hs
        all_goals (simp only [Option.some.injEq] at hs; subst hs)
        all_goals uc_leaf c h
      · simp at hs
    | status =>
      simp only at hs
      split at hs
      · simp only [Option.some.injEq] at hs
        subst hs
        uc_leaf c h
      · simp at hs
    | done => simp at hs

theorem startOp_conserve {s s' : State} {sp : Spec} (c : Conserve s)
    (hs : startOp s sp = some s') : Conserve s' := by
  cases sp <;> simp only [startOp] at hs
  all_goals repeat' split at hs
  all_goals first | (simp at hs; done) | skip
  all_goals (simp only [Option.some.injEq] at hs; subst hs)
  all_goals (
    refine ⟨fun id => ?_⟩
    have p := c.place id
    have hsucc := ltInd_succ id s.nextId
    try (have e1 := natCnt_erase ‹_ ∈ s.hands› id)
    simp only [sumW_append, sumW_cons, sumW_nil, Op.heldCnt, Op.heldId] at *
    omega)

theorem step_conserve {s s' : State} {act : Action} (c : Conserve s) (hs : step s act = some s') :
    Conserve s' := by
  cases act with
  | start sp => exact startOp_conserve c hs
  | step i oc => exact stepOp_conserve c hs

theorem run_conserve (cfg : Cfg) (acts : List Action) : Conserve (run (init cfg) acts) := by
  suffices h : ∀ s, Conserve s → Conserve (run s acts) from h _ (Conserve.init cfg)
  induction acts with
  | nil => intro s a; exact a
  | cons act acts ih =>
    intro s a
    rw [run_cons]
    apply ih
    cases hst : step s act with
    | none => exact a
    | some s1 => exact step_conserve a hst

end U
end DeadpoolVerif
