/-
Lemmas about the statement-cache model and the registry.
-/
import DeadpoolVerif.Model.PgPool
import DeadpoolVerif.Lemmas.Conserve

namespace DeadpoolVerif
namespace PgP

theorem lookup_none_iff (k : Key) (l : List (Key × Stmt)) : lookup k l = none ↔ k ∉ l.map (·.1) := by
  induction l with
  | nil => simp [lookup]
  | cons e rest ih =>
    simp only [lookup, List.map_cons, List.mem_cons]
    by_cases h : e.1 = k
    · simp [h]
    · have h' : ¬ k = e.1 := fun x => h x.symm
      simp [h, h', ih]

theorem lookup_mem (k : Key) (l : List (Key × Stmt)) (st : Stmt) (h : lookup k l = some st) :
    (k, st) ∈ l := by
  induction l with
  | nil => simp [lookup] at h
  | cons e rest ih =>
    simp only [lookup] at h
    by_cases hk : e.1 = k
    · simp only [hk, if_true, Option.some.injEq] at h
      have : e = (k, st) := by cases e; simp_all
      rw [this]; exact List.mem_cons_self
    · simp only [hk, if_false] at h; exact List.mem_cons_of_mem _ (ih h)

theorem lookup_append (k : Key) (l₁ l₂ : List (Key × Stmt)) :
    lookup k (l₁ ++ l₂) = (lookup k l₁).or (lookup k l₂) := by
  induction l₁ with
  | nil => simp [lookup]
  | cons e rest ih =>
    simp only [List.cons_append, lookup]
    by_cases h : e.1 = k <;> simp [h, ih]

theorem replace_keys (k : Key) (st : Stmt) (l : List (Key × Stmt)) :
    (replace k st l).map (·.1) = l.map (·.1) := by
  induction l with
  | nil => rfl
  | cons e rest ih =>
    simp only [replace]
    by_cases h : e.1 = k
    · simp [h]
    · simp [h, ih]

theorem replace_length (k : Key) (st : Stmt) (l : List (Key × Stmt)) :
    (replace k st l).length = l.length := by
  have := congrArg List.length (replace_keys k st l)
  simpa using this

theorem lookup_replace_self (k : Key) (st : Stmt) (l : List (Key × Stmt)) (h : (lookup k l).isSome) :
    lookup k (replace k st l) = some st := by
  induction l with
  | nil => simp [lookup] at h
  | cons e rest ih =>
    simp only [replace, lookup] at h ⊢
    by_cases hk : e.1 = k
    · simp [hk, lookup]
    · simp only [hk, if_false] at h ⊢
      simp only [lookup, hk, if_false]
      exact ih h

theorem lookup_replace_ne (k k' : Key) (st : Stmt) (l : List (Key × Stmt)) (hne : k' ≠ k) :
    lookup k' (replace k st l) = lookup k' l := by
  induction l with
  | nil => rfl
  | cons e rest ih =>
    simp only [replace]
    by_cases hk : e.1 = k
    · have h1 : ¬ k = k' := fun h => hne h.symm
      have h2 : ¬ e.1 = k' := fun h => hne (by rw [← h, hk])
      simp [hk, lookup, h1, h2]
    · simp only [hk, if_false, lookup, ih]

theorem mem_replace (k : Key) (st : Stmt) (l : List (Key × Stmt)) (e : Key × Stmt)
    (he : e ∈ replace k st l) : e = (k, st) ∨ e ∈ l := by
  induction l with
  | nil => simp [replace] at he
  | cons x rest ih =>
    simp only [replace] at he
    by_cases hk : x.1 = k
    · simp only [hk, if_true, List.mem_cons] at he
      rcases he with rfl | he
      · exact Or.inl rfl
      · exact Or.inr (List.mem_cons_of_mem _ he)
    · simp only [hk, if_false, List.mem_cons] at he
      rcases he with rfl | he
      · exact Or.inr List.mem_cons_self
      · rcases ih he with h | h
        · exact Or.inl h
        · exact Or.inr (List.mem_cons_of_mem _ h)

theorem mem_erase (k : Key) (l : List (Key × Stmt)) (e : Key × Stmt) (he : e ∈ erase k l) : e ∈ l := by
  induction l with
  | nil => simp [erase] at he
  | cons x rest ih =>
    simp only [erase] at he
    by_cases hk : x.1 = k
    · simp only [hk, if_true] at he; exact List.mem_cons_of_mem _ he
    · simp only [hk, if_false, List.mem_cons] at he
      rcases he with rfl | he
      · exact List.mem_cons_self
      · exact List.mem_cons_of_mem _ (ih he)

theorem erase_length (k : Key) (l : List (Key × Stmt)) (h : (lookup k l).isSome) :
    (erase k l).length + 1 = l.length := by
  induction l with
  | nil => simp [lookup] at h
  | cons x rest ih =>
    simp only [erase, lookup] at h ⊢
    by_cases hk : x.1 = k
    · simp [hk]
    · simp only [hk, if_false] at h ⊢
      simp only [List.length_cons]
      have := ih h
      omega

theorem erase_keys_sub (k : Key) (l : List (Key × Stmt)) (a : Key) (ha : a ∈ (erase k l).map (·.1)) :
    a ∈ l.map (·.1) := by
  simp only [List.mem_map] at ha ⊢
  obtain ⟨e, he, rfl⟩ := ha
  exact ⟨e, mem_erase k l e he, rfl⟩

theorem erase_nodup (k : Key) (l : List (Key × Stmt)) (h : (l.map (·.1)).Nodup) :
    ((erase k l).map (·.1)).Nodup := by
  induction l with
  | nil => simp [erase]
  | cons x rest ih =>
    simp only [List.map_cons, List.nodup_cons] at h
    simp only [erase]
    by_cases hk : x.1 = k
    · simp only [hk, if_true]; exact h.2
    · simp only [hk, if_false, List.map_cons, List.nodup_cons]
      exact ⟨fun hm => h.1 (erase_keys_sub k rest _ hm), ih h.2⟩

theorem lookup_erase_self (k : Key) (l : List (Key × Stmt)) (h : (l.map (·.1)).Nodup) :
    lookup k (erase k l) = none := by
  induction l with
  | nil => rfl
  | cons x rest ih =>
    simp only [List.map_cons, List.nodup_cons] at h
    simp only [erase]
    by_cases hk : x.1 = k
    · simp only [hk, if_true]
      rw [lookup_none_iff]
      rw [← hk]; exact h.1
    · simp only [hk, if_false, lookup]
      exact ih h.2

theorem lookup_erase_ne (k k' : Key) (l : List (Key × Stmt)) (hne : k' ≠ k) :
    lookup k' (erase k l) = lookup k' l := by
  induction l with
  | nil => rfl
  | cons x rest ih =>
    simp only [erase]
    by_cases hk : x.1 = k
    · have h2 : ¬ x.1 = k' := fun h => hne (by rw [← h, hk])
      simp only [hk, if_true, lookup]
      rw [← hk]; simp [h2]
    · simp only [hk, if_false, lookup, ih]

/-- well-formedness of a cache -/
structure WF (c : Cache) : Prop where
  size : c.size = c.map.length
  nodup : (c.map.map (·.1)).Nodup
  own : ∀ e ∈ c.map, e.2.key = e.1 ∧ e.2.conn = c.conn

theorem WF.new (conn : Nat) : WF { conn := conn } := ⟨rfl, by simp, by simp⟩

theorem WF.insert {c : Cache} (h : WF c) (k : Key) (st : Stmt) (hk : st.key = k) (hc : st.conn = c.conn) :
    WF (c.insert k st) := by
  unfold Cache.insert
  split
  · refine ⟨?_, ?_, ?_⟩
    · show c.size = (replace k st c.map).length
      rw [replace_length]; exact h.size
    · show ((replace k st c.map).map (·.1)).Nodup
      rw [replace_keys]; exact h.nodup
    · intro e he
      rcases mem_replace k st c.map e he with rfl | he
      · exact ⟨hk, hc⟩
      · exact h.own e he
  · rename_i hnone
    refine ⟨?_, ?_, ?_⟩
    · simp [h.size]
    · show ((c.map ++ [(k, st)]).map (·.1)).Nodup
      simp only [List.map_append, List.map_cons, List.map_nil]
      rw [List.nodup_append]
      refine ⟨h.nodup, by simp, ?_⟩
      intro a ha b hb
      simp only [List.mem_singleton] at hb; subst hb
      intro hab; subst hab
      have : lookup a c.map = none := by
        simp only [Cache.get] at hnone
        cases hl : lookup a c.map with
        | none => rfl
        | some _ => simp [hl] at hnone
      exact (lookup_none_iff _ _).mp this ha
    · intro e he
      simp only [List.mem_append, List.mem_singleton] at he
      rcases he with he | rfl
      · exact h.own e he
      · exact ⟨hk, hc⟩

theorem WF.remove {c : Cache} (h : WF c) (k : Key) : WF (c.remove k) := by
  unfold Cache.remove
  split
  · rename_i hsome
    refine ⟨?_, erase_nodup k c.map h.nodup, fun e he => h.own e (mem_erase k c.map e he)⟩
    show c.size - 1 = (erase k c.map).length
    have := erase_length k c.map hsome
    rw [h.size]; omega
  · exact h

theorem WF.clear {c : Cache} : WF c.clear := ⟨rfl, by simp [Cache.clear], by simp [Cache.clear]⟩

theorem WF.apply {c : Cache} (h : WF c) (op : COp) : WF (c.apply op) := by
  cases op with
  | insert k n => exact h.insert k _ rfl rfl
  | remove k => exact h.remove k
  | clear => exact WF.clear

theorem WF.run {c : Cache} (h : WF c) (ops : List COp) : WF (ops.foldl Cache.apply c) := by
  induction ops generalizing c with
  | nil => exact h
  | cons op ops ih => exact ih (h.apply op)

/-! registry -/

theorem detachCnt_zero_iff (id : Nat) (log : List Ev) :
    detachCnt id log = 0 ↔ (log.any fun | .detach _ j => j == id | _ => false) = false := by
  induction log with
  | nil => simp [detachCnt]
  | cons e rest ih =>
    have hc : detachCnt id (e :: rest) = natCnt id e.detachIds + detachCnt id rest := by
      simp [detachCnt]
    rw [hc, List.any_cons]
    cases e with
    | detach op j =>
      by_cases hj : j = id
      · simp [Ev.detachIds, natCnt, eqInd, hj]
      · simp [Ev.detachIds, natCnt, eqInd, hj, ih]
    | _ => simp [Ev.detachIds, natCnt, ih]

end PgP
end DeadpoolVerif
