/-
The event log is append-only.
-/
import DeadpoolVerif.Lemmas.Conserve

namespace DeadpoolVerif

theorem stepOp_log {s s' : State} {i : Nat} {oc : Outcome} (hs : stepOp s i oc = some s') :
    ∃ es, s'.log = s.log ++ es := by
  unfold stepOp at hs
  split at hs
  · simp at hs
  · rename_i op h
    cases op with
    | get t pc =>
      simp only at hs
      unfold stepGet at hs
      simp only [arriveRecycle, arrivePostCreate, handOut, failPermit] at hs
      repeat' split at hs
      all_goals first
        | (simp at hs; done)
        | skip
      all_goals (simp only [Option.some.injEq] at hs; subst hs)
      all_goals first
        | exact ⟨_, rfl⟩
        | exact ⟨[], (List.append_nil _).symm⟩
    | ret pc o =>
      simp only at hs
      split at hs
      · cases pc
        all_goals simp only [stepRet] at hs
        all_goals repeat' split at hs
        all_goals first
          | (simp at hs; done)
          | skip
        all_goals (simp only [Option.some.injEq] at hs; subst hs)
        all_goals first
          | exact ⟨_, rfl⟩
          | exact ⟨[], (List.append_nil _).symm⟩
      · split at hs
        · simp only [stepRetPanic, Option.some.injEq] at hs; subst hs; exact ⟨_, rfl⟩
        · simp at hs
    | take pc o add =>
      simp only at hs
      split at hs
      · cases pc
        all_goals simp only [stepTake] at hs
        all_goals repeat' split at hs
        all_goals first
          | (simp at hs; done)
          | skip
        all_goals (simp only [Option.some.injEq] at hs; subst hs)
        all_goals first
          | exact ⟨_, rfl⟩
          | exact ⟨[], (List.append_nil _).symm⟩
      · split at hs
        · simp only [stepTakePanic, Option.some.injEq] at hs; subst hs; exact ⟨_, rfl⟩
        · simp at hs
    | resize n c pc old =>
      simp only at hs
      split at hs
      · cases pc
        all_goals simp only [stepResize, finishResize] at hs
        all_goals repeat' split at hs
        all_goals first
          | (simp at hs; done)
          | skip
        all_goals (simp only [Option.some.injEq] at hs; subst hs)
        all_goals first
          | exact ⟨_, rfl⟩
          | exact ⟨[], (List.append_nil _).symm⟩
      · simp at hs
    | retain keep =>
      simp only at hs
      split at hs
      · unfold stepRetain at hs
        split at hs
        · simp at hs
        · simp only [Option.some.injEq] at hs; subst hs; exact ⟨_, rfl⟩
      · simp at hs
    | status =>
      simp only at hs
      split at hs
      · unfold stepStatus at hs
        split at hs
        · simp at hs
        · simp only [Option.some.injEq] at hs; subst hs; exact ⟨_, rfl⟩
      · simp at hs
    | done => simp at hs

theorem step_log {s s' : State} {a : Action} (hs : step s a = some s') :
    ∃ es, s'.log = s.log ++ es := by
  unfold step at hs
  cases a with
  | start sp =>
    simp only [Option.map_eq_some_iff] at hs
    obtain ⟨s1, h1, rfl⟩ := hs
    refine ⟨[], ?_⟩
    cases sp
    all_goals simp only [startOp] at h1
    all_goals repeat' split at h1
    all_goals first
      | (simp at h1; done)
      | skip
    all_goals (simp only [Option.some.injEq] at h1; subst h1)
    all_goals exact (List.append_nil _).symm
  | step i oc =>
    simp only [Option.map_eq_some_iff] at hs
    obtain ⟨s1, h1, rfl⟩ := hs
    obtain ⟨es, he⟩ := stepOp_log h1
    exact ⟨es, he⟩

theorem goneCnt_step_mono {s s' : State} {a : Action} (hs : step s a = some s') (id : Nat) :
    goneCnt id s.log ≤ goneCnt id s'.log := by
  obtain ⟨es, h⟩ := step_log hs
  rw [h, goneCnt_append]
  omega

theorem run_log (s : State) (as : List Action) : ∃ es, (run s as).log = s.log ++ es := by
  induction as generalizing s with
  | nil => exact ⟨[], (List.append_nil _).symm⟩
  | cons a as ih =>
    rw [run_cons]
    cases hst : step s a with
    | none => exact ih s
    | some s1 =>
      obtain ⟨e1, h1⟩ := step_log hst
      obtain ⟨e2, h2⟩ := ih s1
      exact ⟨e1 ++ e2, by simp only [Option.getD_some]; rw [h2, h1, List.append_assoc]⟩

end DeadpoolVerif
