/-
Accounting invariants of the unmanaged pool model, preserved by every transition.
-/
import DeadpoolVerif.Model.Unmanaged
import DeadpoolVerif.Lemmas.Sum
import DeadpoolVerif.Lemmas.Sem

namespace DeadpoolVerif
namespace U

/-- the get holds a permit of `sem` but has not popped yet -/
def Op.popW : Op → Nat
  | .get _ _ _ .pop => 1
  | _ => 0

/-- an object was pushed but its permit has not been added yet -/
def Op.pendW : Op → Nat
  | .add _ _ .avail | .add _ _ .addPermits => 1
  | .ret _ .avail | .ret _ .addPermits => 1
  | _ => 0

/-- the op holds an object that is counted in `size` but is neither queued nor in a
caller's hands -/
def Op.inFlightW : Op → Nat
  | .add _ _ .push => 1
  | .get _ _ _ (.avail _) => 1
  | .ret _ .push => 1
  | .take _ .size _ => 1
  | _ => 0

/-- a `size_semaphore` permit was taken, `size` not yet incremented -/
def Op.addW : Op → Nat
  | .add _ _ .size => 1
  | _ => 0

/-- `size` was decremented, the `size_semaphore` permit not yet returned -/
def Op.takeW : Op → Nat
  | .take _ .addPermits _ => 1
  | _ => 0

/-- pushed, `available` not yet incremented -/
def Op.pushW : Op → Nat
  | .add _ _ .avail | .ret _ .avail => 1
  | _ => 0

/-- a `timeout_get` that counts as waiting -/
def Op.waitW : Op → Nat
  | .get _ false _ .queued | .get _ false _ .pop => 1
  | _ => 0

/-- a `try_get` that popped but has not decremented `available` yet -/
def Op.tryW : Op → Nat
  | .get _ _ _ (.avail _) => 1
  | _ => 0

/-- the op is about to run `clear` (possible only on a closed pool) -/
def Op.clearW : Op → Nat
  | .close .sizeSem | .close .clear => 1
  | .ret _ .clear => 1
  | .add _ _ .clear => 1
  | _ => 0

structure Acct (s : State) : Prop where
  /-- while open: every queued object is matched by exactly one permit (free, assigned,
  held by a getter that has not popped yet) or is about to get one; nothing was dropped; nobody
  is about to clear the queue -/
  open_ : s.sem.closed = false →
    s.sem.tokens + sumW Op.popW s.ops + sumW Op.pendW s.ops = s.queue.length ∧
    s.dropped.length = 0 ∧ sumW Op.clearW s.ops = 0
  /-- `size` counts the objects of the pool -/
  siz : s.size = s.queue.length + s.hands.length + sumW Op.inFlightW s.ops
  /-- the size semaphore accounts for the free slots -/
  slots : s.sizeSem.tokens + s.size + s.dropped.length + sumW Op.addW s.ops + sumW Op.takeW s.ops =
    s.cfg.maxSize
  /-- `available` = queued objects minus waiting callers (up to operations in flight) -/
  avail : s.available + (sumW Op.pushW s.ops : Int) + (sumW Op.waitW s.ops : Int) =
    (s.queue.length : Int) + (sumW Op.tryW s.ops : Int)
  nf : s.fault = none

theorem Acct.init (cfg : Cfg) (h : cfg.initial ≤ cfg.maxSize) : Acct (init cfg) := by
  refine ⟨?_, ?_, ?_, ?_, rfl⟩ <;>
    simp [U.init, Sem.new, Sem.tokens] <;> omega

theorem sumW_set' {α : Type} (f : α → Nat) {l : List α} {i : Nat} {y : α} (x : α)
    (h : l[i]? = some y) : sumW f (l.set i x) = sumW f l + f x - f y := by
  have := sumW_set f l i x y h
  omega

theorem decFault_eq_none {f : Option Fault} {x k : Nat} (hf : f = none) (h : k ≤ x) :
    decFault f x k = none := by
  subst hf
  simp only [decFault]
  split
  · omega
  · rfl

theorem tryAcquire_closed {s s' : Sem} {r : TryRes} (h : s.tryAcquire = (s', r)) :
    s'.closed = s.closed := by
  unfold Sem.tryAcquire at h
  repeat' split at h
  all_goals (simp only [Prod.mk.injEq] at h; obtain ⟨rfl, _⟩ := h; rfl)

theorem pollAcquire_closed' {s s' : Sem} {me : Nat} {r : PollRes}
    (h : s.pollAcquire me = (s', r)) : s'.closed = s.closed := by
  unfold Sem.pollAcquire at h
  repeat' split at h
  all_goals (simp only [Prod.mk.injEq] at h; obtain ⟨rfl, _⟩ := h; rfl)

theorem dropAcquire_closed (s : Sem) (me : Nat) : (s.dropAcquire me).closed = s.closed := by
  unfold Sem.dropAcquire
  split <;> rfl

theorem tryAcquire_fail_tokens {s s' : Sem} {r : TryRes} (h : s.tryAcquire = (s', r)) (hr : r ≠ .ok) :
    s'.tokens = s.tokens := by rw [Sem.tryAcquire_fail h hr]

theorem pollAcquire_closed_is_closed {s s' : Sem} {me : Nat}
    (h : s.pollAcquire me = (s', .closed)) : s.closed = true := by
  unfold Sem.pollAcquire at h
  split at h
  · assumption
  · repeat' split at h
    all_goals simp at h

theorem tryAcquire_closed_is_closed {s s' : Sem}
    (h : s.tryAcquire = (s', .closed)) : s.closed = true := by
  unfold Sem.tryAcquire at h
  split at h
  · assumption
  · repeat' split at h
    all_goals simp at h

macro "u_simp" h:ident : tactic => `(tactic|
  simp only [State.setOp, State.emit, finishGet, failGet, clear, sumW_set' _ _ $h, Op.popW, Op.pendW,
    Op.inFlightW, Op.addW, Op.takeW, Op.pushW, Op.waitW, Op.tryW, Op.clearW, List.length_append,
    List.length_cons, List.length_nil, List.length_dropLast, Sem.addPermits_tokens, Sem.dropAcquire_tokens,
    Sem.close_tokens, Sem.addPermits_closed, dropAcquire_closed, Nat.add_zero, Nat.sub_zero, Nat.zero_add,
    Bool.false_eq_true, ↓reduceIte] at *)

end U
end DeadpoolVerif
