/-
The accounting invariant `Acct` is preserved by every transition of the managed
pool model, hence holds in every reachable state (any number of operations, any
schedule, any environment outcomes, resize and close included).
-/
import DeadpoolVerif.Lemmas.Weights

namespace DeadpoolVerif

theorem sumW_set' {α : Type} (f : α → Nat) {l : List α} {i : Nat} {y : α} (x : α)
    (h : l[i]? = some y) : sumW f (l.set i x) = sumW f l + f x - f y := by
  have := sumW_set f l i x y h
  omega

theorem decFault_eq_none {f : Option Fault} {x k : Nat} (hf : f = none) (h : k ≤ x) :
    decFault f x k = none := by
  subst hf
  simp only [decFault]
  split
  · omega
  · rfl

theorem popIdle_some {m : QueueMode} {idle rest : List Obj} {o : Obj}
    (h : popIdle m idle = some (o, rest)) : rest.length + 1 = idle.length := by
  unfold popIdle at h
  split at h
  · split at h
    · simp only [Option.some.injEq, Prod.mk.injEq] at h
      obtain ⟨_, rfl⟩ := h
      simp
    · simp at h
  · split at h
    · rename_i heq
      simp only [Option.some.injEq, Prod.mk.injEq] at h
      obtain ⟨_, rfl⟩ := h
      have : idle ≠ [] := by
        intro hn; subst hn; simp at heq
      simp only [List.length_dropLast]
      have := List.length_pos_iff.mpr this
      omega
    · simp at h

theorem popIdle_none {m : QueueMode} {idle : List Obj}
    (h : popIdle m idle = none) : idle.length = 0 := by
  unfold popIdle at h
  split at h
  · split at h
    · simp at h
    · rfl
  · split at h
    · simp at h
    · rename_i heq
      simp only [List.getLast?_eq_none_iff] at heq
      simp [heq]

theorem retain_length (keep : List Bool) (k : Nat) (l : List Obj) :
    (retainKept keep k l).length + (retainRemoved keep k l).length = l.length := by
  induction l generalizing k with
  | nil => simp [retainKept, retainRemoved]
  | cons o rest ih =>
    simp only [retainKept, retainRemoved]
    have := ih (k + 1)
    split <;> simp only [List.length_cons] <;> omega

theorem findOut_mem {out : List Obj} {id : Nat} {o : Obj} (h : findOut out id = some o) :
    o ∈ out := by
  unfold findOut at h
  exact List.mem_of_find?_eq_some h

theorem length_erase_obj {l : List Obj} {o : Obj} (h : o ∈ l) :
    (l.erase o).length + 1 = l.length := by
  rw [List.length_erase_of_mem h]
  have : 0 < l.length := List.length_pos_of_mem h
  omega

macro "acct_simp" h:ident : tactic => `(tactic|
  simp only [State.setOp, State.emit, arriveRecycle, handOut, arrivePostCreate, failPermit,
    finishResize,
    sumW_set' _ _ $h, Op.permW, Op.objW, Op.sizeW, Op.usersW, GPc.permW, GPc.objW, GPc.sizeW,
    GPc.usersW, List.length_append, List.length_cons, List.length_nil, Sem.addPermits_tokens,
    Sem.dropAcquire_tokens, Sem.close_tokens] at *)

/-- facts about the operation being replaced, used by every case -/
macro "acct_prep" h:ident a:ident : tactic => `(tactic| (
  have b1 := sumW_mem_le Op.permW _ _ _ $h
  have b2 := sumW_mem_le Op.objW _ _ _ $h
  have b3 := sumW_mem_le Op.sizeW _ _ _ $h
  have b4 := sumW_mem_le Op.usersW _ _ _ $h
  have c := sumW_le Op.objW Op.permW (List.set _ _ Op.done) Op.objW_le_permW
  rw [sumW_set' _ _ $h, sumW_set' _ _ $h] at c
  have d := sumW_le Op.sizeW Op.objW _ Op.sizeW_le_objW
  rw [← sumW_set' Op.sizeW Op.done $h] at b3
  rw [sumW_set' _ _ $h] at b3
  obtain ⟨a1, a2, a3, a4, a5⟩ := $a))

macro "acct_close" h:ident : tactic => `(tactic| (
  all_goals refine ⟨?_, ?_, ?_, ?_, ?_⟩
  all_goals first
    | (acct_simp $h; omega)
    | (acct_simp $h; split <;> acct_simp $h <;> omega)
    | (acct_simp $h; assumption)
    | (acct_simp $h; apply decFault_eq_none ‹_›; omega)
    | (split <;> acct_simp $h <;> omega)))

theorem stepGet_acct {s s' : State} {i : Nat} {t : Timeouts} {pc : GPc} {oc : Outcome}
    (h : s.ops[i]? = some (.get t pc)) (a : Acct s)
    (hs : stepGet s i t pc oc = some s') : Acct s' := by
  have b1 := sumW_mem_le Op.permW _ _ _ h
  have b2 := sumW_mem_le Op.objW _ _ _ h
  have b3 := sumW_mem_le Op.sizeW _ _ _ h
  have b4 := sumW_mem_le Op.usersW _ _ _ h
  obtain ⟨a1, a2, a3, a4, a5⟩ := a
  have c := sumW_le Op.objW Op.permW (s.ops.set i .done) Op.objW_le_permW
  rw [sumW_set' _ _ h, sumW_set' _ _ h] at c
  unfold stepGet at hs
  repeat' split at hs
  all_goals first
    | (simp at hs; done)
    | skip
  all_goals (simp only [Option.some.injEq] at hs; subst hs)
  all_goals try (have t1 := Sem.tryAcquire_ok ‹Sem.tryAcquire _ = (_, TryRes.ok)›)
  all_goals try (have t2 := Sem.pollAcquire_ok ‹Sem.pollAcquire _ _ = (_, PollRes.ok)›)
  all_goals try (have t3 := Sem.pollAcquire_pending ‹Sem.pollAcquire _ _ = (_, PollRes.pending)›)
  all_goals try (have t4 := Sem.pollAcquire_closed ‹Sem.pollAcquire _ _ = (_, PollRes.closed)›)
  all_goals try (have t5 := popIdle_some ‹popIdle _ _ = some _›)
  all_goals try (have t6 := popIdle_none ‹popIdle _ _ = none›)
  acct_close h

/-- `size` never exceeds `maxSize + debt`: a surplus can only be the residue of a shrink -/
theorem Acct.size_le {s : State} (a : Acct s) : s.size ≤ s.maxSize + s.debt := by
  obtain ⟨a1, a2, a3, a4, a5⟩ := a
  have d := sumW_le Op.sizeW Op.objW s.ops Op.sizeW_le_objW
  omega

theorem stepRet_acct {s s' : State} {i : Nat} {pc : RPc} {o : Obj}
    (h : s.ops[i]? = some (.ret pc o)) (a : Acct s)
    (hs : stepRet s i pc o = some s') : Acct s' := by
  have sl := a.size_le
  have b1 := sumW_mem_le Op.permW _ _ _ h
  have b2 := sumW_mem_le Op.objW _ _ _ h
  have b3 := sumW_mem_le Op.sizeW _ _ _ h
  have b4 := sumW_mem_le Op.usersW _ _ _ h
  obtain ⟨a1, a2, a3, a4, a5⟩ := a
  cases pc
  all_goals simp only [stepRet] at hs
  all_goals repeat' split at hs
  all_goals first
    | (simp at hs; done)
    | skip
  all_goals (simp only [Option.some.injEq] at hs; subst hs)
  acct_close h

theorem stepTake_acct {s s' : State} {i : Nat} {pc : TPc} {o : Obj} {add : Bool}
    (h : s.ops[i]? = some (.take pc o add)) (a : Acct s)
    (hs : stepTake s i pc o add = some s') : Acct s' := by
  have sl := a.size_le
  have b1 := sumW_mem_le Op.permW _ _ _ h
  have b2 := sumW_mem_le Op.objW _ _ _ h
  have b3 := sumW_mem_le Op.sizeW _ _ _ h
  have b4 := sumW_mem_le Op.usersW _ _ _ h
  obtain ⟨a1, a2, a3, a4, a5⟩ := a
  cases pc
  all_goals simp only [stepTake] at hs
  all_goals repeat' split at hs
  all_goals first
    | (simp at hs; done)
    | skip
  all_goals (simp only [Option.some.injEq] at hs; subst hs)
  all_goals try simp only [decide_eq_true_eq] at *
  acct_close h

theorem stepTakePanic_acct {s s' : State} {i : Nat} {o : Obj} {add : Bool}
    (h : s.ops[i]? = some (.take .detach o add)) (a : Acct s)
    (hs : stepTakePanic s i o = some s') : Acct s' := by
  have b1 := sumW_mem_le Op.permW _ _ _ h
  have b2 := sumW_mem_le Op.objW _ _ _ h
  have b3 := sumW_mem_le Op.sizeW _ _ _ h
  have b4 := sumW_mem_le Op.usersW _ _ _ h
  obtain ⟨a1, a2, a3, a4, a5⟩ := a
  simp only [stepTakePanic, Option.some.injEq] at hs
  subst hs
  acct_close h

theorem stepRetPanic_acct {s s' : State} {i : Nat} {o : Obj}
    (h : s.ops[i]? = some (.ret .detach o)) (a : Acct s)
    (hs : stepRetPanic s i o = some s') : Acct s' := by
  have b1 := sumW_mem_le Op.permW _ _ _ h
  have b2 := sumW_mem_le Op.objW _ _ _ h
  have b3 := sumW_mem_le Op.sizeW _ _ _ h
  have b4 := sumW_mem_le Op.usersW _ _ _ h
  obtain ⟨a1, a2, a3, a4, a5⟩ := a
  simp only [stepRetPanic, Option.some.injEq] at hs
  subst hs
  acct_close h

/-- the guard of the panic branch of `Object::take` -/
theorem takePanic_pc {oc : Outcome} {pc : TPc} (h : (oc == .panic && pc == .detach) = true) :
    pc = .detach := by
  simp only [Bool.and_eq_true, beq_iff_eq] at h
  exact h.2

theorem retPanic_pc {oc : Outcome} {pc : RPc} (h : (oc == .panic && pc == .detach) = true) :
    pc = .detach := by
  simp only [Bool.and_eq_true, beq_iff_eq] at h
  exact h.2

theorem stepResize_acct {s s' : State} {i n old : Nat} {isClose : Bool} {pc : ZPc}
    (h : s.ops[i]? = some (.resize n isClose pc old)) (a : Acct s)
    (hs : stepResize s i n isClose pc old = some s') : Acct s' := by
  have sl := a.size_le
  have b1 := sumW_mem_le Op.permW _ _ _ h
  have b2 := sumW_mem_le Op.objW _ _ _ h
  have b3 := sumW_mem_le Op.sizeW _ _ _ h
  have b4 := sumW_mem_le Op.usersW _ _ _ h
  obtain ⟨a1, a2, a3, a4, a5⟩ := a
  have c := sumW_le Op.objW Op.permW s.ops Op.objW_le_permW
  cases pc
  all_goals simp only [stepResize] at hs
  all_goals repeat' split at hs
  all_goals first
    | (simp at hs; done)
    | skip
  all_goals (simp only [Option.some.injEq] at hs; subst hs)
  all_goals try (have t1 := Sem.tryAcquire_ok ‹Sem.tryAcquire _ = (_, TryRes.ok)›)
  all_goals try (have il := congrArg List.length ‹s.idle = _ :: _›; simp only [List.length_cons] at il)
  all_goals try (have il := congrArg List.length ‹s.idle = []›; simp only [List.length_nil] at il)
  all_goals try (cases isClose)
  acct_close h

theorem stepRetain_acct {s s' : State} {i : Nat} {keep : List Bool}
    (h : s.ops[i]? = some (.retain keep)) (a : Acct s)
    (hs : stepRetain s i keep = some s') : Acct s' := by
  have rl := retain_length keep 0 s.idle
  have b1 := sumW_mem_le Op.permW _ _ _ h
  have b2 := sumW_mem_le Op.objW _ _ _ h
  have b3 := sumW_mem_le Op.sizeW _ _ _ h
  have b4 := sumW_mem_le Op.usersW _ _ _ h
  obtain ⟨a1, a2, a3, a4, a5⟩ := a
  unfold stepRetain at hs
  split at hs
  · simp at hs
  · simp only [Option.some.injEq] at hs
    subst hs
    acct_close h

theorem stepStatus_acct {s s' : State} {i : Nat}
    (h : s.ops[i]? = some .status) (a : Acct s)
    (hs : stepStatus s i = some s') : Acct s' := by
  have b1 := sumW_mem_le Op.permW _ _ _ h
  have b2 := sumW_mem_le Op.objW _ _ _ h
  have b3 := sumW_mem_le Op.sizeW _ _ _ h
  have b4 := sumW_mem_le Op.usersW _ _ _ h
  obtain ⟨a1, a2, a3, a4, a5⟩ := a
  unfold stepStatus at hs
  split at hs
  · simp at hs
  · simp only [Option.some.injEq] at hs
    subst hs
    acct_close h

theorem startOp_acct {s s' : State} {sp : Spec} (a : Acct s)
    (hs : startOp s sp = some s') : Acct s' := by
  obtain ⟨a1, a2, a3, a4, a5⟩ := a
  unfold startOp at hs
  cases sp
  all_goals repeat' split at hs
  all_goals first
    | (simp at hs; done)
    | skip
  all_goals (simp only [Option.some.injEq] at hs; subst hs)
  all_goals try (have e1 := length_erase_obj (findOut_mem ‹findOut _ _ = some _›))
  all_goals refine ⟨?_, ?_, ?_, ?_, ?_⟩
  all_goals first
    | (simp only [sumW_append, sumW_cons, sumW_nil, Op.permW, Op.objW, Op.sizeW, Op.usersW,
        GPc.permW, GPc.objW, GPc.sizeW, GPc.usersW] at *; omega)
    | assumption

theorem stepOp_acct {s s' : State} {i : Nat} {oc : Outcome} (a : Acct s)
    (hs : stepOp s i oc = some s') : Acct s' := by
  unfold stepOp at hs
  split at hs
  · simp at hs
  · rename_i op h
    cases op with
    | get t pc => exact stepGet_acct h a hs
    | ret pc o =>
      simp only at hs
      split at hs
      · exact stepRet_acct h a hs
      · split at hs
        · have := retPanic_pc ‹_›; subst this
          exact stepRetPanic_acct h a hs
        · simp at hs
    | take pc o add =>
      simp only at hs
      split at hs
      · exact stepTake_acct h a hs
      · split at hs
        · have := takePanic_pc ‹_›; subst this
          exact stepTakePanic_acct h a hs
        · simp at hs
    | resize n c pc old =>
      simp only at hs
      split at hs
      · exact stepResize_acct h a hs
      · simp at hs
    | retain keep =>
      simp only at hs
      split at hs
      · exact stepRetain_acct h a hs
      · simp at hs
    | status =>
      simp only at hs
      split at hs
      · exact stepStatus_acct h a hs
      · simp at hs
    | done => simp at hs

theorem Acct.tick {s : State} (a : Acct s) (n : Nat) : Acct { s with now := n } :=
  ⟨a.tok, a.siz, a.usr, a.cov, a.nf⟩

theorem step_acct {s s' : State} {act : Action} (a : Acct s) (hs : step s act = some s') :
    Acct s' := by
  unfold step at hs
  cases act with
  | start sp =>
    simp only [Option.map_eq_some_iff] at hs
    obtain ⟨s1, h1, rfl⟩ := hs
    exact (startOp_acct a h1).tick _
  | step i oc =>
    simp only [Option.map_eq_some_iff] at hs
    obtain ⟨s1, h1, rfl⟩ := hs
    exact (stepOp_acct a h1).tick _

/-- `Acct` holds after any list of actions from the initial state. -/
theorem run_acct (cfg : Cfg) (acts : List Action) : Acct (run (init cfg) acts) := by
  suffices h : ∀ s, Acct s → Acct (run s acts) from h _ (Acct.init cfg)
  induction acts with
  | nil => intro s a; exact a
  | cons act acts ih =>
    intro s a
    rw [run_cons]
    apply ih
    cases hst : step s act with
    | none => exact a
    | some s1 => exact step_acct a hst

end DeadpoolVerif
