import DeadpoolVerif.Model.Sem
import DeadpoolVerif.Model.Managed
import DeadpoolVerif.Model.Unmanaged
import DeadpoolVerif.Model.PgConfig
