import DeadpoolVerif.Model.Sem
import DeadpoolVerif.Model.Managed
