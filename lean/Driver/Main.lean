/-
`dpmodel`: replays action lines (see DESIGN.md Appendix D) on the executable
models and prints one observation line per action.  Imports model files only.
-/
import DeadpoolVerif.Model.Managed
import DeadpoolVerif.Model.Builder
import DeadpoolVerif.Model.Unmanaged
import DeadpoolVerif.Model.PgConfig
import DeadpoolVerif.Model.RedisConfig
import DeadpoolVerif.Model.Sync
import DeadpoolVerif.Model.SyncPools
import DeadpoolVerif.Model.RedisRecycle
import DeadpoolVerif.Model.PgPool

open DeadpoolVerif

namespace Driver

def showList (xs : List String) : String := "[" ++ ",".intercalate xs ++ "]"

def showOptNat : Option Nat → String
  | none => "-"
  | some n => toString n

def showObj (o : Obj) : String :=
  s!"{o.id}:{o.rc}:{o.created}:{showOptNat o.recycled}"

def showRes : Res → String
  | .ok id => s!"ok:{id}"
  | .timeoutWait => "timeout_wait"
  | .timeoutCreate => "timeout_create"
  | .timeoutRecycle => "timeout_recycle"
  | .closed => "closed"
  | .noRuntime => "no_runtime"
  | .backend => "backend"
  | .postCreateHook => "post_create_hook"
  | .cancelled => "cancelled"
  | .panicked => "panicked"

def showEv : Ev → String
  | .createCall op => s!"create({op})"
  | .call op ph k o => s!"{ph.name}({op},{k},{showObj o})"
  | .detach op id => s!"detach({op},{id})"
  | .destroy op id => s!"destroy({op},{id})"
  | .handout op o => s!"handout({op},{showObj o})"
  | .result op r => s!"result({op},{showRes r})"
  | .returned _ _ => ""
  | .taken op id => s!"taken({op},{id})"
  | .pred op k o keep => s!"pred({op},{k},{showObj o},{if keep then 1 else 0})"
  | .retained op kept removed => s!"retained({op},{kept},{showList (removed.map toString)})"
  | .status op m sz a w => s!"status({op},{m},{sz},{a},{w})"
  | .resized op n => s!"resized({op},{n})"
  | .closedEv op => s!"closed({op})"
  | .opPanic op => s!"oppanic({op})"

def sortNat (xs : List Nat) : List Nat := (xs.toArray.qsort (· < ·)).toList

/-- waiters whose waker has fired: assigned a permit, or woken by `close` -/
def woken (s : State) : List Nat :=
  let idx := List.range s.ops.length
  idx.filter fun i =>
    match s.ops[i]? with
    | some (.get _ .queued) => s.sem.assigned.contains i || (s.sem.closed && !s.sem.queue.contains i)
    | _ => false

def obsLine (s : State) (i : Nat) (logFrom : Nat) : String :=
  let op := s.ops.getD i .done
  let locked := s.lock.isSome
  let q (x : String) := if locked then "?" else x
  let live := sortNat (s.live.map Obj.id)
  let evs := ((s.log.drop logFrom).map showEv).filter (· ≠ "")
  s!"obs op={i} lbl={op.label s.cfg} susp={if op.suspended then 1 else 0} " ++
  s!"permits={s.sem.permits} closed={if s.sem.closed then 1 else 0} users={s.users} " ++
  s!"size={q (toString s.size)} max={q (toString s.maxSize)} " ++
  s!"idle={q (showList (s.idle.map showObj))} out={showList ((sortNat (s.out.map Obj.id)).map toString)} " ++
  s!"live={showList (live.map toString)} woken={showList ((woken s).map toString)} " ++
  s!"fault={if s.fault.isSome then 1 else 0} debt={s.debt} ev={";".intercalate evs}"

def parseTmo : String → Option Tmo
  | "n" => some .none
  | "z" => some .zero
  | "f" => some .finite
  -- `Duration::MAX`: a finite timeout whose deadline the harness never lets pass
  | "h" => some .finite
  | _ => none

def parseHooks (s : String) : List Bool :=
  if s == "-" then [] else s.toList.map (· == 'A')

def parseBits (s : String) : List Bool :=
  if s == "-" then [] else s.toList.map (· == '1')

def kv (w : String) : String × String :=
  match w.splitOn "=" with
  | [k, v] => (k, v)
  | _ => (w, "")

def lookup (kvs : List (String × String)) (k : String) (d : String) : String :=
  match kvs.find? (·.1 == k) with
  | some (_, v) => v
  | none => d

def parseCfg (ws : List String) : Option Cfg :=
  let kvs := ws.map kv
  match (lookup kvs "max" "").toNat? with
  | none => none
  | some m =>
    some { maxSize := m
           mode := if lookup kvs "mode" "fifo" == "lifo" then .lifo else .fifo
           pre := parseHooks (lookup kvs "pre" "-")
           postR := parseHooks (lookup kvs "postr" "-")
           postC := parseHooks (lookup kvs "postc" "-")
           rt := lookup kvs "rt" "0" == "1" }

/-- pool-level timeouts of a managed configuration (`pt=wcr`, default none): what
`Pool::get()` uses -/
def parsePoolTimeouts (ws : List String) : Option Timeouts :=
  match (lookup (ws.map kv) "pt" "nnn").toList with
  | [w, c, r] =>
    match parseTmo (String.ofList [w]), parseTmo (String.ofList [c]), parseTmo (String.ofList [r]) with
    | some w, some c, some r => some { wait := w, create := c, recycle := r }
    | _, _, _ => none
  | _ => none

def parseOutcome : String → Option Outcome
  | "run" => some .run
  | "ok" => some .ok
  | "err" => some .err
  | "pending" => some .pending
  | "panic" => some .panic
  | "deadline" => some .deadline
  | "cancel" => some .cancel
  | _ => none

def parseAction (ws : List String) : Option Action :=
  match ws with
  | ["start", "get", w, c, r] =>
    match parseTmo w, parseTmo c, parseTmo r with
    | some w, some c, some r => some (.start (.get { wait := w, create := c, recycle := r }))
    | _, _, _ => none
  | ["start", "ret", id] => id.toNat?.map fun n => .start (.ret n)
  -- the object dropped while its holder unwinds from a panic: a return like any other
  | ["start", "ret", id, "unwinding"] => id.toNat?.map fun n => .start (.ret n)
  | ["start", "take", id] => id.toNat?.map fun n => .start (.take n)
  | ["start", "resize", n] => n.toNat?.map fun n => .start (.resize n)
  | ["start", "close"] => some (.start .close)
  | ["start", "retain", bits] => some (.start (.retain (parseBits bits)))
  | ["start", "status"] => some (.start .status)
  | ["step", i, oc] =>
    match i.toNat?, parseOutcome oc with
    | some i, some oc => some (.step i oc)
    | _, _ => none
  | _ => none

namespace UDrv

def showBack : Option Nat → String
  | none => "-"
  | some n => toString n

def showRes : U.Res → String
  | .ok id => s!"ok:{id}"
  | .added => "added"
  | .timeout b => s!"timeout:{showBack b}"
  | .closed b => s!"closed:{showBack b}"
  | .noRuntime => "no_runtime"
  | .cancelled => "cancelled"
  | .panicked => "panicked"

def showEv : U.Ev → String
  | .result op r => s!"result({op},{showRes r})"
  | .dropped op id => s!"dropped({op},{id})"
  | .status op m sz a w => s!"status({op},{m},{sz},{a},{w})"

def wokenOf (s : U.State) : List Nat :=
  (List.range s.ops.length).filter fun i =>
    match s.ops[i]? with
    | some (.get _ _ _ .queued) => s.sem.assigned.contains i || (s.sem.closed && !s.sem.queue.contains i)
    | some (.add _ _ .queued) =>
      s.sizeSem.assigned.contains i || (s.sizeSem.closed && !s.sizeSem.queue.contains i)
    | _ => false

def obsLine (s : U.State) (i : Nat) (logFrom : Nat) : String :=
  let op := s.ops.getD i .done
  let evs := (s.log.drop logFrom).map showEv
  let nums (l : List Nat) := showList (l.map toString)
  s!"obs op={i} lbl={op.label} susp={if op.suspended then 1 else 0} " ++
  s!"permits={s.sem.permits} spermits={s.sizeSem.permits} closed={if s.sem.closed then 1 else 0} " ++
  s!"sclosed={if s.sizeSem.closed then 1 else 0} size={s.size} avail={s.available} " ++
  s!"queue={nums s.queue} hands={nums (sortNat s.hands)} returned={nums (sortNat s.returned)} " ++
  s!"dropped={nums (sortNat s.dropped)} woken={nums (wokenOf s)} " ++
  s!"fault={if s.fault.isSome then 1 else 0} ev={";".intercalate evs}"

def parseCfg (ws : List String) : Option U.Cfg :=
  let kvs := ws.map kv
  match (lookup kvs "max" "").toNat?, (lookup kvs "init" "0").toNat?, parseTmo (lookup kvs "tmo" "n") with
  | some m, some k, some t => some { maxSize := m, initial := k, rt := lookup kvs "rt" "0" == "1", timeout := t }
  | _, _, _ => none

def parseAction (ws : List String) : Option U.Action :=
  match ws with
  | ["start", "uget", w] =>
    if w == "d" then some (.start .getDefault) else (parseTmo w).map fun t => .start (.get t)
  | ["start", "utryget"] => some (.start .tryGet)
  | ["start", "uremove", w] => (parseTmo w).map fun t => .start (.remove t)
  | ["start", "utryremove"] => some (.start .tryRemove)
  | ["start", "uadd"] => some (.start .add)
  | ["start", "utryadd"] => some (.start .tryAdd)
  | ["start", "uret", id] => id.toNat?.map fun n => .start (.ret n)
  | ["start", "utake", id] => id.toNat?.map fun n => .start (.take n)
  | ["start", "uclose"] => some (.start .close)
  | ["start", "ustatus"] => some (.start .status)
  | ["step", i, oc] =>
    match i.toNat?, parseOutcome oc with
    | some i, some oc => some (.step i oc)
    | _, _ => none
  | _ => none

end UDrv

namespace PgDrv
open Pg

def optStr (s : String) : Option String := if s == "-" then none else some (if s == "e" then "" else s)
def showOptStr : Option String → String
  | none => "-"
  | some "" => "e"
  | some s => s
def listOf (s : String) : List String := if s == "-" || s == "" then [] else s.splitOn ","
def optList (s : String) : Option (List String) :=
  if s == "-" then none else some (if s == "[]" then [] else (s.splitOn ",").map fun x => if x == "e" then "" else x)
def natList (l : List String) : List Nat := l.filterMap String.toNat?
def showNats (l : List Nat) : String := if l.isEmpty then "-" else ",".intercalate (l.map toString)
def showStrs (l : List String) : String := if l.isEmpty then "-" else ",".intercalate l
def unE (s : String) : String := if s == "e" then "" else s
def toE (s : String) : String := if s == "" then "e" else s
def parseHost (s : String) : Host :=
  if s.startsWith "U:" then { unix := true, name := unE (s.drop 2).toString }
  else { unix := false, name := unE (s.drop 2).toString }
def showHost (h : Host) : String := (if h.unix then "U:" else "T:") ++ toE h.name
def optNat (s : String) : Option Nat := if s == "-" then none else s.toNat?
def showOptNat : Option Nat → String
  | none => "-"
  | some n => toString n

def showCfg (c : PgCfg) : String :=
  s!"pgres ok user={showOptStr c.user} password={showOptStr c.password} dbname={showOptStr c.dbname} " ++
  s!"options={showOptStr c.options} app={showOptStr c.appName} ssl={c.sslMode} " ++
  s!"hosts={showStrs (c.hosts.map showHost)} hostaddrs={showStrs c.hostaddrs} ports={showNats c.ports} " ++
  s!"cto={showOptNat c.connectTimeout} ka={if c.keepalives then 1 else 0} kai={c.keepalivesIdle} " ++
  s!"tsa={c.targetSessionAttrs} cb={c.channelBinding} lbh={c.loadBalanceHosts}"

def run (ws : List String) : String :=
  let kvs := ws.map kv
  let g (k : String) := lookup kvs k "-"
  let base : Option PgCfg :=
    if g "base" == "err" then none else
    some { user := optStr (g "b.user"), password := optStr (g "b.password"), dbname := optStr (g "b.dbname"),
           options := optStr (g "b.options"), appName := optStr (g "b.app"), sslMode := g "b.ssl",
           hosts := (listOf (g "b.hosts")).map parseHost, hostaddrs := listOf (g "b.hostaddrs"),
           ports := natList (listOf (g "b.ports")), connectTimeout := optNat (g "b.cto"),
           keepalives := g "b.ka" == "1", keepalivesIdle := (optNat (g "b.kai")).getD 0,
           targetSessionAttrs := g "b.tsa", channelBinding := g "b.cb", loadBalanceHosts := g "b.lbh" }
  let c : Config :=
    { url := g "url" == "1", user := optStr (g "user"), password := optStr (g "password"),
      dbname := optStr (g "dbname"), options := optStr (g "options"), appName := optStr (g "app"),
      sslMode := optStr (g "ssl"), host := optStr (g "host"), hosts := optList (g "hosts"),
      hostaddr := optStr (g "hostaddr"), hostaddrs := optList (g "hostaddrs"),
      port := optNat (g "port"), ports := (optList (g "ports")).map natList,
      connectTimeout := optNat (g "cto"), keepalives := (optStr (g "ka")).map (· == "1"),
      keepalivesIdle := optNat (g "kai"), targetSessionAttrs := optStr (g "tsa"),
      channelBinding := optStr (g "cb"), loadBalanceHosts := optStr (g "lbh") }
  match getPgConfig base (optStr (g "env")) c with
  | .ok r => showCfg r
  | .error .invalidUrl => "pgres err=invalid_url"
  | .error .dbnameMissing => "pgres err=dbname_missing"
  | .error .dbnameEmpty => "pgres err=dbname_empty"

def recycling (ws : List String) : String :=
  let m : RecyclingMethod := match ws with
    | ["fast"] => .fast
    | ["verified"] => .verified
    | ["clean"] => .clean
    | ["custom", s] => .custom s
    | _ => .fast
  match m.query with
  | none => "pgquery none"
  | some q => s!"pgquery some:{q}"

end PgDrv

namespace RdDrv
open Rd

def hexVal (c : Char) : Nat :=
  if c.isDigit then c.toNat - '0'.toNat else if 'a' ≤ c ∧ c ≤ 'f' then c.toNat - 'a'.toNat + 10 else 0

/-- hex → string, byte-wise (only ASCII contents are ever inspected) -/
def unhex (s : String) : String :=
  if s == "e" then "" else
  let rec go : List Char → List Char
    | a :: b :: rest => Char.ofNat (hexVal a * 16 + hexVal b) :: go rest
    | _ => []
  String.ofList (go s.toList)

def hexDigit (n : Nat) : Char := if n < 10 then Char.ofNat (n + '0'.toNat) else Char.ofNat (n - 10 + 'a'.toNat)

def hex (s : String) : String :=
  if s.isEmpty then "e" else
  String.ofList (s.toUTF8.toList.flatMap fun b => [hexDigit (b.toNat / 16), hexDigit (b.toNat % 16)])

def optList (s : String) : Option (List String) :=
  if s == "-" then none
  else some (((s.drop 1).dropEnd 1).toString.splitOn "," |>.filter (· ≠ ""))

def showServer : Server → String
  | .named n => toString n
  | .dflt => "D"

def insertSorted (x : String) : List String → List String
  | [] => [x]
  | y :: ys => if x < y then x :: y :: ys else if x == y then y :: ys else y :: insertSorted x ys

def cfg (ws : List String) : String :=
  let kvs := ws.map kv
  let g (k : String) := lookup kvs k "-"
  let server (t : String) : Option Server := if t == "D" then some .dflt else t.toNat?.map .named
  let urls := (optList (g "u")).map fun l => l.map server
  let conns := (optList (g "c")).map fun l => l.filterMap server
  let pool := if g "pool" == "-" then none else (g "pool").toNat?
  match builder urls conns (g "au" == "1") (g "ac" == "1") pool ((g "dflt").toNat?.getD 0) with
  | .errBoth => "rdout err both"
  | .errRedis => "rdout err redis"
  | .ok servers m =>
    let names := servers.foldl (fun acc s => insertSorted (showServer s) acc) []
    -- the pool section reaches the pool unchanged; without one: Fifo, no timeouts
    let qm := if g "qmobs" == "0" then "unobserved" else if g "qm" == "-" then "fifo" else g "qm"
    let tail := s!"max={m} qm={qm} wait={g "wait"}"
    if servers == [.dflt] && g "obs" == "0" then s!"rdout ok servers=unobserved {tail}"
    else s!"rdout ok servers=[{",".intercalate names}] {tail}"

def parseProto (s : String) : Option Proto :=
  if s == "resp2" then some .resp2 else if s == "resp3" then some .resp3 else none
def showProto : Proto → String
  | .resp2 => "resp2"
  | .resp3 => "resp3"
def optTok (s : String) : Option String := if s == "-" then none else some s
def showOpt : Option String → String
  | none => "-"
  | some s => s

def parseRInfo (s : String) : Option RInfo :=
  match s.splitOn ":" with
  | [db, u, p, pr] =>
    match db.toInt?, parseProto pr with
    | some d, some pr => some { db := d, username := optTok u, password := optTok p, protocol := pr }
    | _, _ => none
  | _ => none
def showRInfo (r : RInfo) : String :=
  s!"{r.db}:{showOpt r.username}:{showOpt r.password}:{showProto r.protocol}"

def parseAddr (s : String) : Option Addr :=
  match s.splitOn ":" with
  | ["tcp", h, p] => p.toNat?.map fun p => .tcp h p
  | ["tls", h, p, i] => p.toNat?.map fun p => .tcpTls h p (i == "1")
  | ["unix", p] => some (.unix p)
  | _ => none
def showAddr : Addr → String
  | .tcp h p => s!"tcp:{h}:{p}"
  | .tcpTls h p i => s!"tls:{h}:{p}:{if i then 1 else 0}"
  | .unix p => s!"unix:{p}"
def parseRAddr (s : String) : Option RAddr :=
  match s.splitOn ":" with
  | ["tcp", h, p] => p.toNat?.map fun p => .tcp h p
  | ["tls", h, p, i, t] => p.toNat?.map fun p => .tcpTls h p (i == "1") (t == "1")
  | ["unix", p] => some (.unix p)
  | _ => none
def showRAddr : RAddr → String
  | .tcp h p => s!"tcp:{h}:{p}"
  | .tcpTls h p i t => s!"tls:{h}:{p}:{if i then 1 else 0}:{if t then 1 else 0}"
  | .unix p => s!"unix:{p}"

def parseTls (s : String) : Option (Option TlsMode) :=
  if s == "-" then some none else if s == "secure" then some (some .secure)
  else if s == "insecure" then some (some .insecure) else none
def showTls : Option TlsMode → String
  | none => "-"
  | some .secure => "secure"
  | some .insecure => "insecure"
def showNode (n : NodeInfo) : String :=
  s!"{showTls n.tlsMode} {match n.redis with | none => "-" | some r => showRInfo r}"

def conv (ws : List String) : String :=
  match ws with
  | ["info", a, r] =>
    match parseAddr a, parseRInfo r with
    | some a, some r =>
      let i : Info := { addr := a, redis := r }
      let there := i.toRedis
      let back := there.toOurs
      s!"rdout conv there={showRAddr there.addr} {showRInfo there.redis} back={showAddr back.addr} {showRInfo back.redis}"
    | _, _ => "bad-op"
  | ["rinfo", a, r] =>
    match parseRAddr a, parseRInfo r with
    | some a, some r =>
      let i : RedisInfo := { addr := a, redis := r }
      let there := i.toOurs
      let back := there.toRedis
      s!"rdout conv there={showAddr there.addr} {showRInfo there.redis} back={showRAddr back.addr} {showRInfo back.redis}"
    | _, _ => "bad-op"
  | ["node", t, r] =>
    match parseTls t, (if r == "-" then some none else (parseRInfo r).map some) with
    | some t, some r =>
      let n : NodeInfo := { tlsMode := t, redis := r }
      s!"rdout conv there={showNode n.conv} back={showNode n.conv.conv}"
    | _, _ => "bad-op"
  | ["stype", s] =>
    -- `SentinelServerType`: both directions are the identity on the two variants
    let st : Option ServerType := if s == "master" then some .master else if s == "replica" then some .replica else none
    match st with
    | some st =>
      let sh : ServerType → String := fun | .master => "master" | .replica => "replica"
      s!"rdout conv there={sh st} back={sh st}"
    | none => "bad-op"
  | _ => "bad-op"

def parseDur (s : String) : Option (Option Dur) :=
  if s == "-" then some none else
  match s.splitOn "." with
  | [a, b] => match a.toNat?, b.toNat? with
    | some a, some b => some (some { secs := a, nanos := b })
    | _, _ => none
  | _ => none
def showDur : Option Dur → String
  | none => "-"
  | some d => s!"{d.secs}.{d.nanos}"
def showPc (p : PoolConfig) : String :=
  s!"{p.maxSize} {showDur p.timeouts.wait} {showDur p.timeouts.create} {showDur p.timeouts.recycle} " ++
  (match p.queueMode with | .fifo => "fifo" | .lifo => "lifo")
def showBack : Option PoolConfig → String
  | none => "error"
  | some p => showPc p

/-- the prefix syntax of document trees: `N`, `n<digits>`, `s<hex>`, `{ key tree … }` -/
partial def parseTree : List String → Option (Tree × List String)
  | "N" :: rest => some (.null, rest)
  | "{" :: rest =>
    let rec fields (ws : List String) (acc : List (String × Tree)) : Option (Tree × List String) :=
      match ws with
      | "}" :: rest => some (.obj acc.reverse, rest)
      | k :: rest =>
        match parseTree rest with
        | some (t, rest') => fields rest' ((k, t) :: acc)
        | none => none
      | [] => none
    fields rest []
  | w :: rest =>
    if w.startsWith "n" then (w.drop 1).toString.toNat?.map fun n => (.num n, rest)
    else if w.startsWith "s" then some (.str (unhex (w.drop 1).toString), rest)
    else none
  | [] => none

def serde (ws : List String) : String :=
  match ws with
  | ["pc", m, w, c, r, q] =>
    match m.toNat?, parseDur w, parseDur c, parseDur r with
    | some m, some w, some c, some r =>
      let p : PoolConfig := { maxSize := m, timeouts := { wait := w, create := c, recycle := r },
                              queueMode := if q == "lifo" then .lifo else .fifo }
      s!"rdout serde json={hex (render (encode p))} back={showBack (decode (encode p))}"
    | _, _, _, _ => "bad-op"
  | "doc" :: stringly :: rest =>
    match parseTree rest with
    | some (t, []) => s!"rdout serde back={showBack (decodeWith (stringly == "1") t)}"
    | _ => "bad-op"
  | "whole" :: _ => "rdout serde whole"
  | ["partial", fl, u, c, pool, flag, name] =>
    let f : Flavour := if fl == "cluster" then .cluster else if fl == "sentinel" then .sentinel else .redis
    let d : WholeDoc :=
      { urls := u == "1", conns := c == "1",
        pool := if pool == "-" then none else pool.toNat?,
        flag := if flag == "-" then none else some (flag == "1"),
        name := if name == "-" then none else some name }
    let w := decodeWhole f d
    let dec := match w.decision with
      | .useUrls _ => "urls"
      | .useConnections _ => "conns"
      | .useDefault => "default"
      | .urlAndConnectionSpecified => "both"
    let x1 := match f with
      | .redis => "-"
      | _ => if w.flag then "1" else "0"
    let x2 := match f with
      | .sentinel => w.name
      | _ => "-"
    let b (x : Bool) : String := if x then "1" else "0"
    let pl := match w.pool with
      | none => "-"
      | some n => toString n
    s!"rdout serde partial u={b w.urls} c={b w.conns} pool={pl} flag={x1} name={x2} build={dec}"
  | _ => "bad-op"

/-- `node <arm> <present> <db> <user|-> <pass|->`: a sentinel Config with this node connection
info, its sentinels named by url (`u`: constructor, `s`: struct) or connection (`c`) -/
def node (ws : List String) : String :=
  match ws with
  | [arm, present, db, user, pass] =>
    match db.toInt? with
    | none => "bad-op"
    | some db =>
      let opt (w : String) : Option String := if w == "-" then none else some w
      let n : Option NodeInfo :=
        if present == "1" then
          some { tlsMode := none,
                 redis := some { db := db, username := opt user, password := opt pass, protocol := .resp2 } }
        else none
      let urls : Option Unit := if arm == "c" then none else some ()
      let conns : Option Unit := if arm == "c" then some () else none
      match sentinelNode urls conns n with
      | none => "rdout node create-error"
      | some n' =>
        let w := nodeWire n'
        let auth := match w.auth with
          | none => "-"
          | some (u, p) => s!"{u.getD "-"}:{p}"
        s!"rdout node auth={auth} db={w.db} sentinel=asked"
  | _ => "bad-op"

def run (ws : List String) : String :=
  match ws with
  | "node" :: rest => node rest
  | "cfg" :: _flavour :: rest => cfg rest
  | "conv" :: rest => conv rest
  | "serde" :: rest => serde rest
  | _ => "bad-op"

end RdDrv

namespace SyDrv
open Sy

def parseAction (ws : List String) : Option Sy.Action :=
  match ws with
  | ["call", "ok"] => some (.call .ok)
  | ["call", "panic"] => some (.call .panic)
  -- `b`: observed on a pool thread; anything else is not a step of the model
  | ["begin", i, "b"] => i.toNat?.map .begin
  | ["finish", i] => i.toNat?.map .finish
  | ["cancel", i] => i.toNat?.map .cancel
  | ["result", i, "ok"] => i.toNat?.map (.result · .ok)
  | ["result", i, "panic"] => i.toNat?.map (.result · .panic)
  | ["result", i, "aborted"] => i.toNat?.map (.result · .aborted)
  | ["dropw"] => some .dropw
  | ["destroy", "b"] => some .destroy
  | _ => none

def b01 (b : Bool) : String := if b then "1" else "0"

def obsLine (s : Sy.State) : String :=
  s!"obs alive={b01 s.alive} poisoned={b01 s.poisoned} value={b01 s.value} " ++
  s!"lock={match s.lock with | some i => toString i | none => "-"} destroyed={s.destroyed} " ++
  s!"events={s.log.length} good={b01 (goodLog s.log).isSome}"

end SyDrv

namespace SpDrv
open SP

structure SpState where
  kind : Kind
  method : DieselMethod
  pool : State
  /-- what is wrong with connection `id` -/
  conns : List (Nat × Conn) := []

def connOf (d : SpState) (id : Nat) : Conn :=
  match d.conns.find? (·.1 == id) with
  | some (_, c) => c
  | none => {}

def setConn (d : SpState) (id : Nat) (c : Conn) : SpState :=
  { d with conns := (id, c) :: d.conns.filter (·.1 != id) }

def showCheck : Check → String
  | .hasBroken => "has_broken"
  | .isValid => "is_valid"
  | .txBroken => "tx_broken"
  | .ping => "ping"
  | .roundTrip => "round_trip"

def showRes : Res → String
  | .ok id => s!"ok:{id}"
  | .timeoutWait => "timeout_wait"
  | .timeoutCreate => "timeout_create"
  | .timeoutRecycle => "timeout_recycle"
  | .closed => "closed"
  | .noRuntime => "no_runtime"
  | .backend => "backend"
  | .postCreateHook => "post_create_hook"
  | .cancelled => "cancelled"
  | .panicked => "panicked"

def obs (d : SpState) (extra : String) : String :=
  let st := d.pool.status
  s!"spobs {extra} size={st.2.1} avail={st.2.2.1} max={st.1}"

def cfg (ws : List String) : Option SpState :=
  let kvs := ws.map kv
  let kind : Option Kind := match lookup kvs "kind" "" with
    | "sqlite" => some .sqlite | "r2d2" => some .r2d2 | "diesel" => some .diesel | _ => none
  let m : DieselMethod := if lookup kvs "method" "fast" == "verified" then .verified else .fast
  match kind, (lookup kvs "max" "").toNat? with
  | some k, some n => some { kind := k, method := m, pool := init { maxSize := n, rt := true } }
  | _, _ => none

def handle (d : SpState) (ws : List String) : SpState × String :=
  let verdict (o : Obj) : Bool := recycleOk d.kind d.method (connOf d o.id)
  match ws with
  | ["get"] =>
    match solo verdict d.pool (.get { wait := .zero }) with
    | some (s', i) =>
      let newEvs := s'.log.drop d.pool.log.length
      let res := newEvs.findSome? fun | .result j r => if j == i then some r else none | _ => none
      -- the backend calls made on every connection the get looked at (r2d2 only: observable there)
      let looked := newEvs.filterMap fun | .call _ .recycle _ o => some o.id | _ => none
      let checked := if d.kind == .r2d2 then
          -- a poisoned wrapper is rejected without any backend call: nothing to see
          ",".intercalate ((looked.filter fun id => !(checks d.kind d.method (connOf d id)).isEmpty).map fun id =>
            s!"{id}:" ++ "+".intercalate ((checks d.kind d.method (connOf d id)).map showCheck))
        else "-"
      let d' := { d with pool := s' }
      (d', obs d' s!"res={match res with | some r => showRes r | none => "unfinished"} checked=[{checked}]")
    | none => (d, "reject")
  | ["ret", id] =>
    match id.toNat?.bind fun id => solo verdict d.pool (.ret id) with
    | some (s', _) => let d' := { d with pool := s' }; (d', obs d' "returned")
    | none => (d, "reject")
  | ["spoil", id, how] =>
    match id.toNat? with
    | some id =>
      let c := connOf d id
      let c' : Option Conn := match how with
        | "poison" => some { c with poisoned := true }
        | "broken" => some { c with broken := true }
        | "invalid" => some { c with invalid := true }
        -- an interaction that was cancelled (its closure completes normally) spoils nothing
        | "cancelled" => some c
        -- cancelled while the closure runs, the closure panics later: poisoned by the time any
        -- later interaction (a recycle check included) gets the mutex
        | "latepoison" => some { c with poisoned := true }
        | _ => none
      match c' with
      | some c' => let d' := setConn d id c'; (d', obs d' "spoiled")
      | none => (d, "bad-op")
    | none => (d, "bad-op")
  | _ => (d, "bad-op")

end SpDrv

namespace RpDrv
open RR

def obs (p : Pool) (extra : String) : String :=
  let st := p.pool.status
  s!"rpobs {extra} size={st.2.1} avail={st.2.2.1} max={st.1}"

def parseReply (m : Nat) (k : Nat) (t : String) : Option Reply :=
  -- `k`: how many recycles of this get came before (each takes one ping number)
  let n := m + k
  match t with
  | "right" => some (.echo (some n))
  | "stale" => some (.echo (if n = 0 then none else some (n - 1)))
  | "wrong" => some (.echo none)
  | "error" => some .error
  | "unwatcherr" => some .unwatchError
  | "drop" => some .drop
  | "silent" => some .silent
  | _ => none

def handle (p : Pool) (ws : List String) : Pool × String :=
  match ws with
  | "get" :: toks =>
    let replies := (toks.zipIdx.filterMap fun (t, k) => parseReply p.mgr.pingNumber k t)
    match step p.pool (.start (.get { wait := .zero, recycle := .finite })) with
    | some s1 =>
      let i := p.pool.ops.length
      let (p', pings) := soloGet { p with pool := s1 } i replies 200
      let newEvs := p'.pool.log.drop p.pool.log.length
      let res := newEvs.findSome? fun | .result j r => if j == i then some r else none | _ => none
      let shown := ",".intercalate (pings.map fun (id, n) => s!"{id}:{n}")
      let (rs, w) := match res with
        | some (.ok id) => (s!"ok:{id}", if (p'.conn id).watched then "1" else "0")
        | some r => (SpDrv.showRes r, "-")
        | none => ("unfinished", "-")
      (p', obs p' s!"res={rs} pings=[{shown}] watched={w}")
    | none => (p, "reject")
  | ["ret", id] =>
    match id.toNat?.bind fun id => (step p.pool (.start (.ret id))).map fun s1 => soloOther s1 p.pool.ops.length 50 with
    | some s' => let p' := { p with pool := s' }; (p', obs p' "done")
    | none => (p, "reject")
  | ["take", id] =>
    match id.toNat?.bind fun id => (step p.pool (.start (.take id))).map fun s1 => soloOther s1 p.pool.ops.length 50 with
    | some s' => let p' := { p with pool := s' }; (p', obs p' "done")
    | none => (p, "reject")
  | ["watch", id] =>
    match id.toNat? with
    | some id => let p' := p.setConn id (p.conn id).watch; (p', obs p' "done")
    | none => (p, "bad-op")
  | _ => (p, "bad-op")

end RpDrv

namespace PwDrv
open PgP

structure PwState where
  method : Pg.RecyclingMethod
  pool : State
  closed : List Nat := []
  caches : List (Nat × Cache) := []
  serials : List (Nat × Nat) := []
  taken : List Nat := []

def cacheOf (d : PwState) (id : Nat) : Cache :=
  match d.caches.find? (·.1 == id) with
  | some (_, c) => c
  | none => { conn := id }

def setCache (d : PwState) (id : Nat) (c : Cache) : PwState :=
  { d with caches := (id, c) :: d.caches.filter (·.1 != id) }

def serialOf (d : PwState) (id : Nat) : Nat :=
  match d.serials.find? (·.1 == id) with
  | some (_, n) => n
  | none => 0

def obs (d : PwState) (extra : String) : String :=
  let st := d.pool.status
  s!"pwobs {extra} size={st.2.1} avail={st.2.2.1} max={st.1}"

def parseReply : String → Option QueryReply
  | "ok" => some .ok
  | "error" => some .error
  | "disconnect" => some .disconnect
  | _ => none

/-- one get(), alone (the environment is `PgP.env`) -/
def soloGet (d : PwState) (i : Nat) (replies : List QueryReply) (fuel : Nat) : PwState × List (Nat × String) :=
  let r := Solo.soloWith (PgP.env d.method) { closed := d.closed, replies := replies } d.pool i fuel
  ({ d with pool := r.2, closed := r.1.closed }, r.1.queries)

def parseTypes (t : String) : List Nat := if t == "-" then [] else (t.splitOn ",").filterMap String.toNat?

def showSizes (d : PwState) (ids : List Nat) : String :=
  ",".intercalate ((sortNat ids).map fun id => s!"{id}:{(cacheOf d id).size}")

def handle (d : PwState) (ws : List String) : PwState × String :=
  match ws with
  | "get" :: toks =>
    match step d.pool (.start (.get { wait := .zero })) with
    | some s1 =>
      let i := d.pool.ops.length
      let (d', qs) := soloGet { d with pool := s1 } i (toks.filterMap parseReply) 200
      let newEvs := d'.pool.log.drop d.pool.log.length
      let res := newEvs.findSome? fun | .result j r => if j == i then some r else none | _ => none
      let shown := ",".intercalate (qs.map fun (id, q) => s!"{id}:{RdDrv.hex q}")
      (d', obs d' s!"res={match res with | some r => SpDrv.showRes r | none => "unfinished"} queries=[{shown}]")
    | none => (d, "reject")
  | ["ret", id] =>
    match id.toNat?.bind fun id => (step d.pool (.start (.ret id))).map fun s1 => RR.soloOther s1 d.pool.ops.length 50 with
    | some s' => let d' := { d with pool := s' }; (d', obs d' "done")
    | none => (d, "reject")
  | ["take", id] =>
    match id.toNat? with
    | some id =>
      match (step d.pool (.start (.take id))).map fun s1 => RR.soloOther s1 d.pool.ops.length 50 with
      | some s' => let d' := { d with pool := s', taken := id :: d.taken }; (d', obs d' "done")
      | none => (d, "reject")
    | none => (d, "bad-op")
  | ["kill", id] =>
    match id.toNat? with
    | some id => let d' := { d with closed := id :: d.closed }; (d', obs d' "done")
    | none => (d, "bad-op")
  | ["prep", id, q, t] =>
    match id.toNat? with
    | some id =>
      let k : Key := { query := q, types := parseTypes t }
      let (c', st, rt) := (cacheOf d id).prepareTyped (serialOf d id) k
      let d' := setCache d id c'
      let d' := { d' with serials := (id, serialOf d id + rt) :: d'.serials.filter (·.1 != id) }
      (d', s!"pwobs prep stmt={st.conn}:{st.serial} rt={rt} csize={c'.size}")
    | none => (d, "bad-op")
  | ["prep2", id, q, t, order] =>
    -- two concurrent prepares of one key: both look up first, then both insert
    match id.toNat? with
    | some id =>
      let k : Key := { query := q, types := parseTypes t }
      let c := cacheOf d id
      if (c.get k).isSome then (d, s!"pwobs prep2 rt=0 csize={c.size}") else
      let n := serialOf d id
      -- `order`: which insert came last is the scheduler's choice, observed on the real run
      let c' := if order == "10" then (c.apply (.insert k (n + 1))).apply (.insert k n)
                else (c.apply (.insert k n)).apply (.insert k (n + 1))
      let d' := setCache d id c'
      ({ d' with serials := (id, n + 2) :: d'.serials.filter (·.1 != id) }, s!"pwobs prep2 rt=2 csize={c'.size}")
    | none => (d, "bad-op")
  | ["rm", id, q, t] =>
    match id.toNat? with
    | some id =>
      let c' := (cacheOf d id).remove { query := q, types := parseTypes t }
      (setCache d id c', s!"pwobs done csize={c'.size}")
    | none => (d, "bad-op")
  | ["clear", id] =>
    match id.toNat? with
    | some id => (setCache d id (cacheOf d id).clear, "pwobs done csize=0")
    | none => (d, "bad-op")
  | ["regclear"] =>
    let ids := (List.range d.pool.nextId).filter (registered d.pool)
    (ids.foldl (fun d id => setCache d id (cacheOf d id).clear) d, "pwobs done")
  | ["regrm", q, t] =>
    let ids := (List.range d.pool.nextId).filter (registered d.pool)
    (ids.foldl (fun d id => setCache d id ((cacheOf d id).remove { query := q, types := parseTypes t })) d, "pwobs done")
  | ["sizes"] =>
    let idle := sortNat (d.pool.idle.map fun o => (cacheOf d o.id).size)
    (d, s!"pwobs sizes held=[{showSizes d (d.pool.out.map (·.id))}] taken=[{showSizes d d.taken}] " ++
        s!"idle=[{",".intercalate (idle.map toString)}]")
  | _ => (d, "bad-op")

def cfg (ws : List String) : Option PwState :=
  let kvs := ws.map kv
  let m : Option Pg.RecyclingMethod := match lookup kvs "method" "" with
    | "fast" => some .fast | "verified" => some .verified | "clean" => some .clean
    | "custom" => some (.custom (RdDrv.unhex (lookup kvs "sql" "e"))) | _ => none
  match m, (lookup kvs "max" "").toNat? with
  | some m, some n => some { method := m, pool := init { maxSize := n, rt := true } }
  | _, _ => none

end PwDrv

/-! ### `sm …`: the semaphore model `Sem` alone, against the real `tokio::sync::Semaphore`
(harness `h-sem`): every API call is one line, the answer is the observation after it -/

namespace SmDrv

structure SmState where
  sem : Sem
  /-- ids whose `Acquire` future exists and is pending, ascending -/
  pending : List Nat := []
  /-- ids that hold a permit obtained by `acquire` -/
  held : List Nat := []
  /-- permits obtained by `try_acquire` -/
  tried : Nat := 0

def insertSorted (x : Nat) : List Nat → List Nat
  | [] => [x]
  | y :: ys => if x < y then x :: y :: ys else if x = y then y :: ys else y :: insertSorted x ys

def obs (st : SmState) (res : String) : String :=
  let woken := st.pending.filter fun i =>
    st.sem.assigned.contains i || (st.sem.closed && !st.sem.queue.contains i)
  s!"smobs res={res} permits={st.sem.permits} closed={if st.sem.closed then 1 else 0} " ++
  s!"woken=[{",".intercalate (woken.map toString)}]"

def cfg (ws : List String) : Option SmState :=
  match ws with
  | [kv] =>
    match kv.splitOn "=" with
    | ["permits", n] => n.toNat?.map fun n => { sem := Sem.new n }
    | _ => none
  | _ => none

def handle (st : SmState) (ws : List String) : SmState × String :=
  match ws with
  | ["poll", i] =>
    match i.toNat? with
    | some i =>
      if st.held.contains i then (st, "reject") else
      let (sem, r) := st.sem.pollAcquire i
      match r with
      | .pending => let st' := { st with sem := sem, pending := insertSorted i st.pending }; (st', obs st' "pending")
      | .ok => let st' := { st with sem := sem, pending := st.pending.erase i, held := i :: st.held }; (st', obs st' "ok")
      | .closed => let st' := { st with sem := sem, pending := st.pending.erase i }; (st', obs st' "closed")
    | none => (st, "bad-op")
  | ["drop", i] =>
    match i.toNat? with
    | some i =>
      if !st.pending.contains i then (st, "reject") else
      let st' := { st with sem := st.sem.dropAcquire i, pending := st.pending.erase i }
      (st', obs st' "-")
    | none => (st, "bad-op")
  | ["release", i] =>
    match i.toNat? with
    | some i =>
      if !st.held.contains i then (st, "reject") else
      let st' := { st with sem := st.sem.addPermits 1, held := st.held.erase i }
      (st', obs st' "-")
    | none => (st, "bad-op")
  | ["forget", i] =>
    match i.toNat? with
    | some i =>
      if !st.held.contains i then (st, "reject") else
      let st' := { st with held := st.held.erase i }
      (st', obs st' "-")
    | none => (st, "bad-op")
  | ["try"] =>
    let (sem, r) := st.sem.tryAcquire
    match r with
    | .ok => let st' := { st with sem := sem, tried := st.tried + 1 }; (st', obs st' "ok")
    | .noPermits => let st' := { st with sem := sem }; (st', obs st' "nopermits")
    | .closed => let st' := { st with sem := sem }; (st', obs st' "closed")
  | ["untry"] =>
    if st.tried = 0 then (st, "reject") else
    let st' := { st with sem := st.sem.addPermits 1, tried := st.tried - 1 }
    (st', obs st' "-")
  | ["add", k] =>
    match k.toNat? with
    | some k => let st' := { st with sem := st.sem.addPermits k }; (st', obs st' "-")
    | none => (st, "bad-op")
  | ["close"] => let st' := { st with sem := st.sem.close }; (st', obs st' "-")
  | _ => (st, "bad-op")

end SmDrv

structure DState where
  managed : Option State := none
  unmanaged : Option U.State := none
  sync : Option Sy.State := none
  sp : Option SpDrv.SpState := none
  rp : Option RR.Pool := none
  pw : Option PwDrv.PwState := none
  sm : Option SmDrv.SmState := none
  /-- pool-level timeouts of the managed pool under test -/
  pt : Timeouts := {}

def handle (d : DState) (line : String) : DState × Option String :=
  let ws := (line.trimAscii.toString.splitOn " ").filter (· ≠ "")
  if line.startsWith "#" then (d, none) else
  match ws with
  | [] => (d, none)
  | "obs" :: _ => (d, none)
  | "error" :: _ => (d, none)
  | "trace" :: _ => (d, none)
  | "end" :: _ => (d, none)
  | "pgcfg" :: rest => (d, some (PgDrv.run rest))
  | "pgquery" :: rest => (d, some (PgDrv.recycling rest))
  | "sp" :: "cfg" :: rest =>
    match SpDrv.cfg rest with
    | some st => ({ d with sp := some st }, some "spobs cfg ok")
    | none => (d, some "bad-cfg")
  | "sp" :: rest =>
    match d.sp with
    | some st => let (st', out) := SpDrv.handle st rest; ({ d with sp := some st' }, some out)
    | none => (d, some "bad-op")
  | "rp" :: "cfg" :: rest =>
    match (lookup (rest.map kv) "max" "").toNat? with
    | some n => ({ d with rp := some { pool := init { maxSize := n, rt := true } } }, some "rpobs cfg ok")
    | none => (d, some "bad-cfg")
  | "rp" :: rest =>
    match d.rp with
    | some st => let (st', out) := RpDrv.handle st rest; ({ d with rp := some st' }, some out)
    | none => (d, some "bad-op")
  | "pw" :: "cfg" :: rest =>
    match PwDrv.cfg rest with
    | some st => ({ d with pw := some st }, some "pwobs cfg ok")
    | none => (d, some "bad-cfg")
  | "pw" :: rest =>
    match d.pw with
    | some st => let (st', out) := PwDrv.handle st rest; ({ d with pw := some st' }, some out)
    | none => (d, some "bad-op")
  | "sm" :: "cfg" :: rest =>
    match SmDrv.cfg rest with
    | some st => ({ d with sm := some st }, none)
    | none => (d, some "bad-cfg")
  | "sm" :: rest =>
    match d.sm with
    | some st => let (st', out) := SmDrv.handle st rest; ({ d with sm := some st' }, some out)
    | none => (d, some "bad-op")
  | "smobs" :: _ => (d, none)
  | "pwobs" :: _ => (d, none)
  | "pwx" :: _ => (d, none)
  | "rpobs" :: _ => (d, none)
  | "rpx" :: _ => (d, none)
  | "spobs" :: _ => (d, none)
  | "spx" :: _ => (d, none)
  | "rdin" :: rest => (d, some (RdDrv.run rest))
  | "rdout" :: _ => (d, none)
  | "rdx" :: _ => (d, none)
  | "builder" :: dfl :: calls =>
    -- `builder d=<n> <call>...`: m:<n> | T:<w>,<c>,<r> | w:<x> | c:<x> | r:<x> | q:f|l | C:<n>,<w>,<c>,<r>,<f|l>
    let od (w : String) : Option (Option Nat) := if w == "-" then some none else w.toNat?.map some
    let parseCall (t : String) : Option Bld.Call :=
      match t.splitOn ":" with
      | ["m", n] => n.toNat?.map .maxSize
      | ["w", x] => (od x).map .wait
      | ["c", x] => (od x).map .create
      | ["r", x] => (od x).map .recycle
      | ["q", "f"] => some (.queueMode false)
      | ["q", "l"] => some (.queueMode true)
      | ["T", ws] =>
        match ws.splitOn "," with
        | [w, c, r] =>
          match od w, od c, od r with
          | some w, some c, some r => some (.timeouts { wait := w, create := c, recycle := r })
          | _, _, _ => none
        | _ => none
      | ["C", ws] =>
        match ws.splitOn "," with
        | [n, w, c, r, q] =>
          match n.toNat?, od w, od c, od r with
          | some n, some w, some c, some r =>
            some (.config { maxSize := n, tmo := { wait := w, create := c, recycle := r }, lifo := q == "l" })
          | _, _, _, _ => none
        | _ => none
      | _ => none
    match (dfl.drop 2).toString.toNat?, calls.mapM parseCall with
    | some dn, some cs =>
      let b := Bld.applyAll dn cs
      let sh (x : Option Nat) : String := match x with
        | none => "-"
        | some n => toString n
      (d, some s!"builder max={b.maxSize} w={sh b.tmo.wait} c={sh b.tmo.create} r={sh b.tmo.recycle} qm={if b.lifo then "lifo" else "fifo"}")
    | _, _ => (d, some "bad-op")
  | ["build", w, c, r, rt] =>
    match parseTmo w, parseTmo c, parseTmo r with
    | some w, some c, some r =>
      (d, some (if buildOk (rt == "1") { wait := w, create := c, recycle := r } then "build ok"
                else "build no_runtime"))
    | _, _, _ => (d, some "bad-op")
  | "cfg" :: "managed" :: rest =>
    match parseCfg rest, parsePoolTimeouts rest with
    | some c, some pt => ({ managed := some (init c), unmanaged := none, sync := none, pt := pt }, some "cfg ok")
    | _, _ => (d, some "bad-cfg")
  | "cfg" :: "sync" :: rest =>
    -- the construction must have happened on a pool thread; otherwise there is no model run
    if rest.contains "create=b" then ({ managed := none, unmanaged := none, sync := some Sy.init }, some "cfg ok")
    else ({ managed := none, unmanaged := none, sync := some { Sy.init with alive := false, value := false } },
          some "cfg ok")
  | "cfg" :: "unmanaged" :: rest =>
    match UDrv.parseCfg rest with
    | some c => ({ managed := none, unmanaged := some (U.init c), sync := none }, some "cfg ok")
    | none => (d, some "bad-cfg")
  | _ =>
    match d.sync with
    | some ss =>
      -- `probe`: an observation, not a step; `finish i p`: the observed outcome must be the
      -- closure's scripted behaviour
      if ws == ["probe"] then (d, some (SyDrv.obsLine ss)) else
      let ws := match ws with
        | ["finish", i, p] =>
          match i.toNat?.bind (ss.tasks[·]?) with
          | some t => if (t.beh == .panic) == (p == "1") then ["finish", i] else ["finish-mismatch"]
          | none => ws
        | _ => ws
      match SyDrv.parseAction ws with
      | some a =>
        match Sy.step ss a with
        | some s' => ({ d with sync := some s' }, some (SyDrv.obsLine s'))
        | none => (d, some "reject")
      | none => (d, some "bad-op")
    | none =>
    match d.unmanaged with
    | some us =>
      -- `start uremove d` is `Pool::remove()`: a remove with the pool's configured timeout
      match (if ws == ["start", "uremove", "d"] then some (U.Action.start (.remove us.cfg.timeout))
             else UDrv.parseAction ws) with
      | some a =>
        match U.step us a with
        | some s' =>
          let i := match a with
            | .start _ => s'.ops.length - 1
            | .step i _ => i
          ({ d with unmanaged := some s' }, some (UDrv.obsLine s' i us.log.length))
        | none => (d, some "reject")
      | none => (d, some "bad-op")
    | none =>
    -- `start get d` is `Pool::get()`: a get with the pool-level timeouts
    let act := if ws == ["start", "get", "d"] then some (Action.start (.get d.pt)) else parseAction ws
    match d.managed, act with
    | some s, some a =>
      match step s a with
      | some s' =>
        let i := match a with
          | .start _ => s'.ops.length - 1
          | .step i _ => i
        ({ d with managed := some s' }, some (obsLine s' i s.log.length))
      | none => (d, some "reject")
    | _, _ => (d, some "bad-op")

partial def loop (h : IO.FS.Stream) (out : IO.FS.Stream) (d : DState) : IO Unit := do
  let line ← h.getLine
  if line.isEmpty then return ()
  let (d', o) := handle d line
  match o with
  | some l => out.putStrLn l
  | none => pure ()
  loop h out d'

end Driver

def main : IO Unit := do
  let stdin ← IO.getStdin
  let stdout ← IO.getStdout
  Driver.loop stdin stdout {}
