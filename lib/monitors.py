"""Property monitors: each property stated directly as an executable oracle over the
implementation's run (harness observations = ground truth + hook snapshots).  They never
look at the model.  A monitor returns a list of (step_index, message)."""
import re
from trace import parse_obs


def parse_list(s):
    s = s.strip()
    if s in ("?", ""):
        return None
    assert s[0] == "[" and s[-1] == "]", s
    body = s[1:-1]
    return [x for x in body.split(",") if x] if body else []


def cfg_of(trace):
    d = {}
    for w in trace.cfg.split()[2:]:
        k, v = w.split("=", 1)
        d[k] = v
    return d


def events(obs):
    e = obs.get("ev", "")
    return [x for x in e.split(";") if x]


def ev_args(e):
    name, rest = e.split("(", 1)
    return name, rest[:-1].split(",")


class Run:
    """Replays the bookkeeping every monitor needs over one trace."""

    def __init__(self, trace):
        self.t = trace
        self.cfg = cfg_of(trace)
        self.max0 = int(self.cfg.get("max", 0))
        self.ops = []          # per op: dict(kind, obj, spec)
        self.rows = []         # per step: dict with parsed obs + derived info
        self.has_resize = False
        self.has_close = False
        labels = {}
        for k, (a, o, sec) in enumerate(trace.steps):
            ws = a.split()
            if ws[0] == "start":
                kind = ws[1]
                op = {"kind": kind, "spec": ws[2:], "obj": None, "start": k}
                if kind in ("ret", "take"):
                    op["obj"] = ws[2]
                if kind == "resize":
                    self.has_resize = True
                if kind == "close":
                    self.has_close = True
                self.ops.append(op)
                i = len(self.ops) - 1
            else:
                i = int(ws[1])
            if o is None:
                self.rows.append(None)
                continue
            d = parse_obs(o)
            labels[i] = (d["lbl"], d["susp"] == "1")
            row = {
                "k": k, "action": a, "section": sec, "op": i, "obs": d,
                "labels": dict(labels),
                "live": parse_list(d["live"]), "out": parse_list(d["out"]),
                "idle": parse_list(d["idle"]), "ev": events(d),
            }
            self.rows.append(row)

    def discarded_in_hand(self, row):
        """objects that are in the hands of an op past the point of no return of take /
        surplus discard: they exist but are no longer the pool's"""
        res = set()
        for i, (lbl, _) in row["labels"].items():
            op = self.ops[i]
            if op["kind"] == "take" and lbl in ("take.add_permits", "take.detach"):
                res.add(op["obj"])
            if op["kind"] == "ret" and lbl == "ret.detach":
                res.add(op["obj"])
        return res

    def creating(self, row):
        return sum(1 for i, (lbl, _) in row["labels"].items()
                   if self.ops[i]["kind"] == "get" and lbl == "create")


def mon_C01(run):
    """live (pool's) objects + objects being created <= max_size; holders <= max_size;
    only for histories without resize / close"""
    if run.has_resize or run.has_close:
        return []
    bad = []
    for row in run.rows:
        if row is None:
            continue
        pooled = [x for x in row["live"] if x not in run.discarded_in_hand(row)]
        n = len(pooled) + run.creating(row)
        if n > run.max0:
            bad.append((row["k"], f"{len(pooled)} live objects + {run.creating(row)} being created > max_size {run.max0}"))
        if len(row["out"]) > run.max0:
            bad.append((row["k"], f"{len(row['out'])} callers hold an object > max_size {run.max0}"))
        if bad:
            break
    return bad


MONITORS = {"C01": mon_C01}
